(* C01 -- RDD pipelines compute plain-list semantics for every partitioning.
   Only statements, each closed by [exact] of a lemma from PV.Proofs.Rdd*.

   Model: PV.Model.Rdd.  A dataset is its list of partitions; [parallelize], [apply_tr], [run_act]
   transcribe context.py / rdd.py; [apply_list], [run_list] are the plain-Python-list meanings.
   All statements are equations in the error monad [res]: equal value, or the same exception class.
   They quantify over ALL input lists, slice counts, partitionings, pipelines and user functions
   (arbitrary Gallina functions into [res]); premises appear only where Spark itself needs them. *)
From Coq Require Import String ZArith NArith List Bool Reals PrimFloat.
Require Import PV.Base.Val PV.Model.Rdd PV.Model.RddLib.
Require Import PV.Base.Num PV.Base.NumR.
Require Import PV.Proofs.Rdd PV.Proofs.RddTr PV.Proofs.RddCount PV.Proofs.RddAct PV.Proofs.RddFold PV.Proofs.RddLib PV.Proofs.RddMean PV.Proofs.RddObserve PV.Proofs.RddReduce.
Import ListNotations.
Open Scope Z_scope.

(* ---- contiguous slicing: for EVERY input and EVERY slice count (negative, zero, larger than the
   input) the partitions of parallelize, read in order, are the input *)
Theorem C01_parallelize_flat : forall (xs : list val) (n : Z), concat (parallelize xs n) = xs.
Proof. exact parallelize_flat. Qed.

(* ---- every transformation: the flat content of the result is the plain-list result on the flat
   content (or both raise the same exception), for every partitioning with at least one partition.
   [tr_ok]: not glom (own law below); mapPartitions for partition-homomorphic functions; coalesce(k >= 1). *)
Theorem C01_tr_flat : forall (t : tr) (ps : parts), tr_ok t -> ps <> [] ->
  rmap (@concat val) (apply_tr t ps) = apply_list t (concat ps).
Proof. exact tr_flat. Qed.

Theorem C01_glom_law : forall ps : parts,
  apply_tr TGlom ps = Ok (map (fun p => [VList p]) ps) /\
  concat (map (fun v => match v with VList l => l | _ => [] end) (concat (map (fun p => [VList p]) ps))) = concat ps.
Proof. exact glom_law. Qed.

(* glom followed by flatMap(lambda x: x) restores the dataset partition by partition *)
Theorem C01_glom_unglom : forall ps : parts, bind (apply_tr TGlom ps) (apply_tr (TFlatMap g_iter)) = Ok ps.
Proof. exact glom_unglom. Qed.

(* ---- every action except mean (below): the result on the partitions is the plain-list result on the
   flat content.  [act_ok]: reduce needs an associative operator with one exception class, fold/aggregate need Spark's contract
   [agg_hom], take/top/takeOrdered a non-negative count, min/max a non-empty dataset, countByValue
   float-free values (the data domain); collect, count, first, sum, lookup, collectAsMap,
   toLocalIterator need nothing. *)
Theorem C01_act_flat : forall (a : act) (ps : parts), act_ok a (concat ps) ->
  run_act a ps = run_list a (concat ps).
Proof. exact act_flat. Qed.

(* reduce: associative operator (in the error monad) whose exceptions all have one class -- the tasks of all
   partitions run before the partial results are combined, so two failing steps may surface in either order *)
Theorem C01_reduce_flat : forall (f : op2) (ps : parts), assoc_m f -> single_err f ->
  run_act (AReduce f) ps = run_list (AReduce f) (concat ps).
Proof. exact reduce_flat. Qed.

(* value form, associativity only: the dataset yields a value exactly when the plain left fold does, the same one *)
Theorem C01_reduce_value : forall (f : op2) (ps : parts) (v : val), assoc_m f ->
  (run_act (AReduce f) ps = Ok v <-> run_list (AReduce f) (concat ps) = Ok v).
Proof. exact reduce_value. Qed.

Theorem C01_aggregate_flat : forall (z : val) (seq comb : op2) (ps : parts), agg_hom z seq comb ->
  run_act (AAggregate z seq comb) ps = run_list (AAggregate z seq comb) (concat ps).
Proof. exact aggregate_flat. Qed.

Theorem C01_fold_flat : forall (z : val) (op : op2) (ps : parts), agg_hom z op op ->
  run_act (AFold z op) ps = run_list (AFold z op) (concat ps).
Proof. exact fold_flat. Qed.

(* fold in its textbook form: op associative with neutral element zero on a carrier closed under op *)
Theorem C01_fold_monoid : forall (D : val -> Prop) (z : val) (op : op2), monoid_on D z op ->
  forall ps : parts, Forall (Forall D) ps ->
  run_act (AFold z op) ps = run_list (AFold z op) (concat ps).
Proof. exact fold_monoid. Qed.

(* countByValue: the per-partition dictionaries summed in partition order are the dictionary of the flat
   list -- same keys, same counts, same insertion order *)
Theorem C01_countByValue_flat : forall ps : parts, Forall Simple (concat ps) ->
  run_act ACountByValue ps = run_list ACountByValue (concat ps).
Proof. exact countByValue_flat. Qed.

(* ---- reducing an empty dataset raises ValueError: any operator, any number of (empty) partitions *)
Theorem C01_reduce_empty : forall (f : op2) (ps : parts), concat ps = [] ->
  run_act (AReduce f) ps = Err "ValueError".
Proof. exact reduce_empty. Qed.

(* ---- whole pipelines: parallelize, any list of stages, any action -- equal to the plain-list pipeline *)
Theorem C01_pipeline : forall (ts : list tr) (a : act) (xs : list val) (n : Z),
  Forall tr_ok ts -> (forall ys, apply_lists ts xs = Ok ys -> act_ok a ys) ->
  pipeline_rdd ts a xs n = pipeline_list ts a xs.
Proof. exact pipeline_flat. Qed.

(* ---- hence the result, including element order, is the same for every two slice counts *)
Corollary C01_slices_irrelevant : forall (ts : list tr) (a : act) (xs : list val) (n m : Z),
  Forall tr_ok ts -> (forall ys, apply_lists ts xs = Ok ys -> act_ok a ys) ->
  pipeline_rdd ts a xs n = pipeline_rdd ts a xs m.
Proof. exact slices_irrelevant. Qed.

(* ---- the observation the correspondence run compares with the implementation (Run/C01_run.v: glom after
   every stage, then the action) starts with the partitions of parallelize and ends with the pipeline result *)
Theorem C01_observe_pipeline : forall (ts : list tr) (a : act) (xs : list val) (n : Z),
  last (observe ts a (parallelize xs n)) VNone = res_val (pipeline_rdd ts a xs n) /\
  hd VNone (observe ts a (parallelize xs n)) = vparts (parallelize xs n).
Proof. exact observe_pipeline. Qed.

(* ---- mean().  The full statement (bit-identical floats) is false of the model and of the implementation:
   Welford's running mean and the merge formulas round differently from sum(xs) / len(xs). *)
Definition C01_mean_full : Prop :=
  forall ps : parts, concat ps <> [] -> run_act AMean ps = run_list AMean (concat ps).

Theorem C01_mean_bitexact_refuted : ~ C01_mean_full.
Proof. exact mean_bitexact_refuted. Qed.

(* what holds: the SAME regenerated kernels (sc_merge / sc_mergeStats, generic in the number type), run over
   the real numbers, give sum / count for integer data in every partitioning -- the missing part is
   floating-point rounding (covered by the bit-exact correspondence run and the oracle's 1e-9 tolerance) *)
Theorem C01_mean_real_partial : forall (mx mn : R) (zs : list (list Z)), concat zs <> [] ->
  @sc_mu ROps (sc_parts (0, 0%R, 0%R, mx, mn) zs) = (IZR (sumZ (concat zs)) / IZR (len (concat zs)))%R /\
  @sc_n ROps (sc_parts (0, 0%R, 0%R, mx, mn) zs) = len (concat zs).
Proof. exact mean_real. Qed.

(* ---- non-vacuity: library members satisfy the premises, others do not *)
Theorem C01_lib_assoc : assoc_m op_add /\ assoc_m op_max /\ assoc_m op_mul /\ assoc_m op_extend /\ ~ assoc_m op_sub.
Proof. exact (conj op_add_assoc (conj op_max_assoc (conj op_mul_assoc (conj op_extend_assoc op_sub_not_assoc)))). Qed.
Theorem C01_lib_single_err : single_err op_add /\ single_err op_max /\ single_err op_mul /\ single_err op_extend.
Proof. exact (conj op_add_single (conj op_max_single (conj op_mul_single op_extend_single))). Qed.

Theorem C01_lib_agg_hom :
  agg_hom (VInt 0) op_add op_add /\ agg_hom (VList []) op_append op_extend /\
  agg_hom (VInt 0) op_count op_add /\ ~ agg_hom (VInt 1) op_add op_add.
Proof. exact (conj sum_agg_hom (conj collect_agg_hom (conj count_agg_hom one_not_agg_hom))). Qed.

Theorem C01_lib_monoid : monoid_on is_int (VInt 0) op_add /\ monoid_on is_int (VInt 1) op_mul.
Proof. exact (conj int_add_monoid int_mul_monoid). Qed.

Theorem C01_lib_part_hom : part_hom mp_id /\ part_hom mp_inc /\ part_hom mp_dup /\ part_hom mp_evens /\ ~ part_hom mp_rev.
Proof. exact (conj mp_id_hom (conj mp_inc_hom (conj mp_dup_hom (conj mp_evens_hom mp_rev_not_hom)))). Qed.

(* sanity on doctest inputs of rdd.py *)
Example ex_parallelize : parallelize (map VInt [1; 2; 3; 4; 5; 6; 7; 8]) 5 =
  map (map VInt) [[1]; [2; 3]; [4]; [5; 6]; [7; 8]].
Proof. vm_compute. reflexivity. Qed.
Example ex_coalesce : apply_tr (TCoalesce 3) (map (map VInt) [[1]; [2; 3]; [4]; [5; 6]; [7; 8]]) =
  Ok (map (map VInt) [[1; 2; 3]; [4; 5; 6]; [7; 8]]).
Proof. vm_compute. reflexivity. Qed.
Example ex_aggregate :
  pipeline_rdd [] (AAggregate (VTup [VInt 0; VInt 0]) op_sumcount op_pairadd) (map VInt [1; 2; 3; 4]) 2 =
  Ok (VTup [VInt 10; VInt 4]).
Proof. vm_compute. reflexivity. Qed.
Example ex_pipeline :
  pipeline_rdd [TMap f_inc; TFilter p_even; TFlatMap g_dup; TSortBy k_neg true None; TCoalesce 2]
               (AReduce op_add) (map VInt [0; 4; 7; 4; 10]) 3 = Ok (VInt 16) /\
  Forall tr_ok [TMap f_inc; TFilter p_even; TFlatMap g_dup; TSortBy k_neg true None; TCoalesce 2].
Proof. split; [vm_compute; reflexivity|]. repeat constructor; easy. Qed.
Example ex_reduce_empty : pipeline_rdd [TFilter p_false] (AReduce op_add) (map VInt [1; 2; 3]) 10 = Err "ValueError".
Proof. vm_compute. reflexivity. Qed.
