(* C05 -- Caching never changes results, prevents recomputation, and unpersist is safe.
   Only statements, each closed by [exact] of a lemma from PV.Proofs.Cache*.
   Universally quantified throughout: the element type A, the user functions inside the stages, the
   partitions, the number of pipelines / contexts / managers and who shares what, the class of each
   manager (None = CacheManager, Some t = TimedCacheManager(timeout=t)), local or pool jobs per
   context, the persist positions, and the histories (collect / count / take n / first on ANY node,
   unpersist of any node, clock advances, explicit gc) -- see Model/Cache.v and Model/CacheSpec.v. *)
From Coq Require Import ZArith List Bool Lia.
Require Import PV.Model.Cache PV.Model.CacheSpec.
Require Import PV.Proofs.CacheWorld PV.Proofs.CacheRecompute2 PV.Proofs.CacheRecompute3 PV.Proofs.CacheTimed
  PV.Proofs.CacheUnpersist PV.Proofs.CacheHistory.
Import ListNotations.
Open Scope Z_scope.

(* ---- ids: one process-wide counter => every dataset of every context has an id of its own ---- *)
Theorem C05_ids_fresh : forall (A : Type) (w : world A), built w -> NoDup (world_ids w).
Proof. exact built_ids_fresh. Qed.

(* ---- persist is transparent: every action of every history returns what the cache-free evaluator
   returns (spec_action never looks at a manager) ---- *)
Theorem C05_persist_transparent : forall (A : Type) (w : world A) (tos : list (option Z)) (h : list action),
  built w -> wf_world w (length tos) ->
  map (fun t => fst (fst t)) (run_history w (init_state A tos) h) = map (spec_action w) h.
Proof. exact persist_transparent. Qed.

(* the same from any state in which every entry holds what its key stands for -- the hypothesis that
   fresh ids are what makes it work is explicit here *)
Theorem C05_transparent_from_fresh_ids : forall (A : Type) (w : world A) h st,
  NoDup (world_ids w) -> wf_world w (length (s_mgrs st)) -> st_ok w st ->
  map (fun t => fst (fst t)) (run_history w st h) = map (spec_action w) h.
Proof. exact history_transparent. Qed.

(* ---- no cross read: with fresh ids a key stands for exactly one (dataset, partition), and every
   entry of every manager in every reachable state holds exactly that partition's contents -- also
   when two contexts share the manager ---- *)
Theorem C05_key_stands_for_one : forall (A : Type) (w : world A) P j rid idx src d,
  NoDup (world_ids w) -> In P (w_pipes w) ->
  nth_error (p_nodes P) j = Some (rid, SPersist) -> nth_error (p_parts P) idx = Some src ->
  (wspec w (rid, Z.of_nat idx) d <-> d = plain_rev (Z.of_nat idx) (rev_prefix j (p_nodes P)) src).
Proof. exact wspec_functional. Qed.
Theorem C05_no_cross_read : forall (A : Type) (w : world A) h st,
  NoDup (world_ids w) -> wf_world w (length (s_mgrs st)) -> st_ok w st ->
  st_ok w (final_state w st h) /\ length (s_mgrs (final_state w st h)) = length (s_mgrs st).
Proof. exact history_ok. Qed.

(* ---- no recomputation ---- *)
(* one action, any manager: the entry of partition i of the persisted node is present and none of its
   stamps is expired => no call of any function upstream of the node for partition i, whether the
   action is on the node (jd = 0) or on a descendant, and the entry is still there afterwards *)
Theorem C05_no_recompute_action : forall (A : Type) pool now (pre post : list (node A)) rid jd parts a i (m : mgr A),
  NoDup (map fst (pre ++ (rid, SPersist) :: post)) ->
  has_key (rid, i) m -> stable now (rid, i) m ->
  let c := run_action_on pool now (rev_prefix (length pre + 1 + jd) (pre ++ (rid, SPersist) :: post)) parts a m in
  user_calls_of (map fst pre) i (snd (fst c)) = [] /\
  has_key (rid, i) (snd c) /\ stable now (rid, i) (snd c).
Proof. exact no_recompute_action. Qed.
(* inside a world, CacheManager: present is enough *)
Theorem C05_no_recompute_plain : forall (A : Type) (w : world A) st k P cx m pre rid post jd ak i,
  built w ->
  nth_error (w_pipes w) k = Some P -> p_nodes P = pre ++ (rid, SPersist) :: post ->
  nth_error (w_ctxs w) (p_ctx P) = Some cx -> nth_error (s_mgrs st) (c_mgr cx) = Some m ->
  m_timeout m = None -> has_key (rid, i) m ->
  user_calls_of (map fst pre) i (snd (fst (step w st (Act k (length pre + 1 + jd) ak)))) = [].
Proof. exact no_recompute_step_plain. Qed.
(* along histories, CacheManager: "has been computed" -- a collect()/count() job on the persisted dataset
   itself leaves an entry for every partition ... *)
Theorem C05_collect_caches_all_plain : forall (A : Type) now rid (up : list (node A)) parts i0 (m : mgr A) idx,
  m_timeout m = None -> (idx < length parts)%nat ->
  pk A (rid, i0 + Z.of_nat idx) (snd (run_all now ((rid, SPersist) :: up) parts i0 m)).
Proof. exact collect_caches_all_plain. Qed.
(* ... and once the entry (rid, i) is there, after ANY further history that does not unpersist that
   dataset (other datasets' unpersists, actions of other contexts sharing the manager, partial actions),
   EVERY action on the persisted dataset or a descendant makes no upstream call for partition i *)
Theorem C05_no_recompute_history_plain : forall (A : Type) (w : world A) st1 h2 k P cx m1 pre rid post jd ak i,
  built w ->
  nth_error (w_pipes w) k = Some P -> p_nodes P = pre ++ (rid, SPersist) :: post ->
  nth_error (w_ctxs w) (p_ctx P) = Some cx -> nth_error (s_mgrs st1) (c_mgr cx) = Some m1 ->
  m_timeout m1 = None -> has_key (rid, i) m1 ->
  Forall (fun a => ~ unpersists A w rid a) h2 ->
  user_calls_of (map fst pre) i
    (snd (fst (step w (final_state w st1 h2) (Act k (length pre + 1 + jd) ak)))) = [].
Proof. exact no_recompute_history_plain. Qed.
(* TimedCacheManager (code after a58d69d), every reachable state of every history with a monotone clock:
   cached and younger than the timeout => not recomputed.  (Before a58d69d this was refuted: delete() left
   a stale stamp in _time_added; found by this check, replay kept in corpus/C05/stale_stamp.json.) *)
Theorem C05_no_recompute_timed : forall (A : Type) (w : world A) tos h k P cx m to pre rid post jd ak i d t,
  built w -> clock_monotone h ->
  let st := final_state w (init_state A tos) h in
  nth_error (w_pipes w) k = Some P -> p_nodes P = pre ++ (rid, SPersist) :: post ->
  nth_error (w_ctxs w) (p_ctx P) = Some cx -> nth_error (s_mgrs st) (c_mgr cx) = Some m ->
  m_timeout m = Some to ->
  In ((rid, i), (d, t)) (m_entries m) -> t > s_now st - to ->
  user_calls_of (map fst pre) i (snd (fst (step w st (Act k (length pre + 1 + jd) ak)))) = [].
Proof. exact no_recompute_step_timed. Qed.
(* both classes in one statement: in every reachable state, an entry that is present (and, under a timed
   manager, younger than the timeout) is not recomputed by any action on its dataset or a descendant *)
Theorem C05_no_recompute : forall (A : Type) (w : world A) tos h k P cx m pre rid post jd ak i d t,
  built w -> clock_monotone h ->
  let st := final_state w (init_state A tos) h in
  nth_error (w_pipes w) k = Some P -> p_nodes P = pre ++ (rid, SPersist) :: post ->
  nth_error (w_ctxs w) (p_ctx P) = Some cx -> nth_error (s_mgrs st) (c_mgr cx) = Some m ->
  In ((rid, i), (d, t)) (m_entries m) ->
  (forall to, m_timeout m = Some to -> t > s_now st - to) ->
  user_calls_of (map fst pre) i (snd (fst (step w st (Act k (length pre + 1 + jd) ak)))) = [].
Proof. exact no_recompute_step_any. Qed.

(* ---- timed manager: gc is complete ---- *)
(* the bookkeeping invariant (_time_added sorted, bounded by the clock, a stamp for every entry and an entry
   for every stamp, one entry per key) holds in every reachable state: preserved by add, by the repaired
   join (entries from pool workers are stamped), by gc, by the repaired delete and by the passing of time *)
Theorem C05_timed_invariant : forall (A : Type) (w : world A) tos h mi m to,
  built w -> clock_monotone h ->
  let st := final_state w (init_state A tos) h in
  nth_error (s_mgrs st) mi = Some m -> m_timeout m = Some to -> timed_inv (s_now st) m.
Proof. exact timed_invariant_reachable. Qed.
Theorem C05_join_keeps_invariant : forall (A : Type) now new (m : mgr A),
  timed_inv now m -> m_timeout m <> None ->
  NoDup (map fst new) -> (forall kv, In kv new -> ~ has_key (fst kv) m) ->
  timed_inv now (m_join now new m).
Proof. exact timed_inv_join. Qed.
(* after gc() no entry added at or before now - timeout is left, in every reachable state *)
Theorem C05_gc_complete : forall (A : Type) (w : world A) tos h mi m to,
  built w -> clock_monotone h ->
  let st := final_state w (init_state A tos) h in
  nth_error (s_mgrs st) mi = Some m -> m_timeout m = Some to ->
  forall k d t, In (k, (d, t)) (m_entries (m_gc (s_now st) m)) -> t > s_now st - to.
Proof. exact gc_complete. Qed.
(* ... and gc() removes nothing younger than the timeout (not demanded by the text; true since a58d69d) *)
Theorem C05_gc_only_expired : forall (A : Type) (w : world A) tos h mi m to,
  built w -> clock_monotone h ->
  let st := final_state w (init_state A tos) h in
  nth_error (s_mgrs st) mi = Some m -> m_timeout m = Some to ->
  forall k d t, In (k, (d, t)) (m_entries m) -> t > s_now st - to -> has_key k (m_gc (s_now st) m).
Proof. exact gc_only_expired. Qed.

(* ---- unpersist ---- *)
(* in every reachable state unpersist() of a persisted node returns its parent (node j), and an action
   on the parent gives what the action on the persisted node gives: the cache-free result *)
Theorem C05_unpersist_same_contents : forall (A : Type) (w : world A) tos h k j rid P ak,
  built w -> wf_world w (length tos) ->
  nth_error (w_pipes w) k = Some P -> nth_error (p_nodes P) j = Some (rid, SPersist) ->
  let st := final_state w (init_state A tos) h in
  fst (fst (step w st (Unpersist k (Datatypes.S j)))) = RNode j (concat (node_contents P (Datatypes.S j))) /\
  fst (fst (step w st (Act k j ak))) = fst (fst (step w st (Act k (Datatypes.S j) ak))) /\
  fst (fst (step w st (Act k j ak))) = finish ak (node_contents P (Datatypes.S j)).
Proof. exact unpersist_same_contents. Qed.
(* ... and leaves no entry with the id of that dataset in the manager of its context, for ANY index *)
Theorem C05_unpersist_no_entry : forall (A : Type) (w : world A) tos h k j rid P cx,
  built w -> wf_world w (length tos) ->
  nth_error (w_pipes w) k = Some P -> nth_error (p_nodes P) j = Some (rid, SPersist) ->
  nth_error (w_ctxs w) (p_ctx P) = Some cx ->
  let st := final_state w (init_state A tos) h in
  let st' := snd (step w st (Unpersist k (Datatypes.S j))) in
  exists m', nth_error (s_mgrs st') (c_mgr cx) = Some m' /\ forall i, ~ has_key (rid, i) m'.
Proof. exact unpersist_no_entry. Qed.

(* ---- non-vacuity and sanity ---- *)
(* the doctest of RDD.cache(): parallelize([1,2,3,4],2).map(x*x).cache(); first() computes partition 0
   only (2 calls), collect() the rest (2 more calls), a second collect() none *)
Definition doctest_world : world Z :=
  World [Ctx 0 false] (fst (alloc_all 0 [(0%nat, [[1; 2]; [3; 4]], [SMap (fun x => x * x); SPersist])])).
Example cache_doctest :
  map (fun t => (fst (fst t), length (snd (fst t))))
      (run_history doctest_world (init_state Z [None]) [Act 0 2 AFirst; Act 0 2 ACollect; Act 0 2 ACollect])
  = [(RElem 1, 2%nat); (RList [1; 4; 9; 16], 2%nat); (RList [1; 4; 9; 16], 0%nat)].
Proof. vm_compute. reflexivity. Qed.
Example doctest_world_built : built doctest_world /\ wf_world doctest_world 1.
Proof.
  split; [exists 0, [(0%nat, [[1; 2]; [3; 4]], [SMap (fun x => x * x); SPersist])]; reflexivity|].
  repeat constructor. exists (Ctx 0 false). split; [reflexivity | simpl; auto].
Qed.
(* the former stale-stamp replay (timeout 10; collect, unpersist, use again at 5, at 10 collect a persisted
   descendant): the hypotheses of the timed theorems are met by this reachable state, and the last action
   now makes no call of the function of dataset 2 for either partition *)
Definition reuse_world : world Z :=
  World [Ctx 0 false]
        (fst (alloc_all 0 [(0%nat, [[1; 2]; [3; 4]], [SMap (fun x => x + 1); SPersist; SMap (fun x => x * 2); SPersist])])).
Definition reuse_history : list action :=
  [Act 0 2 ACollect; Unpersist 0 2; Advance 5; Act 0 2 ACollect; Advance 5].
Example timed_nonvacuous :
  let st := final_state reuse_world (init_state Z [Some 10]) reuse_history in
  clock_monotone reuse_history /\ s_now st = 10 /\
  map (fun m => (map (fun e => (fst e, snd (snd e))) (m_entries m), m_times m)) (s_mgrs st)
    = [([((3, 0), 5); ((3, 1), 5)], [((3, 0), 5); ((3, 1), 5)])] /\
  user_calls_of [2] 0 (snd (fst (step reuse_world st (Act 0 4 ACollect)))) = [] /\
  user_calls_of [2] 1 (snd (fst (step reuse_world st (Act 0 4 ACollect)))) = [].
Proof. vm_compute. repeat split; auto; discriminate. Qed.
(* a partition function that takes a header and then "the rest" off the partition iterator, directly on a
   persisted dataset: the second collect (served from the cache) gives what the first gives *)
Example part_after_persist :
  let w := World [Ctx 0 false]
                 (fst (alloc_all 0 [(0%nat, [[1; 2; 3; 4]],
                        [SMap (fun x => x + 1); SPersist;
                         SPart (fun xs => match xs with [] => [] | a :: r => [a * 100 + fold_left Z.add r 0] end)])])) in
  map (fun t => (fst (fst t), length (snd (fst t))))
      (run_history w (init_state Z [None]) [Act 0 3 ACollect; Act 0 3 ACollect])
  = [(RList [212], 5%nat); (RList [212], 1%nat)].
Proof. vm_compute. reflexivity. Qed.
(* a zipWithUniqueId-like function of the partition identity upstream of stacked persist marks, three
   partitions: the cache-filling collect, the collect served from the cache and the persisted child agree
   with the cache-free evaluation, and the ids are pairwise distinct *)
Example index_stage_upstream_of_persist :
  let w := World [Ctx 0 false]
                 (fst (alloc_all 0 [(0%nat, [[10; 20]; [30; 40]; [50]],
                        [SIdx (fun i e _ => e * 3 + i); SPersist; SPersist; SMap (fun x => x + 100)])])) in
  map (fun t => fst (fst t))
      (run_history w (init_state Z [None]) [Act 0 3 ACollect; Act 0 3 ACollect; Act 0 2 ACollect; Act 0 4 ACollect])
  = [RList [0; 3; 1; 4; 2]; RList [0; 3; 1; 4; 2]; RList [0; 3; 1; 4; 2]; RList [100; 103; 101; 104; 102]].
Proof. vm_compute. reflexivity. Qed.
(* ids that are NOT fresh (what per-context counters would give): dataset 2 of a second pipeline reads
   the entry of dataset 2 of the first -- the hypothesis of C05_transparent_from_fresh_ids is needed *)
Example cross_read_with_colliding_ids :
  let w := World [Ctx 0 false; Ctx 0 false]
                 [Pipe 0%nat 1 [[1; 2]] [(2, SPersist)]; Pipe 1%nat 1 [[7; 8]] [(2, SPersist)]] in
  map (fun t => fst (fst t)) (run_history w (init_state Z [None]) [Act 0 1 ACollect; Act 1 1 ACollect])
  = [RList [1; 2]; RList [1; 2]].
Proof. vm_compute. reflexivity. Qed.
