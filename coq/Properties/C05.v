(* C05 -- Caching never changes results, prevents recomputation, and unpersist is safe.
   Only statements, each closed by [exact] of a lemma from PV.Proofs.Cache*.
   The element type A, the user functions inside the stages, the partitions, the number of
   pipelines/contexts/managers, the persist positions and the histories are all universally quantified. *)
From Coq Require Import ZArith List Bool.
Require Import PV.Model.Cache PV.Model.CacheSpec PV.Proofs.CacheWorld.
Import ListNotations.
Open Scope Z_scope.

(* ids come from one counter: every dataset of every context gets an id of its own *)
Theorem C05_ids_fresh : forall (A : Type) (w : world A), built w -> NoDup (world_ids w).
Proof. exact built_ids_fresh. Qed.

(* every action of every history (collect/count/take n/first on any node, unpersist anywhere, clock
   advances, gc) returns what the cache-free evaluator returns, for any persist positions, any
   number of contexts sharing or not sharing plain or timed managers, local or pool jobs *)
Theorem C05_persist_transparent : forall (A : Type) (w : world A) (tos : list (option Z)) (h : list action),
  built w -> wf_world w (length tos) ->
  map (fun t => fst (fst t)) (run_history w (init_state A tos) h) = map (spec_action w) h.
Proof. exact persist_transparent. Qed.
