(* C04 -- Failed tasks are retried, errors surface, and the context stays usable.
   Only statements, each closed by [exact] of a lemma from PV.Proofs.Retry.

   Vocabulary (PV.Model.Retry):
     att_exc ns pl i        exception class with which attempt i+1 of a task ends while the job lock is
                            held (None = the attempt succeeds); ns = the operations the task performs on
                            its own context, pl = the fault plan of the partition
     rec_of ns xs pl i      the attempt-log entry of attempt i+1 on input xs;  task_log .. n = entries 1..n
     exhausts maxr p        the first maxr attempts of partition p all fail
     all_ok maxr ps         no partition of ps exhausts
     run_task / run_job / run_jobs     _run_task, one driver-level job (datasets + action), a job sequence
   The statements hold for every max_retries >= 1 (the property asks for 1..4), every fault plan, every
   number of partitions, both executors (mode 0 local, otherwise pooled) and every job history. *)
From Coq Require Import String ZArith List Bool.
Require Import PV.Base.Val PV.Gen.Retry PV.Model.Retry PV.Proofs.Retry.
Import ListNotations.
Open Scope Z_scope.

(* ---- the regenerated kernels mean what the model assumes *)
Theorem C04_kernel_retry_stop : forall a m, 0 < a <= m -> retry_stop a m = (a =? m).
Proof. exact retry_stop_spec. Qed.
Theorem C04_kernel_attempt_next : forall a, attempt_next a = a + 1.
Proof. exact attempt_next_spec. Qed.
Theorem C04_kernel_lock_tests : forall b, job_refused b = b /\ rdd_init_refused b = b.
Proof. exact lock_tests_spec. Qed.
Theorem C04_kernel_lock_protocol : lock_on_entry = true /\ lock_after_ok = false /\ lock_after_error = false.
Proof. exact lock_protocol_spec. Qed.

(* ---- retry: first success at attempt k+1 <= max_retries: the task returns the fault-free output of the
   partition, after exactly k+1 attempts (the log is the entries of attempts 1..k+1) *)
Theorem C04_retry_success : forall maxr fuel ns xs pl k,
  Z.of_nat k < maxr -> (k < fuel)%nat ->
  (forall i, (i < k)%nat -> att_exc ns pl i <> None) -> att_exc ns pl k = None ->
  run_task fuel maxr true ns xs pl 0 = (TOk xs, task_log ns xs pl (S k), true).
Proof. exact retry_success. Qed.

(* all of the first max_retries attempts fail: the task's own exception (the one of attempt number
   max_retries) after exactly max_retries attempts *)
Theorem C04_retry_exhausted : forall maxr fuel ns xs pl e,
  1 <= maxr -> (Z.to_nat maxr <= fuel)%nat ->
  (forall i, (i < Z.to_nat maxr)%nat -> att_exc ns pl i <> None) ->
  att_exc ns pl (Z.to_nat maxr - 1) = Some e ->
  run_task fuel maxr true ns xs pl 0 = (TErr e maxr, task_log ns xs pl (Z.to_nat maxr), true).
Proof. exact retry_exhausted. Qed.

(* every attempt is computed from scratch: it is numbered i+1, it pulls a prefix of the partition starting
   at the first element whatever the earlier attempts did, a successful attempt sees the whole partition,
   and every operation it tries on its own context is refused *)
Theorem C04_attempt_from_scratch : forall ns xs pl i,
  a_no (rec_of ns xs pl i) = Z.of_nat i + 1 /\
  a_out (rec_of ns xs pl i) = att_exc ns pl i /\
  (exists n, a_seen (rec_of ns xs pl i) = firstn n xs) /\
  (att_exc ns pl i = None -> a_seen (rec_of ns xs pl i) = xs) /\
  a_nest (rec_of ns xs pl i) = refusals ns /\ Forall (fun o => o = 0) (refusals ns).
Proof. exact attempt_from_scratch. Qed.

(* ---- jobs.  The action returns a value iff every partition has a success within the budget, and the
   value is then exactly the fault-free result (plain evaluation of the pipeline on the partition data) *)
Theorem C04_job_result : forall mode maxr j, 1 <= maxr ->
  ((exists v, o_res (fst (run_job mode maxr false j)) = JOk v) <-> all_ok maxr (j_parts j) = true)
  /\ (forall v, o_res (fst (run_job mode maxr false j)) = JOk v -> v = plain_result j).
Proof. exact job_result_iff. Qed.

Theorem C04_job_ok : forall mode maxr j, 1 <= maxr -> all_ok maxr (j_parts j) = true ->
  exists logs, run_job mode maxr false j = (mkOut (JOk (plain_result j)) logs, false)
               /\ Forall2 (task_log_ok maxr j) (j_parts j) logs.
Proof. exact job_ok. Qed.

(* otherwise the caller receives the exception of the first exhausting partition (partition order), raised
   by its attempt number max_retries; locally the later partitions are never started *)
Theorem C04_job_error : forall mode maxr j pre p post e, 1 <= maxr ->
  j_parts j = pre ++ p :: post -> all_ok maxr pre = true -> exhausts maxr p = true ->
  att_exc (p_nest p) (p_plan p) (Z.to_nat maxr - 1) = Some e ->
  exists logs, run_job mode maxr false j = (mkOut (JErr e (Z.of_nat (length pre)) maxr) logs, false)
               /\ logs_ok mode maxr j pre p post logs.
Proof. exact job_err. Qed.

Theorem C04_job_total : forall mode maxr j, 1 <= maxr ->
  o_res (fst (run_job mode maxr false j)) = JOk (plain_result j)
  \/ exists e i, o_res (fst (run_job mode maxr false j)) = JErr e i maxr.
Proof. exact job_total. Qed.

(* ---- nested use of the context.  Every dataset creation / action attempted by any task of any job is
   refused (invariant: the lock flag stays set from the acquire to the finally) *)
Theorem C04_nested_refused : forall mode maxr j, 1 <= maxr ->
  nested_all_refused (o_logs (fst (run_job mode maxr false j))).
Proof. exact nested_refused. Qed.

(* a refusal that the task lets escape is a task failure like any other: ContextIsLockedException reaches
   the caller after max_retries attempts *)
Theorem C04_nested_uncaught_surfaces : forall mode maxr j pre p post, 1 <= maxr ->
  j_parts j = pre ++ p :: post -> all_ok maxr pre = true -> uncaught (p_nest p) = true ->
  exists logs, run_job mode maxr false j = (mkOut (JErr E_LOCKED (Z.of_nat (length pre)) maxr) logs, false).
Proof. exact nested_uncaught_surfaces. Qed.

(* a job started while another one holds the lock is refused, starts no task and leaves the lock alone *)
Theorem C04_refused_while_locked : forall mode maxr j,
  run_job mode maxr true j = (mkOut JRefused (no_logs (j_parts j)), true).
Proof. exact run_job_locked. Qed.

Theorem C04_refused_while_locked_any : forall mode maxr j,
  run_any mode maxr true j = (mkOut JRefused (no_logs (j_parts j)), true).
Proof. exact any_refused_while_locked. Qed.

(* ---- the lazily evaluated take / first / isEmpty (the property's parenthesis).  They return what they
   return on the fault-free element stream, or an error reaches the caller; a generator task function is
   never retried (the error is the one of a first attempt and no partition is attempted twice), an eager
   one goes through the ordinary retry; nested operations are refused here too *)
Theorem C04_lazy_actions : forall maxr j, 1 <= maxr ->
  let o := fst (run_lazy_job maxr false j) in
  (o_res o = lazy_plain_result j
   \/ exists e i a, o_res o = JErr e i a /\ (if j_eager j then a = maxr else a = 1))
  /\ (j_eager j = false -> Forall (fun l => (length l <= 1)%nat) (o_logs o))
  /\ nested_all_refused (o_logs o).
Proof. exact lazy_actions. Qed.

(* ---- the context stays usable.  Whatever a job does (succeeds, fails, has refused nested operations),
   it leaves the lock released ... *)
Theorem C04_lock_released : forall mode maxr j, snd (run_job mode maxr false j) = false.
Proof. exact lock_released. Qed.

(* ... so every job of a sequence behaves as on a fresh context ... *)
Theorem C04_lock_released_any : forall mode maxr j, snd (run_any mode maxr false j) = false.
Proof. exact any_lock_released. Qed.

(* (run_any = run_job for the actions that evaluate whole partitions, the lazy take/first/isEmpty otherwise) *)
Theorem C04_usable_after : forall mode maxr js,
  run_jobs mode maxr false js = (map (fun j => fst (run_any mode maxr false j)) js, false).
Proof. exact usable_after. Qed.

Theorem C04_usable_after_history : forall mode maxr history j d,
  nth (length history) (fst (run_jobs mode maxr false (history ++ [j]))) d = fst (run_any mode maxr false j).
Proof. exact usable_after_history. Qed.

(* ... and a follow-up job whose partitions all succeed within the budget returns the correct result *)
Theorem C04_followup_correct : forall mode maxr history j, 1 <= maxr ->
  is_lazy (j_action j) = false -> all_ok maxr (j_parts j) = true ->
  o_res (nth (length history) (fst (run_jobs mode maxr false (history ++ [j]))) (mkOut JFuel [])) = JOk (plain_result j).
Proof. exact followup_correct. Qed.

(* ---- the property in one statement: for every sequence of jobs on an idle context, every job that
   evaluates whole partitions satisfies [job_spec] (result / error / logs / nested refusals), whatever
   happened in the jobs before it, and the context ends idle *)
Theorem C04_sequence : forall mode maxr js, 1 <= maxr ->
  let outs := fst (run_jobs mode maxr false js) in
  length outs = length js /\ snd (run_jobs mode maxr false js) = false /\
  forall k j, nth_error js k = Some j -> is_lazy (j_action j) = false ->
    exists o, nth_error outs k = Some o /\ job_spec mode maxr j o.
Proof. exact sequence_spec. Qed.

(* ---- non-vacuity / sanity *)
Definition ex_fail (e p : Z) : option fault := Some (mkFault e p).
Definition ex_part1 := mkPart [1; 2; 3] [ex_fail 0 1; ex_fail 2 0] [].                 (* fails twice, then succeeds *)
Definition ex_part2 := mkPart [4; 5] [ex_fail 1 2; ex_fail 1 2; ex_fail 2 1; None] []. (* fails three times *)
Definition ex_part3 := mkPart [6] [] [mkNop NAction true; mkNop NCreate false].        (* nested: caught, then escaping *)
Definition ex_job (ps : list part) := mkJob 0 false 1 2 ps.

Example ex_success :   (* max_retries 3: third attempt succeeds; collect of ((x+1)*2) *)
  run_job 0 3 false (ex_job [ex_part1]) =
    (mkOut (JOk (vints [4; 6; 8]))
           [[mkRec 1 [] [2] (Some 0); mkRec 2 [] [] (Some 2); mkRec 3 [] [2; 3; 4] None]], false)
  /\ all_ok 3 [ex_part1] = true /\ all_ok 2 [ex_part1] = false.
Proof. vm_compute. repeat split. Qed.

Example ex_exhausted :   (* local: partition 1 gives up after 3 attempts, partition 2 is never started *)
  o_res (fst (run_job 0 3 false (ex_job [ex_part1; ex_part2; ex_part1]))) = JErr 2 1 3
  /\ map (@length arec) (o_logs (fst (run_job 0 3 false (ex_job [ex_part1; ex_part2; ex_part1])))) = [3; 3; 0]%nat
  /\ map (@length arec) (o_logs (fst (run_job 1 3 false (ex_job [ex_part1; ex_part2; ex_part1])))) = [3; 3; 3]%nat
  /\ exhausts 3 ex_part2 = true /\ exhausts 4 ex_part2 = false.
Proof. vm_compute. repeat split. Qed.

Example ex_nested :
  run_job 0 2 false (ex_job [ex_part3]) =
    (mkOut (JErr E_LOCKED 0 2) [[mkRec 1 [0; 0] [] (Some 3); mkRec 2 [0; 0] [] (Some 3)]], false)
  /\ uncaught (p_nest ex_part3) = true.
Proof. vm_compute. split; reflexivity. Qed.

Example ex_sequence :   (* a failing job, then a job with a recoverable fault, on the same context *)
  map o_res (fst (run_jobs 0 2 false [ex_job [ex_part2]; ex_job [ex_part3]; mkJob 2 true 0 0 [mkPart [1; 2] [ex_fail 0 0] []]]))
  = [JErr 1 0 2; JErr E_LOCKED 0 2; JOk (VInt 3)].
Proof. vm_compute. reflexivity. Qed.

Example ex_lazy :   (* take(2): the generator of partition 0 fails after its first element; no retry.  take(1) is served
                       before the failure.  An eager task function is retried and take(2) succeeds. *)
  o_res (fst (run_any 0 3 false (mkJob 11 false 0 0 [ex_part1; ex_part2]))) = JErr 0 0 1
  /\ o_res (fst (run_any 0 3 false (mkJob 10 false 0 0 [ex_part1; ex_part2]))) = JOk (vints [1])
  /\ o_res (fst (run_any 0 3 false (mkJob 11 true 0 0 [ex_part1; ex_part2]))) = JOk (vints [1; 2])
  /\ lazy_plain_result (mkJob 11 false 0 0 [ex_part1; ex_part2]) = JOk (vints [1; 2]).
Proof. vm_compute. repeat split. Qed.
