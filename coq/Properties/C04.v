(* C04 -- Failed tasks are retried, errors surface, and the context stays usable.
   Only statements, each closed by [exact] of a lemma from PV.Proofs.Retry.

   Vocabulary (PV.Model.Retry):
     held                   the lock flag the tasks of a job see ([held_of action]; true for every job-triggering
                            method, theorem C04_held_always)
     att_exc held ns pl i   exception class with which attempt i+1 of a task ends (None = the attempt succeeds);
                            ns = the operations the task performs on its own context, pl = the fault plan
     rec_of held ns xs pl i the attempt-log entry of attempt i+1 on input xs;  task_log .. n = entries 1..n
     cached j p             what a persisted dataset above the injected stage holds for partition p
     exhausts held maxr j p the first maxr attempts of partition p all fail (never for a cached partition)
     all_ok held maxr j ps  no partition of ps exhausts
     cache_sound j          every cache entry is the fault-free output of the injected stage
     run_task / run_job / run_lazy_job / run_jobs     _run_task, one whole-partition job (datasets + action), one
                            lazy job (take/first/isEmpty), a sequence of job requests (fresh or on the dataset
                            object of the previous job)
   The statements hold for every max_retries >= 1 (the property asks for 1..4), every fault plan, every lineage
   of ops (persist included), every number of partitions, both executors (mode 0 local, otherwise pooled) and
   every job history. *)
From Coq Require Import String ZArith List Bool.
Require Import PV.Base.Val PV.Gen.Retry PV.Model.Retry PV.Proofs.Retry.
Import ListNotations.
Open Scope Z_scope.

(* ---- the regenerated kernels mean what the model assumes *)
Theorem C04_kernel_retry_stop : forall a m, 0 < a <= m -> retry_stop a m = (a =? m).
Proof. exact retry_stop_spec. Qed.
Theorem C04_kernel_attempt_next : forall a, attempt_next a = a + 1.
Proof. exact attempt_next_spec. Qed.
Theorem C04_kernel_lock_tests : forall b, job_refused b = b /\ rdd_init_refused b = b.
Proof. exact lock_tests_spec. Qed.
Theorem C04_kernel_lock_protocol : lock_on_entry = true /\ lock_after_ok = false /\ lock_after_error = false.
Proof. exact lock_protocol_spec. Qed.
Theorem C04_kernel_held : forall a, held_of a = negb ((act_class a =? 1) && tli_deferred).
Proof. exact held_of_spec. Qed.

(* ---- retry: first success at attempt k+1 <= max_retries: the task returns the fault-free output of the
   partition, after exactly k+1 attempts (the log is the entries of attempts 1..k+1) *)
Theorem C04_retry_success : forall maxr fuel held ns xs pl k,
  Z.of_nat k < maxr -> (k < fuel)%nat ->
  (forall i, (i < k)%nat -> att_exc held ns pl i <> None) -> att_exc held ns pl k = None ->
  run_task fuel maxr held ns xs pl 0 = (TOk xs, task_log held ns xs pl (S k), held).
Proof. exact retry_success. Qed.

(* all of the first max_retries attempts fail: the task's own exception (the one of attempt number
   max_retries) after exactly max_retries attempts *)
Theorem C04_retry_exhausted : forall maxr fuel held ns xs pl e,
  1 <= maxr -> (Z.to_nat maxr <= fuel)%nat ->
  (forall i, (i < Z.to_nat maxr)%nat -> att_exc held ns pl i <> None) ->
  att_exc held ns pl (Z.to_nat maxr - 1) = Some e ->
  run_task fuel maxr held ns xs pl 0 = (TErr e maxr, task_log held ns xs pl (Z.to_nat maxr), held).
Proof. exact retry_exhausted. Qed.

(* every attempt is computed from scratch: it is numbered i+1, it pulls a prefix of the partition starting
   at the first element whatever the earlier attempts did, a successful attempt sees the whole partition,
   and while the lock is held every operation it tries on its own context is refused *)
Theorem C04_attempt_from_scratch : forall held ns xs pl i,
  a_no (rec_of held ns xs pl i) = Z.of_nat i + 1 /\
  a_out (rec_of held ns xs pl i) = att_exc held ns pl i /\
  (exists n, a_seen (rec_of held ns xs pl i) = firstn n xs) /\
  (att_exc held ns pl i = None -> a_seen (rec_of held ns xs pl i) = xs) /\
  a_nest (rec_of held ns xs pl i) = nest_outcomes held ns /\ Forall (fun o => o = 0) (nest_outcomes true ns).
Proof. exact attempt_from_scratch. Qed.

(* whatever the fuel and the budget: a task that returns hands on exactly its fault-free input, every
   successful attempt in its log saw the whole partition, and the lock flag is what it was *)
Theorem C04_task_never_truncates : forall fuel maxr held ns xs pl a0 t log lk,
  run_task fuel maxr held ns xs pl a0 = (t, log, lk) ->
  lk = held /\ (forall ys, t = TOk ys -> ys = xs) /\
  (forall r, In r log -> a_out r = None -> a_seen r = xs) /\
  (forall r, In r log -> a_nest r = nest_outcomes held ns).
Proof. exact run_task_general. Qed.

(* ---- jobs (every job-triggering method that evaluates whole partitions).  The method returns a value iff
   every partition has a success within the budget, and the value is then exactly the fault-free result
   (plain evaluation of the lineage on the partition data) -- persisted datasets included *)
Theorem C04_job_result : forall mode maxr j, 1 <= maxr -> cache_sound j ->
  ((exists v, o_res (fst (run_job mode maxr false j)) = JOk v) <-> all_ok (held_of (j_action j)) maxr j (j_parts j) = true)
  /\ (forall v, o_res (fst (run_job mode maxr false j)) = JOk v -> v = plain_result j).
Proof. exact job_result_iff. Qed.

Theorem C04_job_ok : forall mode maxr j, 1 <= maxr -> cache_sound j ->
  all_ok (held_of (j_action j)) maxr j (j_parts j) = true ->
  exists logs, run_job mode maxr false j = (mkOut (JOk (plain_result j)) logs, false)
               /\ Forall2 (task_log_ok (held_of (j_action j)) maxr j) (j_parts j) logs.
Proof. exact job_ok. Qed.

(* otherwise the caller receives the exception of the first exhausting partition (partition order), raised
   by its attempt number max_retries; locally the later partitions are never started *)
Theorem C04_job_error : forall mode maxr j pre p post e, 1 <= maxr ->
  j_parts j = pre ++ p :: post -> all_ok (held_of (j_action j)) maxr j pre = true ->
  exhausts (held_of (j_action j)) maxr j p = true ->
  att_exc (held_of (j_action j)) (p_nest p) (p_plan p) (Z.to_nat maxr - 1) = Some e ->
  exists logs, run_job mode maxr false j = (mkOut (JErr e (Z.of_nat (length pre)) maxr) logs, false)
               /\ logs_ok mode (held_of (j_action j)) maxr j pre p post logs.
Proof. exact job_err. Qed.

Theorem C04_job_total : forall mode maxr j, 1 <= maxr -> cache_sound j ->
  o_res (fst (run_job mode maxr false j)) = JOk (plain_result j)
  \/ exists e i, o_res (fst (run_job mode maxr false j)) = JErr e i maxr.
Proof. exact job_total. Qed.

(* ---- persisted datasets: whatever a job does, what it leaves in the cache is fault-free output (a failed
   attempt leaves nothing behind), so later jobs on the same dataset object start from sound entries *)
Theorem C04_cache_stays_sound : forall mode maxr j, cache_sound j ->
  cache_sound (after_job j (fst (run_any mode maxr false j))).
Proof. exact after_job_sound. Qed.

(* ---- nested use of the context.  Every dataset creation / action attempted by any task of any job started
   by any job-triggering method is refused: the tasks always run while runJob holds the lock (invariant: the
   flag stays set from the acquire to the finally; toLocalIterator evaluates its partitions inside runJob --
   [tli_deferred] is regenerated from its source and is false since /repo e07529e) *)
Theorem C04_held_always : forall a, held_of a = true.
Proof. exact held_of_true. Qed.

Theorem C04_nested_refused : forall mode maxr j,
  nested_all_refused (o_logs (fst (run_job mode maxr false j))).
Proof. exact nested_refused_full. Qed.

(* a refusal that the task lets escape is a task failure like any other: ContextIsLockedException reaches
   the caller after max_retries attempts *)
Theorem C04_nested_uncaught_surfaces : forall mode maxr j pre p post, 1 <= maxr ->
  j_parts j = pre ++ p :: post -> all_ok true maxr j pre = true -> cached j p = None -> uncaught (p_nest p) = true ->
  exists logs, run_job mode maxr false j = (mkOut (JErr E_LOCKED (Z.of_nat (length pre)) maxr) logs, false).
Proof. exact nested_uncaught_surfaces_full. Qed.

(* a job started while another one holds the lock is refused, starts no task and leaves the lock alone *)
Theorem C04_refused_while_locked : forall mode maxr j,
  run_any mode maxr true j = (mkOut JRefused (no_logs (j_parts j)), true).
Proof. exact any_refused_while_locked. Qed.

(* ---- the lazily evaluated take / first / isEmpty (the property's parenthesis).  They return what they
   return on the fault-free element stream, or an error reaches the caller; a generator task function that
   nothing above it materialises is never retried (the error is the one of a first attempt and no partition is
   attempted twice), otherwise the ordinary retry applies; nested operations are refused here too *)
Theorem C04_lazy_actions : forall maxr j, 1 <= maxr -> cache_sound j ->
  let o := fst (run_lazy_job maxr false j) in
  (o_res o = lazy_plain_result j
   \/ exists e i a, o_res o = JErr e i a /\ (if lazy_eager j then a = maxr else a = 1))
  /\ (lazy_eager j = false -> Forall (fun l => (length l <= 1)%nat) (o_logs o))
  /\ nested_all_refused (o_logs o).
Proof. exact lazy_actions. Qed.

(* ---- the context stays usable.  Whatever a job does (succeeds, fails, has refused nested operations),
   it leaves the lock released ... *)
Theorem C04_lock_released : forall mode maxr j, snd (run_any mode maxr false j) = false.
Proof. exact any_lock_released. Qed.

(* ... so in every sequence of job requests on an idle context (fresh datasets or the dataset object of the
   previous job) every job runs as on an idle context, on sound cache entries, and the context ends idle ... *)
Theorem C04_usable_after : forall mode maxr rqs prev idx, Forall fresh_ok rqs -> prev_sound prev ->
  snd (run_jobs mode maxr false prev idx rqs) = false /\
  Forall (triple_ok mode maxr) (fst (run_jobs mode maxr false prev idx rqs)).
Proof. exact sequence_idle. Qed.

(* ... every whole-partition job of the sequence satisfies the property clause by clause ([job_spec]: result /
   error + logs / nested refusals when the lock is held) ... *)
Theorem C04_sequence : forall mode maxr rqs, 1 <= maxr -> Forall fresh_ok rqs ->
  snd (run_jobs mode maxr false None 0 rqs) = false /\
  Forall (fun '(_, j, o) => is_lazy (j_action j) = false -> job_spec mode maxr j o)
         (fst (run_jobs mode maxr false None 0 rqs)).
Proof. exact sequence_spec. Qed.

(* ... and a fresh follow-up job whose partitions all succeed within the budget returns the correct result *)
Theorem C04_followup_correct : forall mode maxr history j, 1 <= maxr -> Forall fresh_ok history -> fresh_ok (mkReq j false) ->
  is_lazy (j_action j) = false -> all_ok (held_of (j_action j)) maxr j (j_parts j) = true ->
  exists origin j' o, last (fst (run_jobs mode maxr false None 0 (history ++ [mkReq j false]))) (0, j, mkOut JFuel []) = (origin, j', o)
                      /\ j' = j /\ o_res o = JOk (plain_result j).
Proof. exact followup_correct. Qed.

(* ---- non-vacuity / sanity *)
Definition ex_fail (e p : Z) : option fault := Some (mkFault e p).
Definition ex_p (d : list Z) (pl : plan) (ns : list nop) := mkPart d pl ns None 0.
Definition ex_part1 := ex_p [1; 2; 3] [ex_fail 0 1; ex_fail 2 0] [].                 (* fails twice, then succeeds *)
Definition ex_part2 := ex_p [4; 5] [ex_fail 1 2; ex_fail 1 2; ex_fail 2 1; None] []. (* fails three times *)
Definition ex_part3 := ex_p [6] [] [mkNop NAction true; mkNop NCreate false].        (* nested: caught, then escaping *)
Definition ex_job (ps : list part) := mkJob 0 false [1] [2] ps.

Example ex_success :   (* max_retries 3: third attempt succeeds; collect of ((x+1)*2) *)
  run_job 0 3 false (ex_job [ex_part1]) =
    (mkOut (JOk (vints [4; 6; 8]))
           [[mkRec 1 [] [2] (Some 0); mkRec 2 [] [] (Some 2); mkRec 3 [] [2; 3; 4] None]], false)
  /\ all_ok true 3 (ex_job []) [ex_part1] = true /\ all_ok true 2 (ex_job []) [ex_part1] = false.
Proof. vm_compute. repeat split. Qed.

Example ex_exhausted :   (* local: partition 1 gives up after 3 attempts, partition 2 is never started *)
  o_res (fst (run_job 0 3 false (ex_job [ex_part1; ex_part2; ex_part1]))) = JErr 2 1 3
  /\ map (@length arec) (o_logs (fst (run_job 0 3 false (ex_job [ex_part1; ex_part2; ex_part1])))) = [3; 3; 0]%nat
  /\ map (@length arec) (o_logs (fst (run_job 1 3 false (ex_job [ex_part1; ex_part2; ex_part1])))) = [3; 3; 3]%nat
  /\ exhausts true 3 (ex_job []) ex_part2 = true /\ exhausts true 4 (ex_job []) ex_part2 = false.
Proof. vm_compute. repeat split. Qed.

Example ex_nested :
  run_job 0 2 false (ex_job [ex_part3]) =
    (mkOut (JErr E_LOCKED 0 2) [[mkRec 1 [0; 0] [] (Some 3); mkRec 2 [0; 0] [] (Some 3)]], false)
  /\ uncaught (p_nest ex_part3) = true /\ held_of 0 = true.
Proof. vm_compute. repeat split. Qed.

Example ex_nested_tolocaliterator :   (* toLocalIterator (action 39): the same task is refused in the same way *)
  run_job 0 2 false (mkJob 39 false [] [] [ex_part3]) =
    (mkOut (JErr E_LOCKED 0 2) [[mkRec 1 [0; 0] [] (Some 3); mkRec 2 [0; 0] [] (Some 3)]], false) /\ held_of 39 = true.
Proof. vm_compute. split; reflexivity. Qed.

Example ex_persist_reuse :
  (* cache() above the injected stage, fault mid-partition, retry; then sum of x*2 on the same dataset object:
     nothing is recomputed (no log entries), the result is that of the full partitions *)
  map (fun '(_, _, o) => (o_res o, map (@length arec) (o_logs o)))
      (fst (run_jobs 0 3 false None 0
              [mkReq (mkJob 0 false [] [9] [ex_p [0; 1; 2; 3] [] []; ex_p [4; 5; 6; 7] [ex_fail 0 1] []]) false;
               mkReq (mkJob 2 false [] [2] []) true]))
  = [(JOk (vints [0; 1; 2; 3; 4; 5; 6; 7]), [1; 2]%nat); (JOk (VInt 56), [0; 0]%nat)].
Proof. vm_compute. reflexivity. Qed.

Example ex_lazy :   (* take(2): the generator of partition 0 fails after its first element; no retry.  take(1) is served
                       before the failure.  An eager task function is retried and take(2) succeeds. *)
  o_res (fst (run_any 0 3 false (mkJob 11 false [] [] [ex_part1; ex_part2]))) = JErr 0 0 1
  /\ o_res (fst (run_any 0 3 false (mkJob 10 false [] [] [ex_part1; ex_part2]))) = JOk (vints [1])
  /\ o_res (fst (run_any 0 3 false (mkJob 11 true [] [] [ex_part1; ex_part2]))) = JOk (vints [1; 2])
  /\ lazy_plain_result (mkJob 11 false [] [] [ex_part1; ex_part2]) = JOk (vints [1; 2]).
Proof. vm_compute. repeat split. Qed.
