(* C06 -- Transformations are lazy and actions evaluate each element exactly once.
   Only statements, each closed by [exact] of a lemma from PV.Proofs.Lazy.

   Vocabulary (PV.Model.Lazy): an event (s, p, j, v) is "the user function of stage s was called on the value v, which
   is element number j of the input of that stage in partition p" (stage 0 = reading the source, stages 1..k the
   pipeline, k+1 / k+2 the functions handed to the action).  [job_log a stages parts] is the sequence of calls the
   single-pass action a makes, [take_log n stages parts] the calls of take(n); first() and isEmpty() are take(1).
   [sem_pipe stages xs] is the plain-list meaning of the pipeline on one partition.  Stages range over ALL
   functions Z -> Z, Z -> bool, Z -> list Z ..., partitionings over all lists of lists. *)
From Coq Require Import ZArith List Bool Permutation.
Require Import PV.Model.Lazy PV.Proofs.Lazy.
Import ListNotations.
Open Scope Z_scope.

(* -- clause 1: defining never invokes a user function ------------------------------------------------------------ *)
(* Defining any sequence of transformations (element-wise, sampling, persistence, mapPartitions) leaves the log of
   user-function calls empty (it is observed after every single definition: all observations are 0) and yields
   exactly that lineage; hence a program "define, then one query" logs 0 calls before the query.  (True by construction of the evaluator; the content is that the implementation agrees: the
   harness measures the log after the definitions on every generated case.) *)
Theorem define_silent : forall stages, define_all stages = (stages, [], repeat 0%nat (S (length stages))).
Proof. exact define_all_silent. Qed.
Theorem program_defines_silently : forall stages q parts,
  run_program stages q parts = (repeat 0%nat (S (length stages)), run_query q stages parts).
Proof. exact program_spec. Qed.

(* -- clause 2: single-pass actions ------------------------------------------------------------------------------- *)
(* For every single-pass action, pipeline and partitioning the log is a rearrangement of the expected calls
   -- per partition: one read per source element, the calls [exp_from] of every stage on its plain-list input, the
   calls of the action's function on the pipeline output -- and the expected calls are pairwise distinct. *)
Theorem single_pass_exactly_once : forall a stages parts,
  Permutation (job_log a stages parts) (pipeline_events stages parts ++ action_events a stages parts) /\
  NoDup (pipeline_events stages parts ++ action_events a stages parts).
Proof. exact single_pass_spec. Qed.

(* the same as call counts: every expected call happens exactly once, nothing else happens *)
Theorem single_pass_call_counts : forall a stages parts e,
  (In e (pipeline_events stages parts ++ action_events a stages parts) ->
   count_occ event_eq_dec (job_log a stages parts) e = 1%nat) /\
  (~ In e (pipeline_events stages parts ++ action_events a stages parts) ->
   count_occ event_eq_dec (job_log a stages parts) e = 0%nat).
Proof. exact single_pass_counts. Qed.

(* spelled out for an element-wise stage (map / filter / flatMap / sample = the stages with a [kernel]): the function
   of stage i+1 is called exactly once on each element of the plain-list input of that stage, in each partition ... *)
Theorem elementwise_once_per_element : forall a stages parts i st k pn xs jn v,
  nth_error stages i = Some st -> kernel st = Some k ->
  nth_error parts pn = Some xs -> nth_error (sem_pipe (firstn i stages) xs) jn = Some v ->
  count_occ event_eq_dec (job_log a stages parts) (Z.of_nat i + 1, Z.of_nat pn, Z.of_nat jn, v) = 1%nat.
Proof. exact elementwise_called_once. Qed.
(* ... and on nothing else *)
Theorem elementwise_only_on_elements : forall a stages parts i st k p j v,
  nth_error stages i = Some st -> kernel st = Some k ->
  In (Z.of_nat i + 1, p, j, v) (job_log a stages parts) ->
  exists pn xs jn, p = Z.of_nat pn /\ j = Z.of_nat jn /\ nth_error parts pn = Some xs /\
                   nth_error (sem_pipe (firstn i stages) xs) jn = Some v.
Proof. exact elementwise_called_only_on_elements. Qed.
Theorem source_element_read_once : forall a stages parts pn xs jn v,
  nth_error parts pn = Some xs -> nth_error xs jn = Some v ->
  count_occ event_eq_dec (job_log a stages parts) (0, Z.of_nat pn, Z.of_nat jn, v) = 1%nat.
Proof. exact source_read_once. Qed.
Theorem single_pass_no_call_twice : forall a stages parts, NoDup (job_log a stages parts).
Proof. exact job_log_NoDup. Qed.

(* -- clause 3: take(n), first(), isEmpty() ----------------------------------------------------------------------- *)
Theorem take_returns_prefix : forall n stages parts,
  take_result n stages parts = firstn n (concat (map (sem_pipe stages) parts)).
Proof. exact take_result_spec. Qed.

(* If the first q+1 partitions hold at least n output elements (so the n-th returned element lies in partition <= q),
   every call made by take(n) belongs to a partition <= q: no partition after the one containing the last returned
   element is evaluated.  (When fewer than n elements exist, every partition has to be evaluated to find that out;
   the property is read for the case that the n-th element exists.) *)
Theorem take_frontier : forall n stages parts q e,
  (n <= length (concat (firstn (S q) (map (sem_pipe stages) parts))))%nat ->
  In e (take_log n stages parts) -> 0 <= epart e <= Z.of_nat q.
Proof. exact take_log_frontier. Qed.
Theorem take_zero_no_events : forall stages parts, take_log 0 stages parts = [].
Proof. exact take_zero_silent. Qed.

(* take(n) performs a prefix of the calls collect() performs, in the same order: it never does anything a full pass
   would not do, and it stops early *)
Theorem take_prefix_of_collect : forall n stages parts,
  exists rest, job_log ACollect stages parts = take_log n stages parts ++ rest.
Proof. exact take_log_prefix. Qed.

(* Laziness at the granularity of single calls.  [global_trace] is everything a full pass does, in order (task
   creation of partition 0, its generator chain, task creation of partition 1, ...), calls [Ev] and yields [Out]
   interleaved.  take(n) executes a prefix [pre] of it and then either nothing is left (fewer than n elements exist:
   everything had to be evaluated) or n elements were returned and the last thing that happened is the yield of the
   n-th one -- not a single further call, in this or in any later partition. *)
Theorem take_stops_at_nth_element : forall n stages parts,
  exists pre post, global_trace stages parts = pre ++ post /\
    take_log n stages parts = events pre /\ take_result n stages parts = outs pre /\
    (post = [] \/ (length (take_result n stages parts) = n /\ (n = 0%nat \/ exists pre' a, pre = pre' ++ [Out a]))).
Proof. exact take_stops_at_nth. Qed.
Theorem global_trace_is_a_full_pass : forall stages parts,
  events (global_trace stages parts) = job_log ACollect stages parts /\
  outs (global_trace stages parts) = concat (map (sem_pipe stages) parts).
Proof. exact global_trace_full_pass. Qed.

(* no element is evaluated twice by take(n) (an event identifies stage, partition and element) *)
Theorem take_no_dup : forall n stages parts, NoDup (take_log n stages parts).
Proof. exact take_log_NoDup. Qed.
Theorem take_only_on_elements : forall n stages parts i st k p j v,
  nth_error stages i = Some st -> kernel st = Some k ->
  In (Z.of_nat i + 1, p, j, v) (take_log n stages parts) ->
  exists pn xs jn, p = Z.of_nat pn /\ j = Z.of_nat jn /\ nth_error parts pn = Some xs /\
                   nth_error (sem_pipe (firstn i stages) xs) jn = Some v.
Proof. exact take_elementwise_only_on_elements. Qed.

(* first() and isEmpty() evaluate exactly what take(1) evaluates, so the three theorems above cover them *)
Theorem first_is_take_one : forall stages parts, fst (run_query QFirst stages parts) = take_log 1 stages parts.
Proof. exact query_log_first. Qed.
Theorem isEmpty_is_take_one : forall stages parts, fst (run_query QIsEmpty stages parts) = take_log 1 stages parts.
Proof. exact query_log_isEmpty'. Qed.

(* -- histories: several actions on ONE dataset object ----------------------------------------------------------- *)
(* A dataset keeps no state between actions unless it is persisted (the model of a history is [map] of the model of one
   query -- [run_history]); so in any sequence of queries on an uncached lineage, each single-pass action again calls
   every user function exactly once per element, whatever ran before it (the same action, another member of the
   stats family, a take ...), and each take(n) evaluates exactly what it evaluates on a fresh dataset.  The content
   is on the correspondence side: the harness runs such sequences on one RDD object and compares every per-action log. *)
Theorem history_each_action_exactly_once : forall stages qs parts i a,
  uncached stages = true -> nth_error qs i = Some (QAction a) ->
  exists l r, nth_error (run_history stages qs parts) i = Some (l, r) /\
    Permutation l (pipeline_events stages parts ++ action_events a stages parts) /\
    NoDup (pipeline_events stages parts ++ action_events a stages parts).
Proof. exact history_action_exactly_once. Qed.
Theorem history_take_as_on_fresh_dataset : forall stages qs parts i n,
  uncached stages = true -> nth_error qs i = Some (QTake n) ->
  exists r, nth_error (run_history stages qs parts) i = Some (take_log n stages parts, r).
Proof. exact history_take_same. Qed.

(* -- non-vacuity / sanity ------------------------------------------------------------------------------------------ *)
(* doctest of RDD.cache(): parallelize([1,2,3,4], 2).map(_map).cache(); first() runs _map on the first partition only *)
Example cache_doctest :
  let stages := [SMap (fun e => e * e); SPersist] in
  let parts := parallelize [1; 2; 3; 4] 2 in
  filter (fun e => estage e =? 1) (fst (run_query QFirst stages parts)) = [(1, 0, 0, 1); (1, 0, 1, 2)] /\
  snd (run_query QFirst stages parts) = RInt 1 /\
  length (filter (fun e => estage e =? 1) (job_log ACollect stages parts)) = 4%nat.
Proof. vm_compute. repeat split. Qed.

(* doctest of take(): parallelize([4,7,2], 3).take(2) computes the first two partitions only; the frontier theorem's
   hypothesis holds with q = 1 *)
Example take_doctest :
  let parts := parallelize [4; 7; 2] 3 in
  take_log 2 [] parts = [(0, 0, 0, 4); (0, 1, 0, 7)] /\ take_result 2 [] parts = [4; 7] /\
  (2 <= length (concat (firstn 2 (map (sem_pipe []) parts))))%nat.
Proof. vm_compute. repeat split; auto. Qed.

(* a filter makes take look further, and stop in the middle of a partition *)
Example take_filter :
  let stages := [SFilter (fun x => x mod 2 =? 0)] in
  let parts := [[1; 3]; [5; 6; 7; 8]; [10]] in
  take_log 1 stages parts =
    [(0, 0, 0, 1); (1, 0, 0, 1); (0, 0, 1, 3); (1, 0, 1, 3); (0, 1, 0, 5); (1, 1, 0, 5); (0, 1, 1, 6); (1, 1, 1, 6)].
Proof. vm_compute. reflexivity. Qed.

(* the element-wise hypotheses are satisfiable: stage 2 of map;filter on [[1;2];[3]] sees 2,3 / 4 *)
Example elementwise_instance :
  let stages := [SMap (fun x => x + 1); SFilter (fun x => x >? 2)] in
  nth_error stages 1 = Some (SFilter (fun x => x >? 2)) /\
  nth_error (sem_pipe (firstn 1 stages) [1; 2]) 1 = Some 3 /\
  count_occ event_eq_dec (job_log AForeach stages [[1; 2]; [3]]) (2, 0, 1, 3) = 1%nat /\
  action_events AForeach stages [[1; 2]; [3]] = [(3, 0, 0, 3); (3, 1, 0, 4)].
Proof. vm_compute. repeat split. Qed.

(* a history: stats twice and a collect after a take on the same uncached dataset log the same calls each time *)
Example history_instance :
  let stages := [SMap (fun x => x + 1)] in
  uncached stages = true /\
  map fst (run_history stages [QAction AStats; QAction AStats] [[1]; [2]]) =
    [[(0, 0, 0, 1); (1, 0, 0, 1); (0, 1, 0, 2); (1, 1, 0, 2)]; [(0, 0, 0, 1); (1, 0, 0, 1); (0, 1, 0, 2); (1, 1, 0, 2)]] /\
  map fst (run_history stages [QTake 1; QAction ACollect] [[1]; [2]]) =
    [[(0, 0, 0, 1); (1, 0, 0, 1)]; [(0, 0, 0, 1); (1, 0, 0, 1); (0, 1, 0, 2); (1, 1, 0, 2)]].
Proof. vm_compute. repeat split. Qed.

(* a stage that drops everything does not stop the stages above it from being evaluated *)
Example dropper_instance :
  job_log ACollect [SMap (fun x => x + 1); SSample (fun _ => 0)] [[5]; [6]] =
    [(0, 0, 0, 5); (1, 0, 0, 5); (2, 0, 0, 6); (0, 1, 0, 6); (1, 1, 0, 6); (2, 1, 0, 7)].
Proof. vm_compute. reflexivity. Qed.
