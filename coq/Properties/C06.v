(* C06 -- Transformations are lazy and actions evaluate each element exactly once.
   Only statements, each closed by [exact] of a lemma from PV.Proofs.Lazy. *)
From Coq Require Import ZArith List Bool Permutation.
Require Import PV.Model.Lazy PV.Proofs.Lazy.
Import ListNotations.
Open Scope Z_scope.

(* Defining any sequence of transformations (element-wise, sampling, persistence, mapPartitions) leaves the log of
   user-function calls empty and yields exactly that lineage.  (True by construction of the evaluator; the content
   is that the implementation agrees: the harness measures the log after the definitions on every case.) *)
Theorem define_silent : forall stages, define_all stages = (stages, []).
Proof. exact define_all_silent. Qed.
