(* C07 -- Partition layout contracts of parallelize, coalesce, repartition, partitionBy,
   mapPartitionsWithIndex and zipWithUniqueId, and seed independence of the default partitioner.
   Only statements, each closed by [exact] of a lemma from PV.Proofs.Layout.  The statements are
   about PV.Model.Layout, whose arithmetic is the regenerated source text (PV.Gen.Parallelize,
   PV.Gen.Layout): par_take, par_single, coalesce_plan, unique_id, partition_index, rdd_hash_mask,
   strhash_*, tuplehash_*.

   Notation: an RDD is the list of its (Partition.index, contents);  glom r = contents,
   local_iter r = toLocalIterator() = concat (glom r),  indices r = the indices handed to tasks,
   slice xs a b = xs[a:b],  slice_start len n i = floor(i*len/n). *)
From Coq Require Import String.
From Coq Require Import ZArith NArith List Bool PrimFloat Permutation.
Require Import PV.Base.Val PV.Base.PyArith PV.Gen.Parallelize PV.Gen.Layout PV.Model.Layout PV.Proofs.Layout.
Import ListNotations.
Open Scope Z_scope.

(* ---- parallelize(xs, n), n > 1: exactly n slices; slice i is xs[floor(i*len/n) : floor((i+1)*len/n)]
   (contiguous, in input order); together they are xs; every size is floor(len/n) or floor(len/n)+1.
   Modelling assumption (not a hypothesis of the theorem, which is about exact integer arithmetic):
   Python's int(i*len/n) equals floor division while i*len < 2^53, see PV.Base.PyArith. *)
Theorem parallelize_layout : forall (xs : list val) (n : Z), 1 < n ->
  let len := Z.of_nat (length xs) in
  let r := parallelize xs (Some n) in
  num_partitions r = n /\
  (forall i, 0 <= i < n ->
     nth_error r (Z.to_nat i) = Some (i, slice xs (slice_start len n i) (slice_start len n (i + 1)))) /\
  local_iter r = xs /\
  (forall i p, In (i, p) r -> Z.of_nat (length p) = len / n \/ Z.of_nat (length p) = len / n + 1).
Proof. exact parallelize_layout_lemma. Qed.

Theorem parallelize_sizes_differ_by_at_most_one : forall (xs : list val) (n : Z), 1 < n ->
  forall i p j q, In (i, p) (parallelize xs (Some n)) -> In (j, q) (parallelize xs (Some n)) ->
  Z.abs (Z.of_nat (length p) - Z.of_nat (length q)) <= 1.
Proof. exact parallelize_sizes_differ. Qed.

(* the boundaries form a monotone chain from 0 to len *)
Theorem slice_boundaries : forall len n, 0 <= len -> 0 < n ->
  slice_start len n 0 = 0 /\ slice_start len n n = len /\
  (forall i j, i <= j -> slice_start len n i <= slice_start len n j) /\
  (forall i, 0 <= i <= n -> 0 <= slice_start len n i <= len).
Proof. exact slice_boundaries_lemma. Qed.

Theorem parallelize_one_slice : forall (xs : list val) n, n <= 1 -> parallelize xs (Some n) = [(0, xs)].
Proof. exact parallelize_single. Qed.

(* ---- coalesce(m), m >= 1, on a dataset with cur >= 1 partitions: the input partitions are cut into
   new = min(m, cur) runs of adjacent partitions (concat groups = input partitions, in order); output
   partition j is the concatenation of run j; the first (cur mod new) runs have floor(cur/new)+1
   members, the others floor(cur/new); the elements and their global order are unchanged. *)
Theorem coalesce_layout : forall (r : rdd) (m : Z), 1 <= m -> r <> [] ->
  let cur := num_partitions r in
  let new := Z.min m cur in
  exists groups : list parts,
    coalesce r m = Ok (mk_rdd (map (@concat val) groups)) /\
    concat groups = glom r /\
    Z.of_nat (length groups) = new /\
    map (fun g => Z.of_nat (length g)) groups
      = repeat (cur / new + 1) (Z.to_nat (cur mod new)) ++ repeat (cur / new) (Z.to_nat (new - cur mod new)) /\
    local_iter (mk_rdd (map (@concat val) groups)) = local_iter r.
Proof. exact coalesce_layout_lemma. Qed.

(* ---- repartition(m) = coalesce(m, shuffle=True), m >= 1: exactly m partitions, global order
   preserved; the layout is that of parallelize over the flattened input. *)
Theorem repartition_layout : forall (r : rdd) (m : Z), 1 <= m ->
  let xs := local_iter r in
  let len := Z.of_nat (length xs) in
  let r' := repartition r m in
  num_partitions r' = m /\
  (forall i, 0 <= i < m ->
     nth_error r' (Z.to_nat i) = Some (i, slice xs (slice_start len m i) (slice_start len m (i + 1)))) /\
  local_iter r' = xs /\
  (forall i p, In (i, p) r' -> Z.of_nat (length p) = len / m \/ Z.of_nat (length p) = len / m + 1).
Proof. exact repartition_layout_lemma. Qed.

(* ---- partitionBy(n, f), n >= 1, every element a pair: n partitions; partition j is exactly the
   sub-list (filter, hence relative order kept) of the flattened input whose keys satisfy
   f(key) mod n = j.  For every partition function f : val -> Z. *)
Theorem partitionBy_layout : forall (f : val -> Z) (r : rdd) (n : Z), 0 < n -> pairs_ok (local_iter r) ->
  exists ps, partitionBy f r n = Ok (mk_rdd ps) /\ Z.of_nat (length ps) = n /\
    forall j, 0 <= j < n -> nth_error ps (Z.to_nat j) = Some (filter (sel f n j) (local_iter r)).
Proof. exact partitionBy_layout_lemma. Qed.

(* every pair is in partition f(key) mod n and in no other: pairs with equal keys are co-located *)
Theorem partitionBy_colocated : forall (f : val -> Z) (r : rdd) (n : Z) ps, 0 < n -> pairs_ok (local_iter r) ->
  partitionBy f r n = Ok (mk_rdd ps) ->
  forall kv k, key_of kv = Ok k ->
    (In kv (local_iter r) <-> exists p, nth_error ps (Z.to_nat (f k mod n)) = Some p /\ In kv p) /\
    (forall j p, nth_error ps j = Some p -> In kv p -> Z.of_nat j = f k mod n).
Proof. exact partitionBy_place_lemma. Qed.

(* no pair is lost or duplicated *)
Theorem partitionBy_permutation : forall (f : val -> Z) (r : rdd) (n : Z) ps, 0 < n -> pairs_ok (local_iter r) ->
  partitionBy f r n = Ok (mk_rdd ps) -> Permutation (concat ps) (local_iter r).
Proof. exact partitionBy_perm_lemma. Qed.

(* ---- the default partitioner portable_hash(k) & 0xffffffff reads nothing that depends on the
   interpreter's hash seed: for keys built from None, bools, ints, floats, strings and nested
   tuples/lists, the result is the same whatever the runtime answers for hash() of other objects
   (the only calls to the runtime's hash() are on ints and floats, whose hash is arithmetic). *)
Theorem portable_hash_seed_independent : forall (h1 h2 : string -> Z) (k : val),
  portableb k = true -> portable_hash h1 k = portable_hash h2 k.
Proof. exact portable_hash_seed_independent_lemma. Qed.

Theorem default_partition_in_range : forall (h : string -> Z) (k : val) (n : Z), 0 < n ->
  0 <= partition_index (rdd_hash h k) n < n.
Proof. exact default_partition_range. Qed.

Theorem hash_mask_range : forall h, 0 <= rdd_hash_mask h < 2 ^ 32.
Proof. exact rdd_hash_mask_range. Qed.

(* ---- indices.  Every dataset produced by a source followed by any sequence of layout operations
   numbers its partitions 0..n-1, and mapPartitionsWithIndex hands exactly those indices to f. *)
Theorem pipeline_indices : forall (s : source) (ops : list op) (r : rdd),
  run_pipeline s ops = Ok r -> indices r = zrange 0 (num_partitions r).
Proof. exact wf_pipeline. Qed.

Theorem mapPartitionsWithIndex_indices : forall (f : Z -> list val -> list val) (r : rdd),
  wf r ->
  indices (map_partitions_with_index f r) = zrange 0 (num_partitions r) /\
  glom (map_partitions_with_index f r) = map (fun ip => f (fst ip) (snd ip)) r /\
  glom (map_partitions_with_index (fun i _ => [VInt i]) r) = map (fun i => [VInt i]) (zrange 0 (num_partitions r)).
Proof. exact mpwi_indices_lemma. Qed.

(* ---- zipWithUniqueId: the k-th element of the partition with index i gets k*n+i; the map
   (k, i) -> k*n+i is injective for 0 <= i < n; hence all ids of a well-indexed dataset differ. *)
Theorem uid_form : forall (r : rdd) j i p k x,
  nth_error r j = Some (i, p) -> nth_error p k = Some x ->
  exists q, nth_error (zip_with_unique_id r) j = Some (i, q) /\
            nth_error q k = Some (VTup [x; VInt (Z.of_nat k * num_partitions r + i)]).
Proof. exact uid_form_lemma. Qed.

Theorem uid_injective : forall n i i' k k',
  0 <= i < n -> 0 <= i' < n -> unique_id k n i = unique_id k' n i' -> k = k' /\ i = i'.
Proof. exact uid_injective_lemma. Qed.

Theorem uid_distinct : forall (r : rdd), wf r -> NoDup (map uid_of (local_iter (zip_with_unique_id r))).
Proof. exact uid_distinct_lemma. Qed.

(* ---- sequences: a partitionBy at the end of ANY pipeline (earlier partitionBy with the same or
   another n / f, key-changing maps, flatMap, keyBy, mapValues, zipWithUniqueId, persist, faults ...)
   lays out the elements the pipeline produced so far by f(key) mod n -- nothing of an earlier
   layout survives. *)
Theorem partitionBy_after_any_pipeline : forall (s : source) (ops : list op) (r : rdd) n (f : val -> Z),
  0 < n -> run_pipeline s ops = Ok r -> pairs_ok (local_iter r) ->
  exists ps, run_pipeline s (ops ++ [OPartitionBy n f]) = Ok (mk_rdd ps) /\
    Z.of_nat (length ps) = n /\
    (forall j, 0 <= j < n -> nth_error ps (Z.to_nat j) = Some (filter (sel f n j) (local_iter r))) /\
    (forall j p kv k, nth_error ps j = Some p -> In kv p -> key_of kv = Ok k -> Z.of_nat j = f k mod n).
Proof. exact partitionBy_after_pipeline_lemma. Qed.

(* ---- transient task faults (context._run_task with max_retries = 3): when every task fails on
   fewer than max_retries attempts, the job yields for every partition what the lineage computes
   from (index, contents) -- the fault-free layout -- and every attempt of the task of partition i
   was handed index i.  With f = zip_uid_part this is zipWithUniqueId, with tag_index it is
   mapPartitionsWithIndex. *)
Theorem retried_job_layout : forall (plans : Z -> list bool) (f : Z -> list val -> list val) (r : rdd),
  transient_plans plans r ->
  run_job plans f r =
    (Ok (glom (map_partitions_with_index f r)),
     flat_map (fun ip => repeat (fst ip) (S (fails_before (plans (fst ip))))) r).
Proof. exact run_job_transient. Qed.

Theorem retried_task_sees_its_index : forall attempts plan f (ip : Z * list val) i,
  In i (snd (run_task attempts plan f ip)) -> i = fst ip.
Proof. exact run_task_indices. Qed.

Theorem retries_exhausted : forall attempts plan f (ip : Z * list val),
  (0 < attempts <= fails_before plan)%nat ->
  run_task attempts plan f ip = (Err "RuntimeError", repeat (fst ip) attempts).
Proof. exact run_task_gives_up. Qed.

Theorem uid_under_retries : forall plans (r : rdd), transient_plans plans r ->
  fst (run_job plans (zip_uid_part (num_partitions r)) r) = Ok (glom (zip_with_unique_id r)).
Proof. exact uid_under_retries_lemma. Qed.

(* ---- a job on a SUBSET or a REORDERING of the partitions (Context.runJob(rdd, func, partitions=sel),
   sel any list of Partition objects of the dataset): every task computes from its partition's OWN
   index, so the results are those of the full job for these partitions, and the stage functions see
   the partitions' own indices in the order of sel.  For zipWithUniqueId: element k of a chosen
   partition with index i gets k*n+i with n the partition count of the whole dataset. *)
Theorem subset_job_layout : forall plans (f : Z -> list val -> list val) (r sel : rdd),
  incl sel r -> transient_plans plans sel ->
  run_job plans f sel =
    (Ok (map (fun ip => f (fst ip) (snd ip)) sel),
     flat_map (fun ip => repeat (fst ip) (S (fails_before (plans (fst ip))))) sel) /\
  (forall ip, In ip sel -> In (fst ip, f (fst ip) (snd ip)) (map_partitions_with_index f r)).
Proof. exact subset_job_lemma. Qed.

Theorem uid_on_partition_subset : forall (r sel : rdd) j i p k x,
  incl sel r -> nth_error sel j = Some (i, p) -> nth_error p k = Some x ->
  exists ps q, fst (run_job (fun _ => []) (zip_uid_part (num_partitions r)) sel) = Ok ps /\
    nth_error ps j = Some q /\
    nth_error q k = Some (VTup [x; VInt (Z.of_nat k * num_partitions r + i)]).
Proof. exact uid_subset_lemma. Qed.

(* ---- zipWithIndex: one partition; element k of the flattened input is paired with k *)
Theorem zipWithIndex_form : forall (r : rdd),
  num_partitions (zip_with_index r) = 1 /\
  length (local_iter (zip_with_index r)) = length (local_iter r) /\
  forall k x, nth_error (local_iter r) k = Some x ->
              nth_error (local_iter (zip_with_index r)) k = Some (VTup [x; VInt (Z.of_nat k)]).
Proof. exact zip_with_index_lemma. Qed.

(* ---- error branches of the model (targets <= 0, zero partitions, elements that are not pairs) *)
Theorem coalesce_zero : forall (r : rdd) m, Z.min m (num_partitions r) = 0 -> coalesce r m = Err "ZeroDivisionError".
Proof. exact coalesce_zero_lemma. Qed.
Theorem coalesce_negative : forall (r : rdd) m, m < 0 -> r <> [] -> coalesce r m = Err "IndexError".
Proof. exact coalesce_negative_lemma. Qed.
Theorem partitionBy_empty : forall f (r : rdd) n, local_iter r = [] ->
  partitionBy f r n = Ok (mk_rdd (repeat [] (Z.to_nat n))).
Proof. exact partitionBy_empty_lemma. Qed.
Theorem partitionBy_zero : forall f (r : rdd) kv kvs k,
  local_iter r = kv :: kvs -> key_of kv = Ok k -> partitionBy f r 0 = Err "ZeroDivisionError".
Proof. exact partitionBy_zero_lemma. Qed.
Theorem partitionBy_negative : forall f (r : rdd) n kv kvs k, n < 0 ->
  local_iter r = kv :: kvs -> key_of kv = Ok k -> partitionBy f r n = Err "IndexError".
Proof. exact partitionBy_negative_lemma. Qed.
Theorem partitionBy_not_a_pair : forall f (r : rdd) n kv kvs e,
  local_iter r = kv :: kvs -> key_of kv = Err e -> partitionBy f r n = Err e.
Proof. exact partitionBy_not_a_pair_lemma. Qed.

(* ---- the range(N) shortcuts used by the correspondence run are the list model *)
Theorem range_probe_correct : forall N n i, 1 < n -> 0 <= N -> 0 <= i < n ->
  nth_error (parallelize (map VInt (zrange 0 N)) (Some n)) (Z.to_nat i)
  = Some (i, map VInt (zrange (fst (range_probe N n i)) (fst (range_probe N n i) + snd (range_probe N n i)))).
Proof. exact range_probe_correct_lemma. Qed.

Theorem range_slices_correct : forall N n, 1 < n -> 0 <= N ->
  range_slices 0 N n (zrange 0 n) = map (range_probe N n) (zrange 0 n).
Proof. exact range_slices_correct_lemma. Qed.

(* ---- non-vacuity / sanity on the doctest inputs of the Python methods *)
Definition ints (l : list Z) : list val := map VInt l.

Example parallelize_doctest :
  glom (parallelize (ints [1;2;3;4;5;6;7;8]) (Some 5)) = map ints [[1]; [2;3]; [4]; [5;6]; [7;8]].
Proof. vm_compute. reflexivity. Qed.

Example coalesce_doctest :
  let r := parallelize (ints [1;2;3;4;5;6;7;8]) (Some 5) in
  (match coalesce r 4 with Ok r4 => glom r4 | Err _ => [] end) = map ints [[1;2;3]; [4]; [5;6]; [7;8]] /\
  (match coalesce r 3 with Ok r3 => glom r3 | Err _ => [] end) = map ints [[1;2;3]; [4;5;6]; [7;8]] /\
  coalesce r 0 = Err "ZeroDivisionError" /\ coalesce r (-1) = Err "IndexError".
Proof. vm_compute. repeat split. Qed.

Example repartition_doctest :
  num_partitions (repartition (parallelize (ints [1;2;3]) (Some 2)) 4) = 4 /\
  num_partitions (repartition (parallelize (ints [1;2;3]) (Some 2)) 1) = 1.
Proof. vm_compute. split; reflexivity. Qed.

Example partitionBy_doctest :
  let kv := map (fun z => VTup [VInt z; VInt z]) [1;3;2;7;8;5] in
  (match partitionBy (rdd_hash no_runtime_hash) (parallelize kv (Some 1)) 2 with
   | Ok r => map (fun v => match v with VTup (k :: _) => k | _ => VNone end) (local_iter r) | Err _ => [] end)
  = ints [2;8;1;3;7;5] /\ pairs_ok kv.
Proof.
  split; [vm_compute; reflexivity|].
  intros kv' H. cbn in H. repeat (destruct H as [<-|H]; [eexists; reflexivity|]). destruct H.
Qed.

Example zipWithUniqueId_doctest :
  local_iter (zip_with_unique_id (parallelize (ints [423;234;986;5;345]) (Some 3)))
  = map (fun p => VTup [VInt (fst p); VInt (snd p)]) [(423,0); (234,1); (986,4); (5,2); (345,5)].
Proof. vm_compute. reflexivity. Qed.

Example portable_hash_doctest :
  portable_hash no_runtime_hash VNone = 0 /\
  portable_hash no_runtime_hash (VInt (-1)) = -2 /\
  portable_hash no_runtime_hash (VInt (2 ^ 61)) = 1 /\
  portable_hash no_runtime_hash (VFloat 1.5%float) = 2 ^ 60 + 1 /\
  portableb (VTup [VNone; VInt 1; VStr [97]%N; VTup [VFloat 1.5%float]]) = true /\
  portable_hash (fun _ => 1) (VErr "bytes") <> portable_hash (fun _ => 2) (VErr "bytes").
Proof. vm_compute. repeat split. discriminate. Qed.

Example retry_example :
  run_task max_retries [true] tag_index (1, [VInt 7]) = (Ok [VTup [VInt 1; VInt 7]], [1; 1]) /\
  run_task max_retries [true; true; true] tag_index (1, [VInt 7]) = (Err "RuntimeError", [1; 1; 1]) /\
  transient_plans (fun i => if i =? 1 then [true] else []) (mk_rdd [[VInt 5]; [VInt 7]]).
Proof.
  split; [reflexivity|split; [reflexivity|]].
  intros i p _. destruct (i =? 1); cbn; unfold max_retries; auto with arith.
Qed.

Example repartition_by_swapped_key :
  let kv := map (fun ab => VTup [VInt (fst ab); VInt (snd ab)]) [(0,1); (1,0); (2,3); (3,2)] in
  let idf := fun k => match k with VInt z => z | _ => 0 end in
  let swap := fun v => match v with VTup [a; b] => VTup [b; a] | _ => VNone end in
  (match run_pipeline (SPar kv (Some 2)) [OPartitionBy 2 idf; OMap swap; OPartitionBy 2 idf] with
   | Ok r => glom r | Err _ => [] end)
  = [[VTup [VInt 0; VInt 1]; VTup [VInt 2; VInt 3]]; [VTup [VInt 1; VInt 0]; VTup [VInt 3; VInt 2]]].
Proof. vm_compute. reflexivity. Qed.
