(* C03 -- results are independent of execution backend and task schedule.

   Statements over the model PV.Model.Sched, each closed by [exact] of a lemma of PV.Proofs.Sched.
   They hold for EVERY schedule (arbitrary list of task numbers, any length, any number of pre-emptions), any number of
   partitions/tasks, every lineage of map-like, persist and seeded-sample stages, every source data, every random
   stream [draw], both backends, and every history of jobs on one context.

   PARTIAL with respect to the property text (nothing is hidden in a hypothesis; the limits are those of the model):
   the interleaving points are the source lines of PersistedRDD.compute and PartitionwiseSampledRDD.compute (the code
   through which tasks share objects); pre-emption inside a line, inside generator bodies or C calls, the fidelity of
   pickling and the process start method are not modelled -- process pools are the copy-in / result-out backend
   [Copying].  The model is tied to /repo by the correspondence run (traced-thread pool, real pools). *)
From Coq Require Import ZArith List Bool PrimFloat Lia.
Require Import PV.Base.Val PV.Model.Sched PV.Proofs.Sched.
Import ListNotations.
Open Scope Z_scope.

(* --- the property in one statement ----------------------------------------------------------------------------------
   Any history of jobs on one context (each job: a lineage over the same registry of persisted datasets, a task function
   that only returns a value, and its own arbitrary schedule), on either backend, returns job by job exactly what the
   default in-process executor returns, and leaves the same cache_obj (same entries in the same order).
   The suffix _partial refers to the granularity of the model (header of this file), not to a hypothesis. *)
Definition C03_statement : Prop :=
  forall draw lin parts b js, Forall (job_ok lin) js ->
  forall driver sh, cache_ok draw lin parts driver ->
  run_jobs draw b today js parts driver sh = run_jobs_local draw today js parts driver sh.
Theorem C03_pool_equals_default_executor_partial : C03_statement.
Proof. exact history_pool_equals_default. Qed.

(* --- one job on a pool ------------------------------------------------------------------------------------------- *)
(* For every backend and schedule: the job returns, per partition, the task function applied to that partition's own
   data; every entry (id, i) of the driver's cache holds partition i's data of dataset id; the driver's own objects are
   untouched.  [cache_ok] of the cache before the job is the invariant established by all earlier jobs (and by []). *)
Theorem C03_cache_inv :
  forall draw lin parts r tf driver, wf lin r -> tfun_pure tf = true -> cache_ok draw lin parts driver ->
  forall b sched sh,
  let o := run_job draw b today r tf parts sched driver sh in
  o_results o = spec_results draw r tf parts /\ cache_ok draw lin parts (o_driver o) /\ o_shared o = sh.
Proof. exact dist_job. Qed.

(* the default in-process executor (DummyPool) returns the same and keeps the same invariant *)
Theorem C03_default_executor :
  forall draw lin parts r tf driver sh, wf lin r -> tfun_pure tf = true -> cache_ok draw lin parts driver ->
  exists d', run_local draw today r tf parts driver sh = (spec_results draw r tf parts, d', sh) /\
             cache_ok draw lin parts d'.
Proof. exact local_job. Qed.

(* the cache_obj left by a pool job is, entry by entry and in dict order, the cache_obj left by the default executor *)
Theorem C03_cache_equals_default_executor :
  forall draw lin parts r, wf lin r -> forall driver, cache_ok draw lin parts driver ->
  forall tf, tfun_pure tf = true -> forall b sched sh,
  o_driver (run_job draw b today r tf parts sched driver sh) = snd (fst (run_local draw today r tf parts driver sh)).
Proof. exact dist_cache_eq_local. Qed.

(* --- the first and every later job ----------------------------------------------------------------------------------
   any history of jobs (each with its own lineage over the same registry of persisted datasets, its own task function
   and its own schedule) on one context: every job returns the sequential result, on a pool ... *)
Theorem C03_every_job_of_a_history :
  forall draw lin parts b js, Forall (job_ok lin) js ->
  forall driver sh, cache_ok draw lin parts driver ->
  fst (run_jobs draw b today js parts driver sh)
    = map (fun j => spec_results draw (fst (fst j)) (snd (fst j)) parts) js /\
  cache_ok draw lin parts (snd (run_jobs draw b today js parts driver sh)).
Proof. exact history_dist. Qed.
(* ... and on the default executor, hence pool and default executor agree job by job *)
Theorem C03_every_job_of_a_history_default_executor :
  forall draw lin parts js, Forall (job_ok lin) js ->
  forall driver sh, cache_ok draw lin parts driver ->
  fst (run_jobs_local draw today js parts driver sh)
    = map (fun j => spec_results draw (fst (fst j)) (snd (fst j)) parts) js /\
  cache_ok draw lin parts (snd (run_jobs_local draw today js parts driver sh)).
Proof. exact history_local. Qed.

(* --- unpersist() ------------------------------------------------------------------------------------------------------
   PersistedRDD.unpersist deletes every (id, partition) of the dataset from the DRIVER's cache (where the entries
   computed by pool workers were joined): afterwards no partition of it is cached ... *)
Theorem C03_unpersist_removes_every_partition :
  forall n id c i, (i < n)%nat -> c_get (c_unpersist n id c) (id, Z.of_nat i) = None.
Proof. exact c_unpersist_gone. Qed.
(* ... the entries of other datasets stay ... *)
Theorem C03_unpersist_keeps_other_datasets :
  forall n id c k d, In (k, d) c -> fst k <> id -> In (k, d) (c_unpersist n id c).
Proof. exact c_unpersist_keeps. Qed.
(* ... histories of jobs and unpersist() calls: on a pool, step by step and for the final cache_obj, exactly what the
   default executor gives, every job returning the sequential result ... *)
Theorem C03_histories_with_unpersist :
  forall draw lin parts b ss, Forall (step_ok lin) ss ->
  forall driver sh, cache_ok draw lin parts driver ->
  run_steps draw b today ss parts driver sh = run_steps_local draw today ss parts driver sh /\
  fst (run_steps draw b today ss parts driver sh)
    = map (fun j => spec_results draw (fst (fst j)) (snd (fst j)) parts) (jobs_of ss) /\
  cache_ok draw lin parts (snd (run_steps draw b today ss parts driver sh)).
Proof. exact steps_pool_equals_default. Qed.
(* ... and freshness: with NO assumption that the cache is right (the source may have changed since it was filled; only
   the partition indices are in range), once the persisted datasets of a lineage are unpersisted the next action on it,
   on any backend and schedule, returns the data of the CURRENT source, whatever stale entries of other datasets remain *)
Theorem C03_unpersist_then_fresh :
  forall draw lin parts r tf driver, wf lin r -> tfun_pure tf = true -> idx_in_range (length parts) driver ->
  forall b sched sh,
  o_results (run_job draw b today r tf parts sched (unpersist_all (length parts) (ids r) driver) sh)
  = spec_results draw r tf parts.
Proof. exact unpersist_then_fresh. Qed.
(* non-vacuity: a stale cache (entries computed from another source), unpersist, fresh results *)
Example ex_unpersist_fresh :
  let stale := [((4, 0), [99]); ((4, 1), [98; 97]); ((7, 0), [5])] in
  let r := Persist 4 (Map (fun x => [x + 1]) Src) in
  idx_in_range 2 stale /\
  o_results (run_job draw_const InProcess today r FCollect two_parts [1; 0; 1]%nat stale shared0) = [Some [99]; Some [98; 97]] /\
  o_results (run_job draw_const InProcess today r FCollect two_parts [1; 0; 1]%nat (unpersist_all 2 (ids r) stale) shared0)
    = [Some [1; 2]; Some [3; 4]] /\
  unpersist_all 2 (ids r) stale = [((7, 0), [5])].
Proof. split; [intros k d [H|[H|[H|[]]]]; inversion H; simpl; lia|]. vm_compute. repeat split. Qed.

(* --- backend and schedule independence without any assumption on the cache or the lineage ------------------------
   a task program that writes only to its own state (its return value and its cache clone) gives the same results, the
   same driver cache and the same stamped idents under InProcess and Copying and under any two schedules *)
Theorem C03_backend_indep :
  forall draw parts v r tf driver sh, prog_local (task_prog v r tf) = true ->
  forall b1 b2 s1 s2,
  let o1 := run_job draw b1 v r tf parts s1 driver sh in
  let o2 := run_job draw b2 v r tf parts s2 driver sh in
  o_results o1 = o_results o2 /\ o_driver o1 = o_driver o2 /\ o_stamped o1 = o_stamped o2 /\
  o_shared o1 = sh /\ o_shared o2 = sh.
Proof. exact local_prog_indep. Qed.
(* today's program is such a program whenever the task function only returns a value *)
Theorem C03_today_is_local :
  forall r tf, tfun_pure tf = true -> prog_local (task_prog today r tf) = true.
Proof. exact task_prog_local. Qed.

(* on copies (process pools, pickling serializers) EVERY program -- today's or a variant, whatever the task function
   writes to -- gives results, cache and stamps that do not depend on the schedule *)
Theorem C03_copies_schedule_indep_any_program :
  forall draw parts v r tf driver sh s1 s2,
  let o1 := run_job draw Copying v r tf parts s1 driver sh in
  let o2 := run_job draw Copying v r tf parts s2 driver sh in
  o_results o1 = o_results o2 /\ o_driver o1 = o_driver o2 /\ o_stamped o1 = o_stamped o2 /\
  o_shared o1 = sh /\ o_shared o2 = sh.
Proof. exact copies_sched_indep. Qed.

(* --- control flow: whatever the schedule, the lines granted to task tid are, in order, exactly the lines of that
   task's own uninterrupted run ([ltrace]); no task's path through compute() depends on another task.  (The events
   are what the correspondence run compares with the traced implementation.) *)
Theorem C03_events_are_own_traces :
  forall draw parts b v r tf sched driver sh, prog_local (task_prog v r tf) = true ->
  forall tid part, nth_error parts tid = Some part ->
  proj tid (o_events (run_job draw b v r tf parts sched driver sh)) =
  tag tid (ltrace draw (Z.of_nat tid) part (task_prog v r tf) (t_l (init_task (task_prog v r tf) driver tid part))).
Proof. exact job_events_own_trace. Qed.

(* --- seeded sampling ------------------------------------------------------------------------------------------------ *)
Theorem C03_sample_sched_indep :
  forall draw lin parts s fr r tf driver, wf lin r -> tfun_pure tf = true -> cache_ok draw lin parts driver ->
  forall b sched sh,
  o_results (run_job draw b today (Sample s fr r) tf parts sched driver sh)
  = map (fun ip => Some (apply_tfun tf (samp draw (s + Z.of_nat (fst ip)) fr (eval draw r (Z.of_nat (fst ip)) (snd ip)))))
        (combine (seq 0 (length parts)) parts).
Proof. exact sample_job. Qed.

(* --- coalesce: the job result regrouped by the regenerated partition mapping (Gen/Layout.v coalesce_plan) -------- *)
Theorem C03_coalesce_any_pool :
  forall draw lin parts r driver n, wf lin r -> cache_ok draw lin parts driver -> forall b sched sh,
  regroup n (got (o_results (run_job draw b today r FCollect parts sched driver sh))) =
  regroup n (map (fun ip => eval draw r (Z.of_nat (fst ip)) (snd ip)) (combine (seq 0 (length parts)) parts)).
Proof. exact coalesce_job. Qed.

(* --- entries merged back from workers carry a time stamp (TimedCacheManager.join), for any program and schedule ---- *)
Theorem C03_joined_entries_are_stamped :
  forall draw parts b v r tf sched driver sh k,
  let o := run_job draw b v r tf parts sched driver sh in
  In k (c_keys (o_driver o)) -> In k (c_keys driver) \/ In k (o_stamped o).
Proof. exact stamps_cover. Qed.

(* --- the model can exhibit the defects that were repaired: VARIANT programs, NOT today's code --------------------- *)
(* cache key in a field of the shared dataset object (before fix d795e56): a 7-grant schedule of 2 tasks after which
   the first job still returns [0,1],[2,3] but the cache holds partition 1's data under (1,0) and a second collect()
   returns [2,3,2,3] *)
Theorem C03_variant_shared_key_refuted :
  let o1 := run_job draw_const InProcess old_shared_key (Persist 1 Src) FCollect two_parts [1;1;1;1;0;0;1]%nat [] shared0 in
  let o2 := run_job draw_const InProcess old_shared_key (Persist 1 Src) FCollect two_parts [] (o_driver o1) (o_shared o1) in
  o_results o1 = [Some [0; 1]; Some [2; 3]] /\
  o_driver o1 = [((1, 0), [2; 3])] /\
  o_results o2 = [Some [2; 3]; Some [2; 3]].
Proof. exact shared_key_variant_bad_schedule. Qed.
(* the same variant and schedule on copies (process pool): no defect -- the race needs shared objects *)
Theorem C03_variant_shared_key_on_copies :
  let o1 := run_job draw_const Copying old_shared_key (Persist 1 Src) FCollect two_parts [1;1;1;1;0;0;1]%nat [] shared0 in
  let o2 := run_job draw_const Copying old_shared_key (Persist 1 Src) FCollect two_parts [] (o_driver o1) (o_shared o1) in
  o_driver o1 = [((1, 0), [0; 1]); ((1, 1), [2; 3])] /\ o_results o2 = [Some [0; 1]; Some [2; 3]].
Proof. exact shared_key_variant_copying_same_schedule. Qed.
(* module-global random generator (before fix 62e6812): two grants suffice to change the sample *)
Theorem C03_variant_global_rng_refuted :
  o_results (run_job draw_by_seed InProcess old_global_rng (Sample 5 (SBern 0.5) Src) FCollect two_parts [] [] shared0)
    = [Some [0; 1]; Some []] /\
  o_results (run_job draw_by_seed InProcess old_global_rng (Sample 5 (SBern 0.5) Src) FCollect two_parts [0; 1]%nat [] shared0)
    = [Some []; Some []] /\
  spec_results draw_by_seed (Sample 5 (SBern 0.5) Src) FCollect two_parts = [Some [0; 1]; Some []].
Proof. exact global_rng_variant_bad_schedule. Qed.
(* a task function that stores its data in a container of the driver's closure (coalesce before fix 8650242): the
   container is filled in process, stays empty on copies; today's coalesce regroups the job result instead *)
Theorem C03_variant_smuggle_refuted :
  let oi := run_job draw_const InProcess today Src FSmuggle two_parts [] [] shared0 in
  let oc := run_job draw_const Copying today Src FSmuggle two_parts [] [] shared0 in
  regroup_box 1 2 (sh_box (o_shared oi)) = [[0; 1; 2; 3]] /\ regroup_box 1 2 (sh_box (o_shared oc)) = [[]] /\
  regroup 1 two_parts = [[0; 1; 2; 3]].
Proof. exact smuggle_variant_copying. Qed.

(* --- non-vacuity ---------------------------------------------------------------------------------------------------- *)
Definition ex_lin (id : Z) : rdd :=
  match id with 2 => Map (fun x => [x + 1]) Src | _ => Sample 3 (SBern 0.5) (Persist 2 (Map (fun x => [x + 1]) Src)) end.
Definition ex_rdd : rdd := Map (fun x => [x * 2]) (Persist 4 (ex_lin 4)).
Example ex_wf : wf ex_lin ex_rdd.
Proof. simpl. repeat split. Qed.
Example ex_cache_ok_empty : forall draw parts, cache_ok draw ex_lin parts [].
Proof. intros draw parts k d []. Qed.
Example ex_job_ok : Forall (job_ok ex_lin) [(ex_rdd, FCollect, [2; 0; 1; 1; 0]%nat); (Persist 2 (ex_lin 2), FSum, [1; 1; 0]%nat)].
Proof. repeat constructor. Qed.
(* a run of the example: three tasks, an arbitrary schedule, then a second job that hits the cache *)
Example ex_run :
  let parts := [[0; 1]; [2; 3]; [4]] in
  let o1 := run_job draw_by_seed InProcess today ex_rdd FCollect parts [2; 0; 1; 1; 0; 2; 2; 1]%nat [] shared0 in
  let o2 := run_job draw_by_seed Copying today ex_rdd FCollect parts [1; 1; 0]%nat (o_driver o1) shared0 in
  o_results o1 = spec_results draw_by_seed ex_rdd FCollect parts /\ o_results o2 = o_results o1 /\
  c_keys (o_driver o1) = [(2, 0); (4, 0); (2, 1); (4, 1); (2, 2); (4, 2)] /\ o_driver o2 = o_driver o1 /\
  length (o_events o1) = 60%nat /\ length (o_events o2) = 18%nat /\
  proj 1 (o_events o2) = tag 1 [1; 2; 3; 7; 8; 9].
Proof. vm_compute. repeat split. Qed.
(* sampling with replacement: pysparkling_poisson on the stream 0.5, 0.5, ... with lam = 1 (exp(-1) ~ 0.3679): one copy of
   every element (0.5 > e^-1 >= 0.25), two draws per element; a lam of 0 draws nothing *)
Example ex_poisson :
  samp (fun _ _ => 0.5%float) 7 (SPoisson 1 0x1.78b56362cef38p-2) [4; 5; 6] = [4; 5; 6] /\
  samp_next (fun _ _ => 0.5%float) 7 (SPoisson 1 0x1.78b56362cef38p-2) 0 [4; 5; 6] = 6%nat /\
  samp_next (fun _ _ => 0.5%float) 7 (SPoisson 0 1) 0 [4; 5; 6] = 0%nat /\
  samp (fun _ _ => 0.75%float) 7 (SPoisson 1 0x1.78b56362cef38p-2) [4] = [4; 4; 4].
Proof. vm_compute. repeat split. Qed.
