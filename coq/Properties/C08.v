(* C08 -- Saving and re-reading data is lossless for every codec and partition count.
   Only statements, each closed by [exact] of a lemma from PV.Proofs.Files*.

   Conventions.  [compress]/[decompress] stand for the compression libraries (gzip, bz2, lzma, zipfile,
   tarfile): arbitrary functions with  decompress c (compress c b) = Some b  (the only thing assumed about
   them; that the streams written are VALID streams of the named format is a test against the standard
   library decoders in the correspondence run, not a theorem).  pickle is an arbitrary [dumps]/[loads] pair
   with  loads (dumps x) = Ok x.  A file system is any association list path |-> bytes.
   Path hypotheses of the round-trip theorems: the target is not empty, does not exist and does not end
   with a separator; when it contains no separator at all (a name relative to the working directory, which
   the real resolver returns as "./name/part-...") its alias "./name" must not exist either.  The
   layout theorems (part_codec_saved, whole_text_saved) are stated for targets with a separator.
   Pattern characters in the target are C20's subject.  100000 partitions is the code's own bound: part numbers are formatted with
   five digits and the reader sorts the names as strings. *)
From Coq Require Import String ZArith NArith List Bool.
Require Import PV.Base.PyStrOps PV.Gen.Codecs PV.Model.Files.
Require Import PV.Proofs.FilesStr PV.Proofs.FilesText PV.Proofs.Files.
Require Import PV.Proofs.FilesCodec PV.Proofs.FilesChunks PV.Proofs.FilesReaders PV.Proofs.FilesOrder.
Import ListNotations.
Open Scope Z_scope.

(* ---------- the string level *)
(* joining lines with "\n" and splitting again is the identity when no line contains one of the ten
   str.splitlines break characters; empty lines and the empty list included *)
Theorem C08_splitlines_join : forall ls : list str,
  Forall no_break ls -> splitlines (concat (map text_line ls)) = ls.
Proof. exact splitlines_join. Qed.

(* utf8 encoding followed by decoding is the identity on strings of Unicode scalar values *)
Theorem C08_utf8_roundtrip : forall s, scalar_str s -> utf8_decode (utf8_encode s) = s.
Proof. exact utf8_roundtrip. Qed.

(* ---------- saveAsTextFile ; textFile *)
Theorem C08_text_roundtrip :
  forall (compress : codec -> bytes -> bytes) (decompress : codec -> bytes -> option bytes),
  (forall c b, decompress c (compress c b) = Some b) ->
  forall (f : fs) (p : path) (parts : list (list str)) (minPartitions : option Z),
  fs_exists f p = false -> p <> [] -> ends_with p [slash] = false ->
  (contains_char slash p = false -> fs_exists f (dot_slash ++ p) = false) ->
  Z.of_nat (length parts) <= 100000 ->
  Forall (Forall no_break) parts -> Forall (Forall scalar_str) parts ->
  exists f' pss,
    save_text compress f p parts = Ok f' /\
    read_text decompress f' p minPartitions = Ok pss /\
    concat pss = concat parts.
Proof. exact text_roundtrip. Qed.

(* ---------- saveAsPickleFile ; pickleFile *)
Theorem C08_pickle_roundtrip :
  forall (compress : codec -> bytes -> bytes) (decompress : codec -> bytes -> option bytes),
  (forall c b, decompress c (compress c b) = Some b) ->
  forall (obj : Type) (dumps : list obj -> bytes) (loads : bytes -> res (list obj)),
  (forall xs, loads (dumps xs) = Ok xs) ->
  forall (f : fs) (p : path) (parts : list (list obj)) (minPartitions : option Z),
  fs_exists f p = false -> p <> [] -> ends_with p [slash] = false ->
  (contains_char slash p = false -> fs_exists f (dot_slash ++ p) = false) ->
  Z.of_nat (length parts) <= 100000 ->
  exists f' pss,
    save_pickle compress obj dumps f p parts = Ok f' /\
    pickle_file decompress obj loads f' p minPartitions = Ok pss /\
    concat pss = concat parts.
Proof. exact pickle_roundtrip. Qed.

(* ---------- part files under a codec extension *)
(* names only: whatever the file system, every data file of a save to a path with a codec extension
   (the path itself for one partition, otherwise the part files) carries a codec extension and
   get_codec assigns it a class of the table that really transforms the stream *)
Theorem C08_part_codec : forall (A : Type) (p : path) (parts : list (list A)) (n : path),
  has_codec_ext p = true -> In n (data_names text_codec_suffix p parts) ->
  has_codec_ext n = true /\ compressing (get_codec n) = true.
Proof. exact @data_names_compressed. Qed.

(* and on the file system: the files the reader resolves after the save are exactly those data files, and
   each holds  compress <codec of its own name> <text of its partition>  *)
Theorem C08_part_codec_saved :
  forall (compress : codec -> bytes -> bytes),
  forall (f : fs) (p : path) (parts : list (list str)),
  has_codec_ext p = true ->
  fs_exists f p = false -> ends_with p [slash] = false -> contains_char slash p = true ->
  Z.of_nat (length parts) <= 100000 ->
  exists f', save_text compress f p parts = Ok f' /\
    sort_str (resolve f' p) = data_names text_codec_suffix p parts /\
    Forall2 (fun n xs => has_codec_ext n = true /\ compressing (get_codec n) = true /\
                         fs_lookup f' n = Some (compress (get_codec n) (text_payload xs)))
            (data_names text_codec_suffix p parts) (chunks parts).
Proof. exact part_codec_saved. Qed.

(* ---------- the FILE_ENDINGS table (regenerated from fileio/codec/__init__.py) *)
(* whenever an ending of an earlier row is a suffix of an ending of a later row the check fails:
   in today's table the longer ending always comes first *)
Theorem C08_file_endings_ordered : table_ordered file_endings = true.
Proof. exact file_endings_ordered. Qed.

(* hence, for EVERY path: get_codec returns the class of the longest ending the path ends with *)
Theorem C08_codec_longest_suffix : forall (pth : path) (ends : list str) (cls : string) (e : str),
  get_codec_guard pth = false ->
  In (ends, cls) file_endings -> In e ends -> ends_with pth e = true ->
  (forall e', In e' all_endings -> ends_with pth e' = true -> (length e' <= length e)%nat) ->
  get_codec_name pth = cls.
Proof. exact codec_longest_suffix. Qed.

(* x.tar.gz is never read as plain gzip, x.tar.bz2 never as plain bzip2, whatever x *)
Theorem C08_tar_gz_not_gzip : forall q : str,
  get_codec (q ++ ext_tar_gz) = CTarGz /\ get_codec (q ++ ext_tar_bz2) = CTarBz2.
Proof. exact tar_gz_not_gzip. Qed.

(* ---------- binaryRecords *)
Theorem C08_fixed_chunks : forall (L : Z) (rs : list bytes),
  0 < L -> Forall (fun r => Z.of_nat (length r) = L) rs ->
  fixed_chunks L (concat rs) = Ok rs.
Proof. exact fixed_chunks_exact. Qed.

(* struct length prefix of w bytes, either byte order; empty records included *)
Theorem C08_prefixed_chunks : forall (big_endian : bool) (w : nat) (rs : list bytes),
  (1 <= w)%nat -> Forall (fun r => Z.of_nat (length r) < 256 ^ Z.of_nat w) rs ->
  var_chunks big_endian w (concat (map (frame big_endian w) rs)) = Ok rs.
Proof. exact prefixed_chunks_exact. Qed.

(* through the reader, for a file stored under any name (compressed according to that name) *)
Theorem C08_binary_records_fixed :
  forall (compress : codec -> bytes -> bytes) (decompress : codec -> bytes -> option bytes),
  (forall c b, decompress c (compress c b) = Some b) ->
  forall (f : fs) (p : path) (L : Z) (rs : list bytes),
  0 < L -> Forall (fun r => Z.of_nat (length r) = L) rs ->
  fs_lookup f p = Some (enc compress (get_codec p) (concat rs)) ->
  exists pss, binary_records decompress f p (RLFixed L) = Ok pss /\ concat pss = rs.
Proof. exact binary_records_fixed. Qed.

Theorem C08_binary_records_prefixed :
  forall (compress : codec -> bytes -> bytes) (decompress : codec -> bytes -> option bytes),
  (forall c b, decompress c (compress c b) = Some b) ->
  forall (f : fs) (p : path) (big_endian : bool) (w : nat) (rs : list bytes),
  (1 <= w)%nat -> Forall (fun r => Z.of_nat (length r) < 256 ^ Z.of_nat w) rs ->
  fs_lookup f p = Some (enc compress (get_codec p) (concat (map (frame big_endian w) rs))) ->
  exists pss, binary_records decompress f p (RLVar big_endian w) = Ok pss /\ concat pss = rs.
Proof. exact binary_records_prefixed. Qed.

(* ---------- wholeTextFiles *)
(* keyed by path, in path order, one pair per resolved file, whatever the files hold *)
Theorem C08_whole_text_files :
  forall (decompress : codec -> bytes -> option bytes),
  forall (f : fs) (expr : str) (minPartitions : option Z) (content : path -> str),
  (forall n, In n (sort_str (resolve f expr)) -> load_text decompress f n = Ok (content n)) ->
  exists pss, whole_text_files decompress f expr minPartitions = Ok pss /\
    concat pss = map (fun n => (n, content n)) (sort_str (resolve f expr)) /\
    sorted_str (map fst (concat pss)).
Proof. exact whole_text_files_spec. Qed.

(* the value is the file's full decoded content (carriage returns included), keyed by its path:
   one file ... *)
Theorem C08_whole_text_file :
  forall (compress : codec -> bytes -> bytes) (decompress : codec -> bytes -> option bytes),
  (forall c b, decompress c (compress c b) = Some b) ->
  forall (f : fs) (p : path) (s : str) (minPartitions : option Z),
  scalar_str s ->
  fs_lookup f p = Some (enc compress (get_codec p) (utf8_encode s)) ->
  exists pss, whole_text_files decompress f p minPartitions = Ok pss /\ concat pss = [(p, s)].
Proof. exact whole_text_file. Qed.

(* ... and every file an expression resolves to *)
Theorem C08_whole_text_content :
  forall (compress : codec -> bytes -> bytes) (decompress : codec -> bytes -> option bytes),
  (forall c b, decompress c (compress c b) = Some b) ->
  forall (f : fs) (expr : str) (minPartitions : option Z) (txt : path -> str),
  (forall n, In n (sort_str (resolve f expr)) ->
     scalar_str (txt n) /\
     fs_lookup f n = Some (enc compress (get_codec n) (utf8_encode (txt n)))) ->
  exists pss, whole_text_files decompress f expr minPartitions = Ok pss /\
    concat pss = map (fun n => (n, txt n)) (sort_str (resolve f expr)).
Proof. exact whole_text_files_content. Qed.

(* wholeTextFiles over a data set written by saveAsTextFile: one pair per data file, keyed by its path,
   holding exactly the text of its partition *)
Theorem C08_whole_text_saved :
  forall (compress : codec -> bytes -> bytes) (decompress : codec -> bytes -> option bytes),
  (forall c b, decompress c (compress c b) = Some b) ->
  forall (f : fs) (p : path) (parts : list (list str)) (minPartitions : option Z),
  fs_exists f p = false -> ends_with p [slash] = false -> contains_char slash p = true ->
  Z.of_nat (length parts) <= 100000 ->
  Forall (Forall no_break) parts -> Forall (Forall scalar_str) parts ->
  exists f' pss,
    save_text compress f p parts = Ok f' /\
    whole_text_files decompress f' p minPartitions = Ok pss /\
    concat pss = map (fun nx => (fst nx, concat (map text_line (snd nx))))
                     (combine (data_names text_codec_suffix p parts) (chunks parts)).
Proof. exact whole_text_saved. Qed.

(* ---------- the model lists files in write order, a directory walk in any order: it does not matter *)
Theorem C08_readers_listing_order :
  forall (decompress : codec -> bytes -> option bytes) (f1 f2 : fs) (expr : str) (minPartitions : option Z),
  Permutation.Permutation f1 f2 -> NoDup (map fst f1) ->
  read_text decompress f1 expr minPartitions = read_text decompress f2 expr minPartitions /\
  whole_text_files decompress f1 expr minPartitions = whole_text_files decompress f2 expr minPartitions /\
  binary_files decompress f1 expr minPartitions = binary_files decompress f2 expr minPartitions /\
  (forall rl, binary_records decompress f1 expr rl = binary_records decompress f2 expr rl).
Proof. exact readers_listing_order. Qed.

Theorem C08_pickle_file_listing_order :
  forall (decompress : codec -> bytes -> option bytes) (obj : Type) (loads : bytes -> res (list obj))
         (f1 f2 : fs) (expr : str) (minPartitions : option Z),
  Permutation.Permutation f1 f2 -> NoDup (map fst f1) ->
  pickle_file decompress obj loads f1 expr minPartitions = pickle_file decompress obj loads f2 expr minPartitions.
Proof. exact pickle_file_listing_order. Qed.

(* the bound of 100000 partitions in the round-trip theorems is the code's own: the name of part 100000
   sorts strictly before the name of part 99999 *)
Theorem C08_partition_bound_tight : forall s,
  str_leb (std_part_name 100000 s) (std_part_name 99999 s) = true /\
  std_part_name 100000 s <> std_part_name 99999 s.
Proof. exact part_100000_sorts_first. Qed.

(* ---------- supporting facts used above, stated for every input *)
(* Context.parallelize hands out every element exactly once, in order, for every slice count *)
Theorem C08_parallelize_concat : forall (A : Type) (xs : list A) (n : Z), concat (parallelize xs n) = xs.
Proof. exact @parallelize_concat. Qed.

(* sorted(names) does not depend on the order in which the directory walk lists them *)
Theorem C08_sorted_listing_order_irrelevant : forall l1 l2 : list str,
  Permutation.Permutation l1 l2 -> sort_str l1 = sort_str l2.
Proof. exact sort_perm_invariant. Qed.

(* five-digit part numbers sort numerically *)
Theorem C08_part_names_sort_numerically : forall i j s,
  0 <= i < j -> j < 100000 -> lex_lt (std_part_name i s) (std_part_name j s).
Proof. exact std_part_name_lt. Qed.

(* ---------- non-vacuity and sanity *)
Section Examples.
Let ident (c : codec) (b : bytes) : bytes := 7%N :: b.
Let unident (c : codec) (b : bytes) : option bytes := match b with 7%N :: b' => Some b' | _ => None end.
Let s (l : list N) : str := l.
(* "/o.tar.gz", three partitions [["a"; ""]; []; ["b c"]], minPartitions 7 *)
Let target : path := [47; 111; 46; 116; 97; 114; 46; 103; 122]%N.
Let data : list (list str) := [[[97]; []]; []; [[98; 32; 99]]]%N.

Example text_roundtrip_instance :
  fs_exists [] target = false /\ ends_with target [slash] = false /\ contains_char slash target = true /\
  has_codec_ext target = true /\
  match save_text ident [] target data with
  | Ok f' =>
      map fst f' = [ [47;111;46;116;97;114;46;103;122; 47; 112;97;114;116;45;48;48;48;48;48;46;103;122];
                     [47;111;46;116;97;114;46;103;122; 47; 112;97;114;116;45;48;48;48;48;49;46;103;122];
                     [47;111;46;116;97;114;46;103;122; 47; 112;97;114;116;45;48;48;48;48;50;46;103;122];
                     [47;111;46;116;97;114;46;103;122; 47; 95;83;85;67;67;69;83;83] ]%N /\
      read_text unident f' target (Some 7) = Ok [[]; []; [[97]; []]; []; []; []; [[98; 32; 99]]]%N
  | Err _ => False
  end.
Proof. vm_compute. repeat split; reflexivity. Qed.

(* a target without any separator: the resolver returns "./o.gz/part-0000N.gz" and the loader finds the files *)
Let rel_target : path := [111; 46; 103; 122]%N.
Example relative_target_instance :
  fs_exists [] rel_target = false /\ rel_target <> [] /\ ends_with rel_target [slash] = false /\
  contains_char slash rel_target = false /\ fs_exists [] (dot_slash ++ rel_target) = false /\
  match save_text ident [] rel_target data with
  | Ok f' =>
      sort_str (resolve f' rel_target) =
        [ [46;47; 111;46;103;122; 47; 112;97;114;116;45;48;48;48;48;48;46;103;122];
          [46;47; 111;46;103;122; 47; 112;97;114;116;45;48;48;48;48;49;46;103;122];
          [46;47; 111;46;103;122; 47; 112;97;114;116;45;48;48;48;48;50;46;103;122] ]%N /\
      read_text unident f' rel_target None = Ok [[[97]; []]; []; [[98; 32; 99]]]%N
  | Err _ => False
  end.
Proof. vm_compute. repeat split; try reflexivity. discriminate. Qed.

Example codec_examples :
  get_codec [120; 46; 116; 97; 114; 46; 103; 122]%N = CTarGz /\          (* x.tar.gz *)
  get_codec [120; 46; 103; 122]%N = CGz /\                               (* x.gz *)
  get_codec [120; 46; 103; 122; 47; 112]%N = CCodec /\                   (* x.gz/p *)
  get_codec [120; 46; 116; 120; 116]%N = CNoCodec /\                     (* x.txt *)
  get_codec [120; 46; 120; 122]%N = CLzma.                               (* x.xz *)
Proof. vm_compute. repeat split; reflexivity. Qed.

Example splitlines_examples :
  splitlines [97; 13; 10; 98; 13; 99; 10]%N = [[97]; [98]; [99]]%N /\
  splitlines [10; 10]%N = [[]; []] /\ splitlines [] = [] /\
  splitlines [97; 8232; 98]%N = [[97]; [98]]%N /\
  no_break [97; 32; 9; 160]%N.
Proof. vm_compute. repeat split; repeat constructor. Qed.

(* "a\r\nb\rc\n" stored in the file w comes back unchanged *)
Example whole_text_keeps_carriage_returns :
  whole_text_files unident [([119], [97; 13; 10; 98; 13; 99; 10])]%N [119]%N None
  = Ok [[([119], [97; 13; 10; 98; 13; 99; 10])]]%N.
Proof. vm_compute. reflexivity. Qed.

Example chunk_examples :
  fixed_chunks 5 [98;101;108;108;111;98;101;108;108;111]%N = Ok [[98;101;108;108;111]; [98;101;108;108;111]]%N /\
  var_chunks false 4 (frame false 4 [1;2]%N ++ frame false 4 [] ++ frame false 4 [3]%N) = Ok [[1;2]; []; [3]]%N /\
  fixed_chunks 0 [1]%N = Err "ValueError" /\ var_chunks true 2 [0]%N = Err "error".
Proof. vm_compute. repeat split; reflexivity. Qed.
End Examples.
