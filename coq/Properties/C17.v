(* C17 -- Statistical summaries agree with the two-pass formulas for any partitioning and any merge order.
   Only statements, each closed by [exact] of a lemma from PV.Proofs.Stats / StatsCov / StatsGeneric.

   Reading.  The model (PV.Model.Stats) is generic in the arithmetic; its kernels are regenerated from
   stat_counter.py on every run.  The theorems below instantiate it with the real numbers (PV.Base.NumR): they say
   that the ALGORITHM is exact -- for every list, every composition into partitions (empty ones included), every
   merge tree over the partitions in any order, self-merges included.  Theorems whose name ends in _partial are the
   clauses of the property that the text states for floating point "within 1e-9": they are proved for exact
   arithmetic; the floating-point statement itself is [C17_float_full] / [C17_float_cov_full] (stated, not proved).
   Theorems without the suffix hold as stated (counts and the empty-dataset clause hold for the float instance too).

   float('-inf') / float('inf') are the parameters lo / hi: the theorems hold for every choice and give the list
   maximum / minimum whenever lo <= every datum <= hi.

   Axioms (Coq standard library, via Reals): ClassicalDedekindReals.sig_forall_dec, sig_not_dec,
   FunctionalExtensionality.functional_extensionality_dep. *)
From Coq Require Import String ZArith Reals Lra List Permutation Bool.
From Coq Require Import PrimFloat.
Require Import PV.Base.Val PV.Base.Num PV.Base.NumR PV.Base.SqrtOps PV.Base.SqrtOpsR.
Require Import PV.Gen.StatCounter PV.Gen.Covariance PV.Model.Stats.
Require Import PV.Proofs.Stats PV.Proofs.StatsCov PV.Proofs.StatsGeneric PV.Proofs.StatsOrder PV.Proofs.StatsSessions PV.Proofs.StatsFloatSpec.
Import ListNotations.
Open Scope R_scope.

(* ------------------------------------------------------------------ the invariant and its preservation *)
(* StatCounter() represents the empty list *)
Theorem C17_empty_rep : forall lo hi, Rep lo hi (sc_empty lo hi) [].
Proof. exact Rep_empty. Qed.

(* Welford update: StatCounter.merge(v) *)
Theorem C17_merge_rep : forall lo hi s xs v, Rep lo hi s xs -> Rep lo hi (sc_add s v) (xs ++ [v]).
Proof. exact Rep_add. Qed.

(* Chan merge: StatCounter.mergeStats(other) on all its paths -- self empty, other empty, other more than ten times
   smaller, self more than ten times smaller, comparable sizes *)
Theorem C17_mergeStats_rep : forall lo hi a b xs ys,
  Rep lo hi a xs -> Rep lo hi b ys -> Rep lo hi (sc_comb a b) (xs ++ ys).
Proof. exact Rep_comb. Qed.

(* s.mergeStats(s) *)
Theorem C17_self_merge_rep : forall lo hi s xs, Rep lo hi s xs -> Rep lo hi (sc_comb_self s) (xs ++ xs).
Proof. exact Rep_self. Qed.

(* the three size-ratio branches are really there (in every instance of the arithmetic) *)
Theorem C17_mergeStats_branches : forall (N : NumOps) (a b : @sc N),
  sc_n a <> 0%Z -> sc_n b <> 0%Z ->
  let delta := fsub (sc_mu b) (sc_mu a) in
  let n := fofZ (sc_n a + sc_n b) in
  sc_mu (sc_comb a b) =
    if (sc_n b * 10 <? sc_n a)%Z then fadd (sc_mu a) (fdiv (fmul delta (fofZ (sc_n b))) n)
    else if (sc_n a * 10 <? sc_n b)%Z then fsub (sc_mu b) (fdiv (fmul delta (fofZ (sc_n a))) n)
    else fdiv (fadd (fmul (sc_mu a) (fofZ (sc_n a))) (fmul (sc_mu b) (fofZ (sc_n b)))) n.
Proof. exact @sc_comb_mu_branches. Qed.

(* the invariant does not depend on the order of the data *)
Theorem C17_rep_permutation : forall lo hi s xs ys, Permutation xs ys -> Rep lo hi s xs -> Rep lo hi s ys.
Proof. exact Rep_perm. Qed.

(* every merge tree (self-merges included) represents the data it was built from *)
Theorem C17_tree_rep : forall lo hi t, Rep lo hi (tree_stats lo hi t) (tdata t).
Proof. exact tree_rep. Qed.

(* ------------------------------------------------------------------ the property *)
(* For every list xs, every composition of xs into partitions (concat parts = xs; empty partitions allowed, any
   number of them) and every merge tree whose leaves are these partitions in any order: all accessors return the
   two-pass values of xs (TwoPass: count, sum, mean, max, min, variance, sampleVariance, stdev, sampleStdev; None
   stands for the NaN returned when n = 0 resp. n <= 1). *)
Theorem C17_any_partitioning_any_order_partial : forall lo hi (xs : list R) (parts : list (list R)) (t : mtree R),
  concat parts = xs -> Permutation (leaves t) parts -> TwoPass lo hi (tree_stats lo hi t) xs.
Proof. exact any_partitioning_any_order. Qed.

(* with self-merges: the two-pass values of the data counted as often as the tree uses it *)
Theorem C17_tree_two_pass_partial : forall lo hi t, TwoPass lo hi (tree_stats lo hi t) (tdata t).
Proof. exact tree_two_pass. Qed.

(* RDD.stats() = aggregate(StatCounter(), merge, mergeStats): the left-comb merge order from the empty counter ... *)
Theorem C17_rdd_stats_is_left_comb : forall lo hi parts,
  rdd_stats lo hi parts = tree_stats lo hi (left_comb (MLeaf []) parts).
Proof. exact rdd_stats_left_comb. Qed.
(* ... hence the two-pass values of the concatenated partitions, whatever the partitioning *)
Theorem C17_rdd_stats_partial : forall lo hi parts, TwoPass lo hi (rdd_stats lo hi parts) (concat parts).
Proof. exact rdd_stats_two_pass. Qed.

(* consequence: over exact arithmetic the summary itself (all five fields) does not depend on the merge order or on
   the partitioning, only on the multiset of the data *)
Theorem C17_merge_order_irrelevant_partial : forall lo hi (t t' : mtree R),
  Permutation (tdata t) (tdata t') -> tdata t <> [] -> tree_stats lo hi t = tree_stats lo hi t'.
Proof. exact merge_order_irrelevant. Qed.
Theorem C17_partitioning_irrelevant_partial : forall lo hi parts parts',
  Permutation (concat parts) (concat parts') -> concat parts <> [] -> rdd_stats lo hi parts = rdd_stats lo hi parts'.
Proof. exact rdd_stats_partitioning_irrelevant. Qed.

(* sessions on REUSED RDD objects: summaries handed out by rdd.stats() are merged (as receiver or argument), merged with
   themselves, have values folded in, and the same RDDs are asked again in between.  Every summary left on the stack
   has the two-pass values of the data that went into it, and every later observation of an RDD has the two-pass
   values of THAT RDD's data (concat of its partitions), whatever was done to its earlier summaries.  (That
   rdd.stats() hands out a fresh summary on every call is the modelled behaviour of RDD.stats; it is tied to the code
   by the wiring shape check and by the `session` cases of the correspondence.) *)
Theorem C17_session_partial : forall lo hi rdds prog obs stack,
  session lo hi rdds prog [] [] = Some (obs, stack) ->
  Forall (fun o => TwoPass lo hi (fst o) (snd o)) stack /\
  Forall (fun o => TwoPass lo hi (fst o) (snd o) /\ exists parts, In parts rdds /\ snd o = concat parts) obs.
Proof. exact session_two_pass. Qed.

(* sessions on summary OBJECTS that several folds reuse: a pool of StatCounter objects (one per partition, plus fresh
   empty ones and copies created on the way); merges into empty receivers, further merges into the same receiver, the
   same partial merged into two receivers, the receiver merged back into a partial, self-merges, updates.  After EVERY
   step EVERY live object -- not only the receiver -- represents exactly its own data and has its two-pass values: a
   partial that was merged INTO something else is unchanged.  (That no two objects share state is the modelled
   behaviour -- mergeStats copies field values, copy() is a deep copy -- tied to the code by the `objects` cases of the
   correspondence, which compare every live object after every step.) *)
Theorem C17_object_sessions_partial : forall lo hi parts prog tr,
  sc_osession lo hi parts prog = Some tr ->
  Forall (Forall (fun o => Rep lo hi (fst o) (snd o) /\ TwoPass lo hi (fst o) (snd o))) tr.
Proof. exact sc_osession_rep. Qed.
Theorem C17_cov_object_sessions_partial : forall parts prog tr,
  cc_osession parts prog = Some tr ->
  Forall (Forall (fun o => RepC (fst o) (snd o) /\ TwoPassC (fst o) (snd o))) tr.
Proof. exact cc_osession_rep. Qed.

(* the single clauses, unfolded for the reader (xs non-empty; max/min need the sentinels to bound the data) *)
Theorem C17_mean_partial : forall lo hi parts, concat parts <> [] ->
  st_mean (rdd_stats lo hi parts) = sumR (concat parts) / len (concat parts).
Proof. exact mean_unfolded. Qed.
Theorem C17_variance_partial : forall lo hi parts, concat parts <> [] ->
  st_variance (rdd_stats lo hi parts) = Some (ssq (tp_mean (concat parts)) (concat parts) / len (concat parts)).
Proof. exact variance_unfolded. Qed.
Theorem C17_max_partial : forall lo hi parts m, concat parts <> [] -> (forall x, In x (concat parts) -> lo <= x) ->
  is_max m (concat parts) -> st_max (rdd_stats lo hi parts) = m.
Proof. exact max_unfolded. Qed.
Theorem C17_min_partial : forall lo hi parts m, concat parts <> [] -> (forall x, In x (concat parts) -> x <= hi) ->
  is_min m (concat parts) -> st_min (rdd_stats lo hi parts) = m.
Proof. exact min_unfolded. Qed.

(* count is exact in EVERY instance of the arithmetic, IEEE floats (with NaN / infinities) included *)
Theorem C17_count : forall (N : NumOps) (ninf pinf : @F N) (t : mtree (@F N)),
  st_count (tree_stats ninf pinf t) = Z.of_nat (length (tdata t)).
Proof. exact @tree_count. Qed.

(* max / min involve no arithmetic: in EVERY instance (floats included) the value returned is one of the data, or the
   sentinel -inf / +inf (no rounding can occur; that it is the greatest / least is C17_max_partial / C17_min_partial) *)
Theorem C17_max_min_are_data : forall (N : NumOps) (ninf pinf : @F N) (t : mtree (@F N)),
  In (st_max (tree_stats ninf pinf t)) (ninf :: tdata t) /\ In (st_min (tree_stats ninf pinf t)) (pinf :: tdata t).
Proof. exact @tree_max_min_in_data. Qed.

(* ... and in every instance whose < is a strict weak order on the values involved ([ok]: all reals; all IEEE floats
   other than NaN) nothing in the data is above the max or below the min -- for every merge tree.  The three order
   premises are hypotheses about the instance (they hold for R: order_premises_hold_for_R below; for binary64 they
   are the IEEE comparison laws, not derived here) *)
Theorem C17_max_min_bound_data : forall (N : NumOps) (ok : @F N -> Prop),
  (forall a, ok a -> fltb a a = false) ->
  (forall a b c, ok a -> ok b -> ok c -> fltb a b = true -> fltb b c = true -> fltb a c = true) ->
  (forall a b c, ok a -> ok b -> ok c -> fltb a b = false -> fltb b c = false -> fltb a c = false) ->
  forall (ninf pinf : @F N) (t : mtree (@F N)), ok ninf -> ok pinf -> Forall ok (tdata t) ->
  (forall x, In x (tdata t) -> fltb (st_max (tree_stats ninf pinf t)) x = false) /\
  (forall x, In x (tdata t) -> fltb x (st_min (tree_stats ninf pinf t)) = false).
Proof. exact @tree_max_min_bounds. Qed.

(* "Summaries of an empty dataset report count 0 and NaN variance instead of failing": any number of empty
   partitions, in every instance; and what the float instance (= Python) shows *)
Theorem C17_empty_stats : forall (N : NumOps) (ninf pinf : @F N) parts,
  Forall (fun p => p = []) parts ->
  rdd_stats ninf pinf parts = sc_empty ninf pinf /\
  st_count (rdd_stats ninf pinf parts) = 0%Z /\
  st_variance (rdd_stats ninf pinf parts) = None /\ st_sampleVariance (rdd_stats ninf pinf parts) = None.
Proof. exact @empty_stats. Qed.
Theorem C17_empty_stats_float : forall parts,
  Forall (fun p => p = []) parts ->
  sc_view (@rdd_stats FloatOps neg_infinity infinity parts) =
  VTup [VInt 0; VFloat zero; VFloat zero; VFloat neg_infinity; VFloat infinity;
        VInt 0; VFloat zero; VFloat zero; VFloat infinity; VFloat neg_infinity;
        VFloat nan; VFloat nan; VFloat nan; VFloat nan].
Proof. exact empty_dataset_view. Qed.

(* ------------------------------------------------------------------ covariance / correlation (DataFrame cov, corr) *)
Theorem C17_cov_add_rep : forall c ps p, RepC c ps -> RepC (cc_step c p) (ps ++ [p]).
Proof. exact RepC_add. Qed.
Theorem C17_cov_merge_rep : forall a b ps qs, RepC a ps -> RepC b qs -> RepC (cc_comb a b) (ps ++ qs).
Proof. exact RepC_comb. Qed.
Theorem C17_cov_tree_rep : forall t, RepC (tree_cov t) (tdata t).
Proof. exact cov_tree_rep. Qed.
(* every composition of the rows into partitions, every merge order: covar_samp, covar_pop and pearson_correlation
   are the two-pass values *)
Theorem C17_cov_any_partitioning_any_order_partial :
  forall (ps : list (R * R)) parts (t : mtree (R * R)),
  concat parts = ps -> Permutation (leaves t) parts -> TwoPassC (tree_cov t) ps.
Proof. exact cov_any_partitioning_any_order. Qed.
(* DataFrame.cov / corr: treeAggregate(CovarianceCounter, add, merge) over the partitions of the frame *)
Theorem C17_df_cov_partial : forall parts, TwoPassC (df_cov_helper parts) (concat parts).
Proof. exact df_cov_two_pass. Qed.
Theorem C17_cov_merge_order_irrelevant_partial : forall (t t' : mtree (R * R)),
  Permutation (tdata t) (tdata t') -> tdata t <> [] -> tree_cov t = tree_cov t'.
Proof. exact cov_merge_order_irrelevant. Qed.
(* the value compared with is Pearson's r in its textbook form *)
Theorem C17_corr_formula : forall ps, ps <> [] ->
  tp_corr ps = tp_cov_pop ps / (R_sqrt.sqrt (tp_var (xs_of ps)) * R_sqrt.sqrt (tp_var (ys_of ps))).
Proof. exact tp_corr_textbook. Qed.
Theorem C17_cov_count : forall (N : NumOps) (t : mtree (@F N * @F N)),
  cc_n (tree_cov t) = Z.of_nat (length (tdata t)).
Proof. exact @cov_tree_count. Qed.
(* an empty frame: cov is None (no failure); corr divides by zero (ZeroDivisionError) -- 0/0 has no two-pass value *)
Theorem C17_empty_dataframe_float : forall parts,
  Forall (fun p => p = []) parts ->
  opt_val (cv_samp (@df_cov_helper FloatOps parts)) = VNone /\
  py_corr (@df_cov_helper FloatOps parts) = VErr "ZeroDivisionError".
Proof. exact empty_dataframe_view. Qed.

(* ------------------------------------------------------------------ the floating-point clause: stated, NOT proved *)
Definition C17_full : Prop := forall max_len, C17_float_full max_len /\ C17_float_cov_full max_len.

(* ------------------------------------------------------------------ non-vacuity and sanity *)
(* the hypotheses of the headline theorem are satisfiable with empty partitions, a permuted merge order ... *)
Example headline_instance :
  let parts := [[1; 4]; []; [9]] in
  let t := MNode (MLeaf [9]) (MNode (MLeaf []) (MLeaf [1; 4])) in
  concat parts = [1; 4; 9] /\ Permutation (leaves t) parts.
Proof.
  cbn. split; [reflexivity|].
  apply Permutation_trans with ([[]; [1; 4]] ++ [[9]]); [apply (Permutation_app_comm [[9]] [[]; [1; 4]])|].
  cbn. apply perm_swap.
Qed.
Example order_irrelevant_instance :
  let t := MNode (MLeaf [9]) (MNode (MLeaf []) (MLeaf [1; 4])) in
  let t' := MSelf (MLeaf [1]) in
  Permutation (tdata t) (tdata (MNode (MLeaf [1; 4; 9]) (MLeaf []))) /\ tdata t <> [] /\ tdata t' = [1; 1].
Proof. cbn. repeat split; [| congruence]. apply (Permutation_app_comm [9] [1; 4]). Qed.
Example order_premises_hold_for_R :
  (forall a : @F ROps, True -> fltb a a = false) /\
  (forall a b c : @F ROps, True -> True -> True -> fltb a b = true -> fltb b c = true -> fltb a c = true) /\
  (forall a b c : @F ROps, True -> True -> True -> fltb a b = false -> fltb b c = false -> fltb a c = false).
Proof. exact R_order_premises. Qed.
Example session_instance :
  exists obs stack,
    session 0 0 [[[1; 2]; [3]]; [[10]]] [SPush 0%nat; SPush 1%nat; SMerge; SObserve 0%nat; SPush 0%nat; SSelf; SFold 5] [] []
    = Some (obs, stack) /\ length obs = 1%nat /\ length stack = 2%nat.
Proof. eexists. eexists. split; [reflexivity|]. split; reflexivity. Qed.
Example object_session_instance :
  exists tr, sc_osession 0 0 [[1; 2]; [7]] [ONew; OMerge 2%nat 0%nat; OMerge 2%nat 1%nat; ONew; OMerge 3%nat 0%nat; OMerge 0%nat 2%nat; OCopy 1%nat; OFold 4%nat 5]
             = Some tr /\ length tr = 8%nat.
Proof. eexists. split; reflexivity. Qed.
(* ... and the invariant is not trivially true: a counter with a wrong mean does not represent the data *)
Example rep_discriminates : ~ Rep 0 0 (mkSC 2 1 0 0 0 : @sc ROps) [1; 2].
Proof. intros [_ H _ _ _]. cbn in H. lra. Qed.
(* the float model on the doctest inputs of rdd.py: parallelize([1, 4, 9, 16, 25, 36], 3).stats().mean() = 91/6,
   [1.5, 2.5].variance() = 0.25, [1, 2, 3].sampleVariance() = 1.0 *)
Example doctest_values :
  st_mean (@rdd_stats FloatOps neg_infinity infinity [[1; 4]; [9; 16]; [25; 36]]%float) = 0x1.e555555555555p+3%float /\
  st_variance (@rdd_stats FloatOps neg_infinity infinity [[1.5; 2.5]]%float) = Some 0.25%float /\
  st_sampleVariance (@rdd_stats FloatOps neg_infinity infinity [[1; 2; 3]]%float) = Some 1%float.
Proof. vm_compute. repeat split; reflexivity. Qed.
(* each size-ratio branch is reachable (sizes 11|1, 1|11, 2|2) *)
Example branches_reachable :
  let big := @sc_of_list FloatOps neg_infinity infinity (repeat 1%float 11) in
  let one := @sc_of_list FloatOps neg_infinity infinity [5%float] in
  (sc_n one * 10 <? sc_n big)%Z = true /\ (sc_n big * 10 <? sc_n one)%Z = false /\ (sc_n one * 10 <? sc_n one)%Z = false.
Proof. vm_compute. repeat split; reflexivity. Qed.
