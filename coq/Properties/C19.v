(* C19 -- Type descriptions round-trip and inferred schemas accept their data.
   Only statements, each closed by [exact] of a lemma from PV.Proofs.Types*. *)
From Coq Require Import ZArith NArith List Bool String.
Require Import PV.Base.Val PV.Gen.TypeTables PV.Model.Types PV.Proofs.TypesJson.
Import ListNotations.
Open Scope Z_scope.

(* ---- Every data type tree is reproduced exactly by parsing its JSON description.
   [to_json] is jsonValue(), [parse_json_value] is _parse_datatype_json_value with a recursion budget
   computed from the JSON value itself; for EVERY tree (any depth, any metadata, any decimal). *)
Theorem C19_json_roundtrip : forall t : dtype, parse_json_value (to_json t) = Ok t.
Proof. exact json_roundtrip. Qed.

(* the parser's recursion budget is never the reason for an answer, on ANY JSON value *)
Theorem C19_parser_never_out_of_fuel : forall j : json, parse_json_value j <> Err EFuel.
Proof. exact parse_json_value_nofuel. Qed.

(* through the JSON text (json(): dumps with sort_keys=True, then loads): every object comes back with
   its keys sorted; the parser looks keys up by name, so the tree comes back with only the metadata
   dicts re-ordered *)
Theorem C19_json_string_roundtrip : forall t : dtype, parse_json_string_of t = Ok (tsort t).
Proof. exact json_string_roundtrip. Qed.

(* the decimal(p,s) string form, for every precision and every (also negative) scale *)
Theorem C19_decimal_string : forall (p : N) (s : Z), parse_type_string (decimal_str p s) = Ok (TDecimal p s).
Proof. exact parse_decimal_str. Qed.

Example json_example :
  parse_json_value (to_json (TStruct [SField (lit "a") (TArray (TDecimal 10 (-2)) false) true [(lit "k", JInt 1)];
                                      SField (lit "b") (TMap (TAtom AString) (TAtom ATimestamp) true) false []]))
  = Ok (TStruct [SField (lit "a") (TArray (TDecimal 10 (-2)) false) true [(lit "k", JInt 1)];
                 SField (lit "b") (TMap (TAtom AString) (TAtom ATimestamp) true) false []]).
Proof. vm_compute. reflexivity. Qed.
