(* C19 -- Type descriptions round-trip and inferred schemas accept their data.
   Only statements, each closed by [exact] of a lemma from PV.Proofs.Types*. *)
From Coq Require Import ZArith NArith List Bool String PrimFloat.
Require Import PV.Base.Val PV.Gen.TypeTables PV.Model.Types PV.Proofs.TypesJson PV.Proofs.TypesRows PV.Proofs.TypesInfer PV.Proofs.TypesEqv PV.Proofs.TypesOrder PV.Proofs.TypesNamed.
Import ListNotations.
Open Scope Z_scope.

(* ---- Every data type tree is reproduced exactly by parsing its JSON description.
   [to_json] is jsonValue(), [parse_json_value] is _parse_datatype_json_value with a recursion budget
   computed from the JSON value itself; for EVERY tree (any depth, any metadata, any decimal). *)
Theorem C19_json_roundtrip : forall t : dtype, parse_json_value (to_json t) = Ok t.
Proof. exact json_roundtrip. Qed.

(* the parser's recursion budget is never the reason for an answer, on ANY JSON value *)
Theorem C19_parser_never_out_of_fuel : forall j : json, parse_json_value j <> Err EFuel.
Proof. exact parse_json_value_nofuel. Qed.

(* through the JSON text (json(): dumps with sort_keys=True, then loads): every object comes back with
   its keys sorted; the parser looks keys up by name, so the tree comes back with only the metadata
   dicts re-ordered *)
Theorem C19_json_string_roundtrip : forall t : dtype, parse_json_string_of t = Ok (tsort t).
Proof. exact json_string_roundtrip. Qed.

(* ... and that tree equals the original as Python compares types: [teqv] is structural equality in which the
   metadata dicts are compared as dicts (same entries, any order; [jeqv] on nested JSON values) *)
Theorem C19_json_string_roundtrip_equal : forall t : dtype, teqv t (tsort t).
Proof. exact tsort_eqv. Qed.

(* the decimal(p,s) string form, for every precision and every (also negative) scale *)
Theorem C19_decimal_string : forall (p : N) (s : Z), parse_type_string (decimal_str p s) = Ok (TDecimal p s).
Proof. exact parse_decimal_str. Qed.

Example json_example :
  parse_json_value (to_json (TStruct [SField (lit "a") (TArray (TDecimal 10 (-2)) false) true [(lit "k", JInt 1)];
                                      SField (lit "b") (TMap (TAtom AString) (TAtom ATimestamp) true) false []]))
  = Ok (TStruct [SField (lit "a") (TArray (TDecimal 10 (-2)) false) true [(lit "k", JInt 1)];
                 SField (lit "b") (TMap (TAtom AString) (TAtom ATimestamp) true) false []]).
Proof. vm_compute. reflexivity. Qed.

(* ---- Verification rejects values of the wrong Python type, out-of-range integers and nulls in
   non-nullable fields -- at the top level and at any depth (array element, map key, map value, field of a
   struct given as a tuple or as a Row).  [damaged t nullable v] says that v holds, at one position, a
   null where the type is not nullable, a value that is not an instance of the accepted Python classes
   (regenerated table _acceptable_types; StringType accepts anything by design and is excluded), or an
   integer outside the bounds of a ranged type (regenerated from get_verifier). *)
Theorem C19_verify_rejects : forall t nullable v, damaged t nullable v -> verify t nullable v <> Ok tt.
Proof. exact verify_rejects. Qed.

(* the exact exception at the damaged position *)
Theorem C19_verify_null : forall t, verify t false PNone = Err EValue.
Proof. exact verify_null_rejected. Qed.
Theorem C19_verify_wrong_type : forall t n v classes,
  atom_like t \/ (exists e b, t = TArray e b) \/ (exists k x b, t = TMap k x b) ->
  is_none v = false -> smem (dtype_class t) nocheck_types = false ->
  slookup (dtype_class t) acceptable_types = Some classes -> isinstance v classes = false ->
  verify t n v = Err EType.
Proof. exact verify_wrong_type. Qed.
Theorem C19_verify_out_of_range : forall a n z lo hi,
  slookup (atomic_class a) ranged_types = Some (lo, hi) -> (z < lo \/ hi < z) ->
  verify (TAtom a) n (PInt z) = Err EValue.
Proof. exact verify_out_of_range. Qed.
Theorem C19_ranges_are_the_signed_widths :
  slookup "ByteType" ranged_types = Some (- 2 ^ 7, 2 ^ 7 - 1) /\
  slookup "ShortType" ranged_types = Some (- 2 ^ 15, 2 ^ 15 - 1) /\
  slookup "IntegerType" ranged_types = Some (- 2 ^ 31, 2 ^ 31 - 1) /\
  slookup "LongType" ranged_types = Some (- 2 ^ 63, 2 ^ 63 - 1).
Proof. exact ranged_types_are_the_signed_widths. Qed.

(* "out-of-range integers" for every integral type (LongType included since the repair of the finding
   verify:out-of-range-accepted:long): exactly the two's-complement range of the width is accepted *)
Theorem C19_out_of_range : forall a n z, In a [AByte; AShort; AInteger; ALong] ->
    (z < - 2 ^ int_bits a \/ 2 ^ int_bits a - 1 < z) -> verify (TAtom a) n (PInt z) = Err EValue.
Proof. exact out_of_range_all. Qed.
Theorem C19_in_range : forall a n z, In a [AByte; AShort; AInteger; ALong] ->
    - 2 ^ int_bits a <= z <= 2 ^ int_bits a - 1 -> verify (TAtom a) n (PInt z) = Ok tt.
Proof. exact in_range_all. Qed.
Example long_regression : verify (TAtom ALong) true (PInt (2 ^ 63)) = Err EValue /\
                          verify (TAtom ALong) true (PInt (2 ^ 63 - 1)) = Ok tt.
Proof. split; reflexivity. Qed.

Example damaged_example :
  damaged (TStruct [SField (lit "a") (TArray (TAtom AByte) false) true []]) true
          (PRow [lit "a"] [PList [PInt 1; PInt 128]]).
Proof.
  apply (D_row_field [SField (lit "a") (TArray (TAtom AByte) false) true []] true [PList [PInt 1; PInt 128]]
                     0%nat (SField (lit "a") (TArray (TAtom AByte) false) true []) (PList [PInt 1; PInt 128])).
  - repeat constructor. intros [].
  - reflexivity.
  - reflexivity.
  - apply (D_element _ _ _ _ (PInt 128)); [right; now left|].
    apply (D_range AByte false 128 (-128) 127); [reflexivity|right; reflexivity].
Qed.

(* ---- Rows keep their field names and values through pickling and asDict.
   [pickle_dumps]/[pickle_loads] model what the pickle module does with containers and what
   Row.__reduce__ / create_row contribute (the byte format is a black box). *)
Theorem C19_row_pickle_roundtrip : forall v : pyval, pickle_loads (pickle_dumps v) = Ok v.
Proof. exact pickle_roundtrip. Qed.
Theorem C19_row_asDict : forall names vals, NoDup names ->
  as_dict (PRow names vals) = Ok (PDict (combine (map PStr names) vals)).
Proof. exact as_dict_spec. Qed.
Theorem C19_row_asDict_recursive : forall names vals, NoDup names ->
  as_dict_conv (PRow names vals) = PDict (combine (map PStr names) (map as_dict_conv vals)).
Proof. exact as_dict_conv_spec. Qed.
Theorem C19_row_asDict_lookup : forall names vals n i, NoDup names -> List.length names = List.length vals ->
  nth_error names i = Some n -> Some (dict_get n (combine (map PStr names) vals)) = nth_error vals i.
Proof. exact dict_get_combine. Qed.

(* ---- A schema inferred from rows of supported values verifies those rows.
   "Rows generated from a type tree": [inferable t] is the shape inference can produce (every position
   nullable, no metadata, distinct field names, decimal(38,18)); [is_row_of t r] says r is a Row of supported
   values (bool, int, float, str, bytearray, Decimal, date, datetime, lists, dicts, nested Rows) of type t with
   None allowed at EVERY position except map keys.  For any number of rows, any depth, any placement of nulls:
   inference either answers exactly t or raises ValueError (empty data / a type not determined by any row);
   when it answers, the schema verifies every row. *)
Theorem C19_infer_rows_result : forall fs rows,
  inferable (TStruct fs) -> Forall (is_row_of (TStruct fs)) rows ->
  infer_schema_from_list rows = Ok (TStruct fs) \/ infer_schema_from_list rows = Err EValue.
Proof. exact infer_rows_result. Qed.

Theorem C19_infer_verifies : forall fs rows s,
  inferable (TStruct fs) -> Forall (is_row_of (TStruct fs)) rows ->
  infer_schema_from_list rows = Ok s ->
  s = TStruct fs /\ Forall (fun r => verify s true r = Ok tt) rows.
Proof. exact infer_verifies. Qed.

(* the verifier accepts every value generated from an inferable tree, at any nullable position *)
Theorem C19_verify_accepts : forall t, inferable t -> forall v n, ivalue t v -> (v = PNone -> n = true) ->
  verify t n v = Ok tt.
Proof. exact verify_ivalue. Qed.

(* ---- createDataFrame followed by collect returns rows equal to the input.
   For rows as above whose schema can be inferred, createDataFrame(rows).collect() is the input, where the only
   change is that a timezone-aware datetime is re-expressed in the local zone (same instant: [tz_local] keeps
   the UTC microseconds) -- for every placement of nulls (full since the repair of the finding
   create:null-in-array-or-map-of-struct; [long] values are 64-bit integers, see [atom_value]). *)
Theorem C19_create_collect_id : forall local fs rows s,
  inferable (TStruct fs) -> Forall (is_row_of (TStruct fs)) rows ->
  infer_schema_from_list rows = Ok s ->
  create_inferred local rows = Ok (map (tz_local local) rows).
Proof. exact create_collect_id. Qed.
(* regression: [Row(a=[Row(x=1)]), Row(a=None)], the replay of the repaired finding *)
Example create_collect_regression :
  create_inferred 0 witness_rows = Ok witness_rows /\ infer_schema_from_list witness_rows = Ok (TStruct witness_fs).
Proof. exact witness_now_created. Qed.

(* conversion to the internal representation alone never fails on such values (the repaired null timestamp) *)
Theorem C19_to_internal : forall local t v, ivalue t v -> to_internal local t v = Ok (tz_local local v).
Proof. exact to_internal_ivalue. Qed.

(* non-vacuity: the hypotheses hold for rows with nested Rows, nulls at several positions and an aware datetime *)
Example sample_hypotheses :
  inferable (TStruct sample_fs) /\ Forall (is_row_of (TStruct sample_fs)) sample_rows /\
  infer_schema_from_list sample_rows = Ok (TStruct sample_fs).
Proof. exact (conj sample_inferable (conj sample_rows_ok sample_inferred)). Qed.
Example sample_created :
  create_inferred 0 sample_rows =
    Ok [PRow [lit "a"; lit "t"] [PList [PRow [lit "x"] [PInt 1]; PNone]; PDatetime 5 (Some 0)];
        PRow [lit "a"; lit "t"] [PList []; PNone]].
Proof. vm_compute. reflexivity. Qed.

(* ---- link between the tables regenerated from sql/types.py and the constants the model is written with:
   the regular expression the hand-written matcher implements, the JSON keys written by jsonValue / read by
   fromJson, the atomic and complex type names, the unchecked / ranged verifier branches, needConversion *)
Theorem C19_tables_link :
  fixed_decimal_pattern = lit "decimal\(\s*(\d+)\s*,\s*(-?\d+)\s*\)" /\
  slookup "ArrayType" json_keys = Some ([k_type; k_elementType; k_containsNull], [k_containsNull; k_elementType]) /\
  slookup "MapType" json_keys = Some ([k_type; k_keyType; k_valueType; k_valueContainsNull],
                                      [k_keyType; k_valueContainsNull; k_valueType]) /\
  slookup "StructField" json_keys = Some ([k_name; k_type; k_nullable; k_metadata],
                                          [k_metadata; k_name; k_nullable; k_type]) /\
  slookup "StructType" json_keys = Some ([k_type; k_fields], [k_fields]).
Proof. exact tables_link. Qed.
Theorem C19_tables_link_atoms :
  (forall a, In (atomic_class a, atom_name a) atomic_type_names) /\
  List.length atomic_type_names = 13%nat /\
  map fst complex_type_names = ["ArrayType"; "MapType"; "StructType"]%string /\
  nocheck_types = ["StringType"]%string /\ plain_checked_types = [] /\
  need_conversion_const = [("DataType", false); ("DateType", false); ("TimestampType", true);
                           ("StructType", true); ("UserDefinedType", true)]%string.
Proof. exact tables_link_atoms. Qed.

(* the Python classes each SQL type accepts / each Python type is inferred as (regenerated tables, pinned) *)
Theorem C19_acceptable_table :
  acceptable_types =
    [("BooleanType", ["bool"]); ("ByteType", ["int"]); ("ShortType", ["int"]); ("IntegerType", ["int"]);
     ("LongType", ["int"]); ("FloatType", ["float"]); ("DoubleType", ["float"]); ("DecimalType", ["Decimal"]);
     ("StringType", ["str"]); ("BinaryType", ["bytearray"]); ("DateType", ["date"; "datetime"]);
     ("TimestampType", ["datetime"]); ("ArrayType", ["list"; "tuple"; "array"]); ("MapType", ["dict"]);
     ("StructType", ["tuple"; "list"; "dict"])]%string.
Proof. exact acceptable_table. Qed.
Theorem C19_type_mappings_table :
  type_mappings =
    [("NoneType", "NullType"); ("bool", "BooleanType"); ("int", "LongType"); ("float", "DoubleType");
     ("str", "StringType"); ("bytearray", "BinaryType"); ("Decimal", "DecimalType"); ("date", "DateType");
     ("datetime", "TimestampType"); ("time", "TimestampType")]%string /\
  infer_decimal = (38, 18) /\ decimal_default = (10, 0).
Proof. exact type_mappings_table. Qed.

(* sanity: the doctest inputs of _make_type_verifier *)
Example verifier_doctests :
  verify (TStruct []) true PNone = Ok tt /\
  verify (TAtom AString) true (PStr []) = Ok tt /\
  verify (TAtom ALong) true (PInt 0) = Ok tt /\
  verify (TArray (TAtom AShort) true) true (PList [PInt 0; PInt 1; PInt 2]) = Ok tt /\
  verify (TMap (TAtom AString) (TAtom AInteger) true) true (PDict []) = Ok tt /\
  verify (TStruct []) true (PTuple []) = Ok tt /\
  verify (TStruct []) true (PList []) = Ok tt /\
  verify (TStruct []) true (PList [PInt 1]) = Err EValue /\
  verify (TAtom AByte) true (PInt 12) = Ok tt /\
  verify (TAtom AByte) true (PInt 1234) = Err EValue /\
  verify (TAtom AByte) false PNone = Err EValue /\
  verify (TArray (TAtom AShort) false) true (PList [PInt 1; PNone]) = Err EValue /\
  verify (TMap (TAtom AString) (TAtom AInteger) true) true (PDict [(PNone, PInt 1)]) = Err EValue /\
  verify (TStruct [SField (lit "a") (TAtom AInteger) true []; SField (lit "b") (TAtom AString) false []]) true
         (PTuple [PInt 1; PNone]) = Err EValue.
Proof. vm_compute. repeat split. Qed.

(* sanity: the doctest inputs of Row.asDict *)
Example asdict_doctests :
  as_dict (PRow [lit "age"; lit "name"] [PInt 11; PStr (lit "Alice")])
    = Ok (PDict [(PStr (lit "age"), PInt 11); (PStr (lit "name"), PStr (lit "Alice"))]) /\
  as_dict_conv (PRow [lit "key"; lit "value"] [PInt 1; PRow [lit "age"; lit "name"] [PInt 2; PStr (lit "a")]])
    = PDict [(PStr (lit "key"), PInt 1);
             (PStr (lit "value"), PDict [(PStr (lit "age"), PInt 2); (PStr (lit "name"), PStr (lit "a"))])].
Proof. vm_compute. split; reflexivity. Qed.

(* with the same schema given explicitly (verifySchema=True) there is no converter in the path: the rows are
   verified and come back for EVERY placement of the nulls *)
Theorem C19_create_with_schema_id : forall local fs rows,
  inferable (TStruct fs) -> Forall (is_row_of (TStruct fs)) rows ->
  create_with_schema local (TStruct fs) rows = Ok (map (tz_local local) rows).
Proof. exact create_with_schema_id. Qed.

(* ---- the order of the rows does not matter: a row that by itself determines every type (anywhere in the
   list, after any number of rows whose maps/arrays are empty or hold only None) makes inference answer the
   tree -- in particular the key type of a map that an earlier row left undetermined is merged in *)
Theorem C19_infer_with_full_row : forall fs rows1 r rows2,
  inferable (TStruct fs) -> has_nulltype (TStruct fs) = false ->
  Forall (is_row_of (TStruct fs)) (rows1 ++ r :: rows2) ->
  infer_schema r = Ok (TStruct fs) ->
  infer_schema_from_list (rows1 ++ r :: rows2) = Ok (TStruct fs).
Proof. exact infer_with_full_row. Qed.
(* merging with the complete tree gives the complete tree, on either side *)
Theorem C19_merge_full : forall t, inferable t -> forall b, below b t ->
  merge_type t b = Ok t /\ merge_type b t = Ok t.
Proof. exact merge_full. Qed.

(* ---- the RDD input path (SparkSession._inferSchema: first row, then the following rows until no NullType is
   left): same answer, same rows back *)
Theorem C19_infer_rdd_result : forall fs rows, inferable (TStruct fs) -> Forall (is_row_of (TStruct fs)) rows ->
  infer_schema_rdd rows = Ok (TStruct fs) \/ infer_schema_rdd rows = Err EValue \/
  infer_schema_rdd rows = Err EStopIteration.
Proof. exact infer_rdd_result. Qed.
Theorem C19_create_rdd_id : forall local fs rows s,
  inferable (TStruct fs) -> Forall (is_row_of (TStruct fs)) rows ->
  infer_schema_rdd rows = Ok s ->
  s = TStruct fs /\ Forall (fun r => verify s true r = Ok tt) rows /\
  create_inferred_rdd local rows = Ok (map (tz_local local) rows).
Proof. exact create_rdd_id. Qed.

(* regression (rows of seeded change C19_m3): the first row's map is empty / holds only None *)
Example late_map_regression :
  infer_schema_from_list
    [PRow [lit "m"; lit "n"] [PDict [(PStr (lit "a"), PNone)]; PInt 1];
     PRow [lit "m"; lit "n"] [PDict [(PStr (lit "a"), PInt 1)]; PInt 2]]
  = Ok (TStruct [SField (lit "m") (TMap (TAtom AString) (TAtom ALong) true) true [];
                 SField (lit "n") (TAtom ALong) true []]) /\
  infer_schema_rdd
    [PRow [lit "m"; lit "n"] [PDict []; PInt 1];
     PRow [lit "m"; lit "n"] [PDict [(PInt 7, PFloat 1.5%float)]; PInt 2]]
  = Ok (TStruct [SField (lit "m") (TMap (TAtom ALong) (TAtom ADouble) true) true [];
                 SField (lit "n") (TAtom ALong) true []]).
Proof. vm_compute. split; reflexivity. Qed.

(* ---- Rows are matched to an explicit schema BY FIELD NAME, whatever order the Row lists its fields in -- and
   also when the Row has MORE fields than the schema (hypothesis: duplicate-free own names among which every name
   of the schema occurs; since fix 9c12b3b) --
   (a Row built from keyword arguments sorts them): a Row that holds under every field name the value of a valid row is verified
   and createDataFrame(rows, schema).collect() gives the values back under the right names
   (StructType._match_fields_by_name; full since the repair of the finding
   create_s:row-field-order:positional-conversion).  Nested re-ordered Rows: correspondence. *)
Theorem C19_create_with_schema_by_name : forall local fs vals names' vals',
  inferable (TStruct fs) -> is_row_of (TStruct fs) (PRow (map sf_name fs) vals) ->
  strs_eqb names' (map sf_name fs) = false -> nodupb names' = true ->
  forallb (fun n => str_mem n names') (map sf_name fs) = true ->
  mapM (row_get names' vals') (map sf_name fs) = Ok vals ->
  verify (TStruct fs) true (PRow names' vals') = Ok tt /\
  create_with_schema local (TStruct fs) [PRow names' vals'] = Ok [tz_local local (PRow (map sf_name fs) vals)].
Proof. exact create_with_schema_by_name. Qed.

(* the verifier depends on a Row only through the value found under each field name *)
Theorem C19_verify_row_by_name : forall ns vs ns' vs' fs n,
  (forall f, In f fs -> row_get ns vs (sf_name f) = row_get ns' vs' (sf_name f)) ->
  verify (TStruct fs) n (PRow ns vs) = verify (TStruct fs) n (PRow ns' vs').
Proof. exact verify_row_by_name. Qed.

Example by_name_regression_rows :
  create_with_schema 0
    (TStruct [SField (lit "b") (TAtom AString) true []; SField (lit "a") (TAtom ALong) true []])
    [PRow [lit "a"; lit "b"] [PInt 1; PStr (lit "x")]]
  = Ok [PRow [lit "b"; lit "a"] [PStr (lit "x"); PInt 1]] /\
  create_with_schema 0
    (TStruct [SField (lit "b") (TAtom ATimestamp) true []; SField (lit "a") (TAtom ALong) true []])
    [PRow [lit "a"; lit "b"] [PInt 1; PDatetime 5 None]]
  = Ok [PRow [lit "b"; lit "a"] [PDatetime 5 None; PInt 1]].
Proof. exact by_name_regression. Qed.

(* a Row with more fields than the schema keeps only the schema's fields; a schema naming a field twice takes the
   value twice; a Row whose own names contain duplicates is left as it is *)
Example extra_fields_regression :
  create_with_schema 0 (TStruct [SField (lit "a") (TAtom ALong) true []])
    [PRow [lit "a"; lit "b"] [PInt 1; PInt 2]] = Ok [PRow [lit "a"] [PInt 1]] /\
  to_internal 0 (TStruct [SField (lit "a") (TAtom ALong) true []; SField (lit "a") (TAtom ALong) true [];
                          SField (lit "b") (TAtom ALong) true []])
    (PRow [lit "a"; lit "b"] [PInt 1; PInt 2]) = Ok (PRow [lit "a"; lit "a"; lit "b"] [PInt 1; PInt 1; PInt 2]) /\
  to_internal 0 (TStruct [SField (lit "a") (TAtom ALong) true []])
    (PRow [lit "a"; lit "a"] [PInt 1; PInt 2]) = Ok (PRow [lit "a"; lit "a"] [PInt 1; PInt 2]).
Proof. vm_compute. repeat split. Qed.

(* ---- createDataFrame(rows, [names]) -- the schema argument is a list of column names (session.py since 022f1f2):
   for every inferable tree, every list of rows of it (nulls anywhere) whose schema can be inferred and every list of
   at most as many names (the own names, a permutation of them, fresh, fewer, repeated), the struct keeps the types
   of the no-schema inference, takes the given names position by position (own names for the remaining positions),
   and every row comes back with its VALUES IN THEIR ORIGINAL POSITIONS ([relabel] only replaces the names).
   Rows built from keyword arguments, Rows built positionally from a Row class and (top-level) namedtuples are this case; plain tuples
   and the RDD input path: correspondence + oracle. *)
Theorem C19_create_named_id : forall local fs rows given s,
  inferable (TStruct fs) -> Forall (is_row_of (TStruct fs)) rows ->
  (List.length given <= List.length fs)%nat ->
  infer_schema_from_list rows = Ok s ->
  exists fs', map sf_name fs' = given ++ skipn (List.length given) (map sf_name fs) /\
              map sf_ty fs' = map sf_ty fs /\
              create_named local given rows
                = Ok (TStruct fs', map (fun r => relabel (map sf_name fs') (tz_local local r)) rows).
Proof. exact create_named_id. Qed.

(* regression (022f1f2): Row(a=1, b=10) under ['b','a'] keeps 1 first; under ['v','v'] no value is lost; a plain
   tuple gives the same values *)
Example create_named_regression :
  create_named 0 [lit "b"; lit "a"] [PRow [lit "a"; lit "b"] [PInt 1; PInt 10]]
    = Ok (TStruct [SField (lit "b") (TAtom ALong) true []; SField (lit "a") (TAtom ALong) true []],
          [PRow [lit "b"; lit "a"] [PInt 1; PInt 10]]) /\
  create_named 0 [lit "v"; lit "v"] [PRow [lit "a"; lit "b"] [PInt 1; PInt 10]]
    = Ok (TStruct [SField (lit "v") (TAtom ALong) true []; SField (lit "v") (TAtom ALong) true []],
          [PRow [lit "v"; lit "v"] [PInt 1; PInt 10]]) /\
  create_named_rdd 0 [lit "b"] [PTuple [PInt 1; PInt 10]]
    = Ok (TStruct [SField (lit "b") (TAtom ALong) true []; SField (lit "_2") (TAtom ALong) true []],
          [PRow [lit "b"; lit "_2"] [PInt 1; PInt 10]]).
Proof. vm_compute. repeat split. Qed.
