(* C12 -- DataFrame projection, filter, sort, limit and union match SQL semantics.
   Only statements, each closed by [exact] of a lemma from PV.Proofs.SqlExpr / SqlSort / SqlRel.

   Model: PV.Model.SqlExpr ([eval]: the class-dispatching evaluator of sql/expressions; [sql_eval]: the
   reference SQL interpreter over typed values) and PV.Model.SqlRel (the relational operators on
   (column names, list of partitions)).  [split] is Context.parallelize's re-slicing of a collected list;
   the theorems hold for EVERY split with concat (split h l) = l ([split_law]). *)
From Coq Require Import ZArith NArith Bool String List Permutation Sorted.
From Coq Require Import PrimFloat SpecFloat FloatOps.
Require Import PV.Base.Num PV.Gen.SqlTables PV.Model.SqlExpr PV.Model.SqlRel.
Require Import PV.Proofs.SqlExpr PV.Proofs.SqlSort PV.Proofs.SqlRel.
Import ListNotations.
Open Scope Z_scope.
Open Scope list_scope.

(* ====================================================================== expressions *)

(* Every well-typed expression (arithmetic + - * / and unary minus with int -> double promotion,
   comparisons incl. int-vs-double, AND / OR / NOT, IS [NOT] NULL, between, coalesce, when/otherwise,
   alias, literals, columns; trees of ANY depth) evaluates, on every typed row, without raising, to
   exactly the value of the reference SQL interpreter, and that value has the static type.
   [wt false] is the typed fragment without the operator %  (see C12_eval_sql_full below). *)
Theorem C12_eval_sql : forall G r e t,
  row_ok G r = true -> wt false G e t = true ->
  eval (map fst G) r e = Some (sql_eval (map fst G) r e) /\
  v_has_ty (sql_eval (map fst G) r e) t = true.
Proof. exact eval_sql_typed. Qed.

(* The same statement with % admitted in the typing is FALSE of the code as it is: Python's % follows the
   sign of the divisor (-7 % 3 = 2, SQL: -1) and raises on a zero divisor (SQL: NULL).  DESIGN section 5
   lists this as outside the property's quantifier; the generators keep away from it.  On non-negative
   dividends and positive divisors the two agree. *)
Definition C12_eval_sql_full : Prop := eval_sql_with_mod.
Theorem C12_eval_sql_full_refuted : ~ C12_eval_sql_full.
Proof. exact eval_sql_with_mod_false. Qed.
Theorem C12_mod_nonneg_partial : forall a b,
  0 <= a -> 0 < b -> eval_arith AMod (SInt a) (SInt b) = Some (sql_arith AMod (SInt a) (SInt b)).
Proof. exact mod_nonneg_agree. Qed.

(* three-valued logic of the connectives (special cases of C12_eval_sql, stated on values) *)
Theorem C12_and_kleene : forall v1 v2,
  v_has_ty v1 TBool = true -> v_has_ty v2 TBool = true ->
  eval_and v1 v2 = Some (tv_val (tv_and (tv_of v1) (tv_of v2))) /\
  v_has_ty (tv_val (tv_and (tv_of v1) (tv_of v2))) TBool = true.
Proof. exact and_ok. Qed.
Theorem C12_or_kleene : forall v1 v2,
  v_has_ty v1 TBool = true -> v_has_ty v2 TBool = true ->
  eval_or v1 v2 = Some (tv_val (tv_or (tv_of v1) (tv_of v2))) /\
  v_has_ty (tv_val (tv_or (tv_of v1) (tv_of v2))) TBool = true.
Proof. exact or_ok. Qed.

(* division by zero is NULL (integer 0, 0.0 and -0.0), whatever the dividend *)
Theorem C12_div_zero_null : forall G r a b t1 t2,
  row_ok G r = true -> wt false G a t1 = true -> wt false G b t2 = true -> numeric t1 = true ->
  is_zero (sql_eval (map fst G) r b) = true ->
  eval (map fst G) r (EArith ADiv a b) = Some SNull.
Proof. exact div_zero_null. Qed.

(* nulls propagate through arithmetic and comparison, for ANY operand expressions (typed or not) *)
Theorem C12_null_propagates : forall sch r a b v1 v2,
  eval sch r a = Some v1 -> eval sch r b = Some v2 -> v1 = SNull \/ v2 = SNull ->
  (forall o, eval sch r (EArith o a b) = Some SNull) /\ (forall o, eval sch r (ECmp o a b) = Some SNull).
Proof. exact null_propagates. Qed.
Theorem C12_neg_null : forall sch r a, eval sch r a = Some SNull -> eval sch r (ENeg a) = Some SNull.
Proof. exact neg_null. Qed.

(* expressions are values: a column reference reads the cell at the position its NAME has in the schema of
   the step where it is used, wherever the column stood in earlier frames of the chain; and it has the same
   value in two frames that hold the same named cells in different column orders.  Hence re-using one
   expression object in several steps of a chain, or in both operands of a union, cannot change a result
   (the correspondence run re-uses Column objects for a third of its cases) *)
Theorem C12_column_by_name : forall sch r n i,
  nodup_names sch = true -> nth_error sch i = Some n ->
  eval sch r (ECol n) = nth_error r i.
Proof. exact column_by_name. Qed.
Theorem C12_column_reordered : forall from to r r' n,
  nodup_names from = true -> nodup_names to = true ->
  reorder_row from to r = Some r' -> mem_name n to = true ->
  eval to r' (ECol n) = eval from r (ECol n).
Proof. exact eval_reordered_column. Qed.

(* ====================================================================== relational operators *)

(* filter keeps exactly the rows whose predicate is TRUE (not FALSE, not NULL), in order, with multiplicity *)
Theorem C12_filter_true_only : forall G c d,
  cols d = map fst G -> Forall (fun r => row_ok G r = true) (collect d) -> wt false G c TBool = true ->
  exists d', filter_df c d = Some d' /\ cols d' = cols d /\
             collect d' = filter (fun r => sql_true (sql_eval (cols d) r c)) (collect d) /\
             (forall r, In r (collect d') <-> In r (collect d) /\ sql_eval (cols d) r c = SBool true).
Proof. exact filter_true_only. Qed.

(* select computes, row by row, the reference value of every item *)
Theorem C12_select_sql : forall G es ns d,
  cols d = map fst G -> Forall (fun r => row_ok G r = true) (collect d) ->
  Forall (fun e => exists t, wt false G e t = true) es -> map_opt out_name es = Some ns ->
  exists d', select es d = Some d' /\ cols d' = ns /\
             collect d' = map (fun r => map (sql_eval (cols d) r) es) (collect d).
Proof. exact select_sql. Qed.

(* withColumn replaces an existing column in place, otherwise appends *)
Theorem C12_withColumn_cols : forall n e d d',
  withColumn n e d = Some d' -> cols d' = if mem_name n (cols d) then cols d else cols d ++ [n].
Proof. exact withColumn_cols. Qed.

Theorem C12_limit_prefix : forall split, split_law split -> forall n d,
  cols (limit split n d) = cols d /\ collect (limit split n d) = firstn n (collect d).
Proof. exact limit_prefix. Qed.

Theorem C12_union_concat : forall split, split_law split -> forall d o,
  length (cols d) = length (cols o) ->
  exists d', union split d o = Some d' /\ cols d' = cols d /\ collect d' = collect d ++ collect o.
Proof. exact union_concat. Qed.

Theorem C12_unionByName_concat : forall split, split_law split -> forall d o d',
  unionByName split d o = Some d' ->
  cols d' = cols d /\
  exists rs, map_opt (reorder_row (cols o) (cols d)) (collect o) = Some rs /\ collect d' = collect d ++ rs.
Proof. exact unionByName_concat. Qed.

(* distinct: a subsequence of the input without two equal rows that represents every input row *)
Theorem C12_distinct_spec : forall split, split_law split -> forall d,
  let out := collect (distinct split d) in
  cols (distinct split d) = cols d /\
  subseq out (collect d) /\
  ForallOrdPairs (fun r1 r2 => row_eqb r2 r1 = false) out /\
  (forall r, In r (collect d) -> forallb no_nan r = true -> exists o, In o out /\ row_eqb r o = true).
Proof. exact distinct_spec. Qed.

(* dropDuplicates(subset): one row per key, rows of the input only, every key represented *)
Theorem C12_dropDuplicates_spec : forall split, split_law split -> forall ns d d',
  dropDuplicates split ns d = Some d' ->
  let kf := match ns with [] => (fun r => r) | _ => key_of (cols d) ns end in
  cols d' = cols d /\
  subseq (collect d') (collect d) /\
  ForallOrdPairs (fun r1 r2 => row_eqb (kf r2) (kf r1) = false) (collect d') /\
  (forall r, In r (collect d) -> forallb no_nan (kf r) = true ->
             exists o, In o (collect d') /\ row_eqb (kf r) (kf o) = true).
Proof. exact dropDuplicates_spec. Qed.

(* ====================================================================== sort *)

(* the lemma behind DataFrameInternal.sort: one stable pass per key, last key first, equals ONE stable
   sort by the lexicographic order -- for any number of keys, each a strict weak order on the elements *)
Theorem C12_multi_pass_is_lexicographic : forall (A : Type) (ok : A -> Prop) (lts : list (A -> A -> bool)),
  Forall (swo ok) lts -> forall l, Forall ok l -> multi_pass lts l = isort (lexn lts) l.
Proof. exact @multi_pass_lex. Qed.

(* orderBy: the result is a permutation of the input, sorted w.r.t. the lexicographic order of the keys
   (each with its own direction and null placement, see the three theorems after this one), and stable:
   rows that no key distinguishes keep their input order *)
Theorem C12_sort_spec : forall split, split_law split -> forall (ok : row -> Prop) ks d d',
  Forall (fun k => swo ok (row_lt (cols d) k)) ks -> Forall ok (collect d) ->
  sort_df split ks d = Some d' ->
  let lt := lexn (map (row_lt (cols d)) ks) in
  cols d' = cols d /\
  collect d' = isort lt (collect d) /\
  Permutation (collect d') (collect d) /\
  StronglySorted (le_of lt) (collect d') /\
  (forall z, ok z -> filter (eqv_of lt z) (collect d') = filter (eqv_of lt z) (collect d)).
Proof. exact sort_spec. Qed.

(* for keys that are well-typed int / boolean / string expressions over typed rows the strict-weak-order
   hypothesis is discharged outright *)
Theorem C12_sort_spec_typed : forall split, split_law split -> forall G ks d d',
  cols d = map fst G -> Forall (fun r => row_ok G r = true) (collect d) ->
  Forall (fun k => exists t, wt false G (fst k) t = true /\ discrete t = true) ks ->
  sort_df split ks d = Some d' ->
  let lt := lexn (map (row_lt (cols d)) ks) in
  cols d' = cols d /\
  collect d' = isort lt (collect d) /\
  Permutation (collect d') (collect d) /\
  StronglySorted (le_of lt) (collect d') /\
  (forall z, row_ok G z = true -> filter (eqv_of lt z) (collect d') = filter (eqv_of lt z) (collect d)).
Proof. exact sort_spec_typed. Qed.

(* keys of EVERY type, doubles included.  The only facts about floats used are the standard specification
   of PrimFloat.ltb -- the statement of the stdlib axiom FloatAxioms.ltb_spec, kept as an explicit premise
   so that the theorem itself uses no axiom -- and that no key value is NaN *)
Theorem C12_sort_spec_all_types :
  (forall x y : float, PrimFloat.ltb x y = SFltb (Prim2SF x) (Prim2SF y)) ->
  forall split, split_law split -> forall G ks d d',
  cols d = map fst G ->
  Forall (fun r => row_ok G r = true /\ keys_not_nan (cols d) ks r) (collect d) ->
  Forall (fun k => exists t, wt false G (fst k) t = true) ks ->
  sort_df split ks d = Some d' ->
  let lt := lexn (map (row_lt (cols d)) ks) in
  cols d' = cols d /\
  collect d' = isort lt (collect d) /\
  Permutation (collect d') (collect d) /\
  StronglySorted (le_of lt) (collect d') /\
  (forall z, row_ok G z = true -> keys_not_nan (cols d) ks z ->
             filter (eqv_of lt z) (collect d') = filter (eqv_of lt z) (collect d)).
Proof. exact sort_spec_typed_all. Qed.

(* orderBy with well-typed keys over typed rows never raises *)
Theorem C12_sort_total : forall split, split_law split -> forall G ks d,
  cols d = map fst G -> Forall (fun r => row_ok G r = true) (collect d) ->
  Forall (fun k => exists t, wt false G (fst k) t = true) ks ->
  exists d', sort_df split ks d = Some d'.
Proof. exact sort_typed_total. Qed.

(* the public calling conventions of sort / orderBy (DataFrame._sort_cols): `ascending` absent or true leaves
   the keys as given -- a key that carries an explicit ordering keeps it --, false makes every key
   DESC NULLS LAST, a list does so flag by flag; the resulting key list is what C12_sort_spec* speak about *)
Theorem C12_sort_calling_convention : forall ks,
  sort_cols ks AscAbsent = ks /\ sort_cols ks (AscScalar true) = ks /\
  sort_cols ks (AscScalar false) = map desc_of ks /\
  (forall bs, length bs = length ks -> forall i k, nth_error ks i = Some k ->
     exists b, nth_error bs i = Some b /\
               nth_error (sort_cols ks (AscList bs)) i = Some (if b then k else desc_of k)) /\
  (forall k, fst (desc_of k) = fst k /\ sql_ascending (snd (desc_of k)) = false /\
             sql_nulls_first (snd (desc_of k)) = false /\
             dir_ascending (snd (desc_of k)) = false /\ dir_nulls_smaller (snd (desc_of k)) = true).
Proof. exact sort_cols_meaning. Qed.

(* what one key's order is: the regenerated sort_order strings and membership lists give every SortOrder
   wrapper its SQL direction and null placement ... *)
Theorem C12_sort_direction_table : forall d,
  dir_ascending d = sql_ascending d /\
  dir_nulls_smaller d = Bool.eqb (sql_ascending d) (sql_nulls_first d).
Proof. exact dir_table. Qed.
(* ... a NULL key comes before (NULLS FIRST) or after (NULLS LAST) every non-NULL key ... *)
Theorem C12_sort_null_placement : forall cs e d a b,
  keyv cs e a = SNull -> keyv cs e b <> SNull ->
  row_lt cs (e, d) a b = sql_nulls_first d /\ row_lt cs (e, d) b a = negb (sql_nulls_first d).
Proof. exact null_placement. Qed.
(* ... and two non-NULL keys are ordered by < (ASC) or > (DESC) *)
Theorem C12_sort_value_order : forall cs e d a b,
  keyv cs e a <> SNull -> keyv cs e b <> SNull ->
  row_lt cs (e, d) a b =
  if sql_ascending d then val_lt (keyv cs e a) (keyv cs e b) else val_lt (keyv cs e b) (keyv cs e a).
Proof. exact value_order. Qed.

(* ====================================================================== typed frames stay typed,
   so that the statements above apply to every step of a chain *)
Theorem C12_select_typed : forall G es ts ns d d',
  cols d = map fst G -> Forall (fun r => row_ok G r = true) (collect d) ->
  Forall2 (fun e t => wt false G e t = true) es ts -> map_opt out_name es = Some ns ->
  select es d = Some d' ->
  cols d' = map fst (combine ns ts) /\ Forall (fun r => row_ok (combine ns ts) r = true) (collect d').
Proof. exact select_typed. Qed.

Theorem C12_rows_preserved : forall split, split_law split -> forall (P : row -> Prop) d,
  Forall P (collect d) ->
  (forall c d', filter_df c d = Some d' -> Forall P (collect d')) /\
  (forall ks d', sort_df split ks d = Some d' -> Forall P (collect d')) /\
  (forall n, Forall P (collect (limit split n d))) /\
  Forall P (collect (distinct split d)) /\
  (forall ns d', dropDuplicates split ns d = Some d' -> Forall P (collect d')).
Proof. exact rows_preserved. Qed.

(* ====================================================================== partition independence *)

(* what collect() and the column list show after ANY operator chain depends only on the column lists and
   collect() of the two input frames -- not on how their rows are partitioned, nor on how parallelize
   re-slices intermediate results *)
Theorem C12_rel_partition_indep : forall s1 s2, split_law s1 -> split_law s2 ->
  forall ops t2 t2' d d',
  view d = view d' -> view t2 = view t2' ->
  option_map view (run_ops s1 t2 ops d) = option_map view (run_ops s2 t2' ops d').
Proof. exact rel_partition_indep. Qed.

Theorem C12_repartition_indep : forall s1 s2, split_law s1 -> split_law s2 ->
  forall ops cs cs2 (ps ps' qs qs' : list (list row)),
  concat ps = concat ps' -> concat qs = concat qs' ->
  option_map view (run_ops s1 (mkdf cs2 qs) ops (mkdf cs ps)) =
  option_map view (run_ops s2 (mkdf cs2 qs') ops (mkdf cs ps')).
Proof. exact repartition_indep. Qed.

(* ====================================================================== non-vacuity / sanity *)
Definition nA : name := [97%N].   (* "a" *)
Definition nX : name := [120%N].  (* "x" *)
Definition nB : name := [98%N].   (* "b" *)
Definition G0 : tenv := [(nA, TInt); (nX, TDbl); (nB, TBool)].
Definition r0 : row := [SInt 1; SDbl 1.5%float; SBool false].
Definition r1 : row := [SNull; SDbl 0%float; SNull].
Definition r2 : row := [SInt 3; SNull; SBool true].
Definition r3 : row := [SInt 1; SDbl (-0)%float; SBool true].

(* the repaired defects: 1 < 1.5 is TRUE, false AND null is FALSE, -(null) is NULL; x / 0 is NULL *)
Example ex_typed :
  row_ok G0 r0 = true /\ row_ok G0 r1 = true /\
  wt false G0 (ECmp CLt (ECol nA) (ECol nX)) TBool = true /\
  eval (map fst G0) r0 (ECmp CLt (ECol nA) (ECol nX)) = Some (SBool true) /\
  wt false G0 (ENot (EAnd (ECol nB) (ELit SNull))) TBool = true /\
  eval (map fst G0) r0 (ENot (EAnd (ECol nB) (ELit SNull))) = Some (SBool true) /\
  eval (map fst G0) r1 (EAnd (ECol nB) (ELit (SBool true))) = Some SNull /\
  eval (map fst G0) r1 (ENeg (ECol nA)) = Some SNull /\
  wt false G0 (EArith ADiv (ECol nA) (ECol nX)) TDbl = true /\
  eval (map fst G0) r1 (EArith ADiv (ELit (SInt 5)) (ECol nX)) = Some SNull /\
  eval (map fst G0) r3 (EArith ADiv (ECol nA) (ECol nX)) = Some SNull /\
  eval (map fst G0) r0 (EBetween (ECol nA) (ELit (SInt 1)) (ECol nX)) = Some (SBool true) /\
  eval (map fst G0) r1 (ECase [(ECol nB, ELit (SInt 1))] (Some (ECoalesce [ECol nA; ELit (SInt 7)]))) = Some (SInt 7).
Proof. vm_compute. repeat split. Qed.

Definition one (h : nat) (l : list row) : list (list row) := [l].
Definition two (h : nat) (l : list row) : list (list row) := [firstn 1 l; skipn 1 l].
Example ex_split_laws : split_law one /\ split_law two.
Proof.
  split; intros h l; unfold one, two; cbn [concat]; [apply app_nil_r|].
  rewrite app_nil_r. apply firstn_skipn.
Qed.

Definition d0 : df := mkdf (map fst G0) [[r0; r1]; []; [r2; r3]].
Definition d0' : df := mkdf (map fst G0) [[r0]; [r1; r2; r3]].

(* ORDER BY a DESC NULLS FIRST, b ASC NULLS LAST: null first, then 3, then the two rows with a = 1 ordered
   by b (false before true); filter keeps only TRUE; two partitionings, two re-slicings: same outcome *)
Example ex_sort_filter :
  Forall (fun r => row_ok G0 r = true) (collect d0) /\
  Forall (fun k => exists t, wt false G0 (fst k) t = true /\ discrete t = true)
         [(ECol nA, DDescNF); (ECol nB, DAscNL)] /\
  option_map collect (sort_df one [(ECol nA, DDescNF); (ECol nB, DAscNL)] d0) = Some [r1; r2; r0; r3] /\
  option_map collect (sort_df two [(ECol nA, DAsc); (ECol nB, DDesc)] d0) = Some [r1; r3; r0; r2] /\
  option_map collect (filter_df (ECol nB) d0) = Some [r2; r3] /\
  option_map collect (filter_df (ENot (ECol nB)) d0) = Some [r0] /\
  view d0 = view d0' /\
  option_map view (run_ops one d0 [OSort [(ECol nX, DDesc)] AscAbsent; OLimit 2; OUnion [OFilter (ECol nB)]; ODistinct] d0) =
  option_map view (run_ops two d0' [OSort [(ECol nX, DDesc)] AscAbsent; OLimit 2; OUnion [OFilter (ECol nB)]; ODistinct] d0') /\
  option_map collect (run_ops one d0 [OSort [(ECol nX, DDesc)] AscAbsent; OLimit 2; OUnion [OFilter (ECol nB)]; ODistinct] d0)
    = Some [r0; r1; r2; r3].
Proof.
  split; [repeat constructor|]. split.
  - repeat constructor; [exists TInt | exists TBool]; split; reflexivity.
  - vm_compute. repeat split.
Qed.

(* ORDER BY x DESC (nulls last) on the double column: 1.5, then 0.0 and -0.0 (equal: input order), then null;
   the hypotheses of C12_sort_spec_all_types hold of these rows *)
Example ex_sort_double :
  Forall (fun r => row_ok G0 r = true /\ keys_not_nan (cols d0) [(ECol nX, DDesc)] r) (collect d0) /\
  Forall (fun k => exists t, wt false G0 (fst k) t = true) [(ECol nX, DDesc)] /\
  option_map collect (sort_df one [(ECol nX, DDesc)] d0) = Some [r0; r1; r3; r2].
Proof.
  split; [|split; [repeat constructor; exists TDbl; reflexivity | vm_compute; reflexivity]].
  repeat (constructor; [split; [reflexivity | constructor; [vm_compute; try exact I; discriminate | constructor]]|]).
  constructor.
Qed.

(* orderBy(a.desc_nulls_first(), b.asc_nulls_last(), ascending=[True, False]): the first key keeps its own
   ordering, the second becomes DESC NULLS LAST *)
Example ex_sort_flags :
  sort_cols [(ECol nA, DDescNF); (ECol nB, DAscNL)] (AscList [true; false]) = [(ECol nA, DDescNF); (ECol nB, DDesc)] /\
  option_map collect (step_simple one (OSort [(ECol nA, DDescNF); (ECol nB, DAscNL)] (AscList [true; false])) d0)
    = Some [r1; r2; r3; r0] /\
  option_map collect (step_simple one (OSort [(ECol nA, DAscNL)] (AscScalar false)) d0) = Some [r2; r0; r3; r1].
Proof. vm_compute. repeat split. Qed.

(* filter(b) . drop(a) . filter(b) with one predicate: the second use reads b at its NEW position;
   UNION is positional: the names of the second operand are irrelevant *)
Example ex_reuse_and_positional_union :
  option_map collect (run_ops one d0 [OFilter (ECol nB); ODrop [nA]; OFilter (ECol nB)] d0)
    = Some [[SNull; SBool true]; [SDbl (-0)%float; SBool true]] /\
  option_map view (union one (mkdf [nA; nB] [[[SInt 1; SInt 2]]]) (mkdf [nB; nA] [[[SInt 30; SInt 3]]]))
    = Some ([nA; nB], [[SInt 1; SInt 2]; [SInt 30; SInt 3]]) /\
  option_map view (unionByName one (mkdf [nA; nB] [[[SInt 1; SInt 2]]]) (mkdf [nB; nA] [[[SInt 30; SInt 3]]]))
    = Some ([nA; nB], [[SInt 1; SInt 2]; [SInt 3; SInt 30]]).
Proof. vm_compute. repeat split. Qed.
