(* C15 -- a DataFrame's schema, column list and rows always agree. *)
From Coq Require Import String ZArith NArith List Bool.
Require Import PV.Base.Val PV.Model.Schema PV.Proofs.Schema.
Import ListNotations.
Open Scope Z_scope.

Theorem C15_count_collect : forall f parts,
  concat parts = rows f -> rdd_count parts = Z.of_nat (length (collect f)).
Proof. exact count_collect_parts. Qed.
