(* C15 -- a DataFrame's schema, column list and rows always agree.

   wf f :=  schema.names (the StructType.names list) = columns ([fld.name for fld in schema.fields])
         /\ every collected Row has __fields__ = columns and exactly that many values.
   Duplicate column names are allowed (sequence equality).  Every statement is about the model
   of coq/Model/Schema.v, for ALL frames / arguments / programs; only statements here, each closed by
   [exact] of a lemma from PV.Proofs.Schema*.

   Reading: "tables" handed to createDataFrame are rectangular.  With an explicit StructType the
   implementation verifies this itself (no hypothesis below); with a list of column names it does
   not, so [C15_wf_create_names] carries [rectangular data] and [create_ragged_not_wf] shows the
   hypothesis is needed (outside the property's quantifier, see design.d/C15.md). *)
From Coq Require Import String ZArith NArith List Bool.
Require Import PV.Base.Val PV.Model.Schema PV.Proofs.Schema PV.Proofs.SchemaOps PV.Proofs.SchemaChain PV.Proofs.SchemaCounts.
Import ListNotations.
Open Scope Z_scope.
Close Scope string_scope.

(* ---- createDataFrame, range ---- *)
Theorem C15_wf_create_struct : forall names data p c,
  create true names data = Ok p -> wf (fst (finish c p)).
Proof. exact frame_create_struct. Qed.
Theorem C15_wf_create_names : forall names data p c,
  rectangular data -> create false names data = Ok p -> wf (fst (finish c p)).
Proof. exact frame_create_names. Qed.
(* rows that carry their own field names: Row objects ([is_row] = true) or namedtuples, renamed by a
   list of names or put under a StructType (same names, a permutation, a subset, repeats).  Row objects
   under a StructType need duplicate-free own names: keyword Rows and namedtuples always have them;
   Row('a','a')(1,2) does not and is left unchanged by _match_fields_by_name (Example below). *)
Theorem C15_wf_create_rows : forall is_row by_struct own names data p c,
  (by_struct = true -> is_row = true -> nodup_names own = true) ->
  create_rows is_row by_struct own names data = Ok p -> wf (fst (finish c p)).
Proof. exact frame_create_rows. Qed.
(* explicit StructType with nullable=False / metadata / IntegerType fields *)
Theorem C15_wf_create_strict : forall names strict data p c,
  create_strict names strict data = Ok p -> wf (fst (finish c p)).
Proof. exact frame_create_strict. Qed.
Theorem C15_wf_range : forall a b s p c, range_frame a b s = Ok p -> wf (fst (finish c p)).
Proof. exact frame_range. Qed.

(* ---- every operation preserves agreement ---- *)
Theorem C15_wf_preserved_select : forall f cols p c, wf f -> select f cols = Ok p -> wf (fst (finish c p)).
Proof. exact frame_select. Qed.
Theorem C15_wf_preserved_withColumn : forall f n e p c, wf f -> with_column f n e = Ok p -> wf (fst (finish c p)).
Proof. exact frame_with_column. Qed.
Theorem C15_wf_preserved_drop : forall f cols p c, wf f -> drop f cols = Ok p -> wf (fst (finish c p)).
Proof. exact frame_drop. Qed.
Theorem C15_wf_preserved_rename : forall f old new p c, wf f -> rename f old new = Ok p -> wf (fst (finish c p)).
Proof. exact frame_rename. Qed.
Theorem C15_wf_preserved_toDF : forall f names p c, wf f -> to_df f names = Ok p -> wf (fst (finish c p)).
Proof. exact frame_to_df. Qed.
(* all six keyed join types, any key list, duplicate column names on either side, f = g allowed *)
Theorem C15_wf_preserved_join : forall f g how on p c,
  wf f -> wf g -> join f g how on = Ok p -> wf (fst (finish c p)).
Proof. exact frame_join. Qed.
Theorem C15_wf_preserved_crossJoin : forall f g p c, wf f -> wf g -> cross_join f g = Ok p -> wf (fst (finish c p)).
Proof. exact frame_cross_join. Qed.
Theorem C15_wf_preserved_union : forall f g p c, wf f -> wf g -> union f g = Ok p -> wf (fst (finish c p)).
Proof. exact frame_union. Qed.
Theorem C15_wf_preserved_unionByName : forall f g p c, wf f -> union_by_name f g = Ok p -> wf (fst (finish c p)).
Proof. exact frame_union_by_name. Qed.
(* groupBy/agg, df.agg, select(aggregates) and pivot (given or computed values): the schema's
   generated names equal the names of every output Row -- no hypothesis on the input frame *)
Theorem C15_wf_agg_pivot : forall f keys pivot aggs p c,
  grouped_agg f keys pivot aggs = Ok p -> wf (fst (finish c p)).
Proof. exact frame_grouped_agg. Qed.
Theorem C15_wf_preserved_sort : forall f keys p c, wf f -> sort f keys = Ok p -> wf (fst (finish c p)).
Proof. exact frame_sort. Qed.
Theorem C15_wf_preserved_limit : forall f n p c, wf f -> limit f n = Ok p -> wf (fst (finish c p)).
Proof. exact frame_limit. Qed.
Theorem C15_wf_preserved_distinct : forall f p c, wf f -> distinct f = Ok p -> wf (fst (finish c p)).
Proof. exact frame_distinct. Qed.
Theorem C15_wf_preserved_dropDuplicates : forall f cols p c,
  wf f -> drop_duplicates f cols = Ok p -> wf (fst (finish c p)).
Proof. exact frame_drop_duplicates. Qed.
(* for every per-element sampler decision (Bernoulli: 0/1, Poisson: any multiplicity) *)
Theorem C15_wf_preserved_sample : forall mult f p c, wf f -> sample_with mult f = Ok p -> wf (fst (finish c p)).
Proof. exact frame_sample. Qed.
Theorem C15_wf_preserved_repartition : forall f cols p c, wf f -> repartition f cols = Ok p -> wf (fst (finish c p)).
Proof. exact frame_repartition. Qed.

(* ---- every DataFrame reachable by ANY program (any length, any sharing of intermediate frames,
        the frames built before a step raises included) is well-formed ---- *)
Theorem C15_wf_chain : forall prog c,
  Forall instr_rect prog -> Forall wf (fst (run_prog [] c prog)).
Proof. exact wf_chain_lemma. Qed.

(* what the check observes of such a frame *)
Theorem C15_wf_observed : forall f, wf f ->
  snames f = columns f /\
  (forall r, In r (collect f) -> fst r = columns f /\ length (snd r) = length (columns f)).
Proof. exact wf_observed. Qed.

(* ---- count() = number of collected rows, for every partitioning of the frame's RDD ---- *)
Theorem C15_count_collect : forall f parts,
  concat parts = rows f -> rdd_count parts = Z.of_nat (length (collect f)).
Proof. exact count_collect_parts. Qed.
(* df.rdd is the RDD collect() reads: same rows, each carrying the frame's field names *)
Theorem C15_rdd_same_rows : forall f parts, wf f -> concat parts = rows f ->
  concat parts = collect f /\ Forall (row_ok (columns f)) (concat parts).
Proof. exact rdd_same_rows_parts. Qed.

(* ---- name-level effect of the operations whose defects were repaired ---- *)
(* semi / anti joins declare only the key and the other left columns (fix 7a47d84) *)
Theorem C15_semi_anti_columns : forall f g how on lon ron pfs,
  (how = JSemi \/ how = JAnti) ->
  mapM (first_named (fields f)) on = Ok lon -> mapM (first_named (fields g)) on = Ok ron ->
  merge_schemas f g how on = Ok pfs ->
  map pname pfs = on ++ map fname (filter (not_in lon) (fields f)).
Proof. exact semi_anti_columns. Qed.
Theorem C15_join_columns : forall f g how on lon ron p,
  mapM (first_named (fields f)) on = Ok lon -> mapM (first_named (fields g)) on = Ok ron ->
  join f g how on = Ok p -> map pname (p_fields p) = join_names f g how on lon ron.
Proof. exact join_columns. Qed.
(* withColumn replaces in place or appends (fix aaa3884) *)
Theorem C15_withColumn_columns : forall f n e p,
  wf f -> with_column f n e = Ok p ->
  map pname (p_fields p) = if mem_name n (snames f) then columns f else columns f ++ [n].
Proof. exact with_column_columns. Qed.
(* generated aggregate / pivot column names *)
Theorem C15_agg_columns : forall f keys pivot aggs p pvals,
  pivot_values f pivot = Ok pvals -> grouped_agg f keys pivot aggs = Ok p ->
  map pname (p_fields p) = map expr_str keys ++ stat_names_schema pvals aggs.
Proof. exact agg_columns. Qed.

(* ---- row counts: projections keep them, union adds, crossJoin multiplies, limit truncates, and every
        left row is in exactly one of the left-semi and the left-anti join ---- *)
Theorem C15_count_select : forall f cols p, select f cols = Ok p -> length (p_rows p) = length (rows f).
Proof. exact select_count. Qed.
Theorem C15_count_union : forall f g p, union f g = Ok p -> length (p_rows p) = (length (rows f) + length (rows g))%nat.
Proof. exact union_count. Qed.
Theorem C15_count_crossJoin : forall f g p,
  cross_join f g = Ok p -> length (p_rows p) = (length (rows f) * length (rows g))%nat.
Proof. exact cross_join_count. Qed.
Theorem C15_count_limit : forall f n p, limit f n = Ok p -> length (p_rows p) = Nat.min (Z.to_nat n) (length (rows f)).
Proof. exact limit_count. Qed.
Theorem C15_semi_anti_partition : forall f g on ps pa,
  join f g JSemi on = Ok ps -> join f g JAnti on = Ok pa ->
  (length (p_rows ps) + length (p_rows pa))%nat = length (rows f).
Proof. exact semi_anti_partition. Qed.

(* ---- non-vacuity / sanity ---- *)
Definition kn : name := s2n "k".
Definition vn : name := s2n "v".
Definition tA : instr := ICreate false [kn; vn] [[VInt 1; VInt 10]; [VInt 2; VInt 20]; [VInt 2; VNone]].
Definition tB : instr := ICreate true [kn; vn] [[VInt 2; VInt 5]; [VInt 3; VInt 7]].
Definition cols_of (r : list frame * option string) : list (list name) * option string :=
  (map columns (fst r), snd r).

(* the hypotheses of C15_wf_chain are satisfiable by a program with a duplicate-name join, a self
   join, generated aggregate names and a pivot; the columns are the expected ones *)
Example chain_example :
  Forall instr_rect [tA; tB; IJoin 0 1 JFull [kn]; IJoin 2 2 JInner [kn];
                     IAgg 2 [ECol kn] None [mkAgg ASum (Some (EAdd (ECol kn) (ELit (VInt 1)))) None; mkAgg ACount None None];
                     IAgg 0 [ECol kn] (Some (vn, None)) [mkAgg ACount (Some (ECol vn)) None; mkAgg AMax (Some (ECol vn)) (Some (s2n "m"))]]
  /\ cols_of (run_prog [] 1%N [tA; tB; IJoin 0 1 JFull [kn]; IJoin 2 2 JInner [kn];
                     IAgg 2 [ECol kn] None [mkAgg ASum (Some (EAdd (ECol kn) (ELit (VInt 1)))) None; mkAgg ACount None None];
                     IAgg 0 [ECol kn] (Some (vn, None)) [mkAgg ACount (Some (ECol vn)) None; mkAgg AMax (Some (ECol vn)) (Some (s2n "m"))]])
     = ([[kn; vn]; [kn; vn]; [kn; vn; vn]; [kn; vn; vn; vn; vn];
         [kn; s2n "sum((k + 1))"; s2n "count(1)"];
         [kn; s2n "10_count(v)"; s2n "10_m"; s2n "20_count(v)"; s2n "20_m"]], None).
Proof.
  split.
  - repeat constructor. exists 2%nat. repeat constructor.
  - vm_compute. reflexivity.
Qed.

(* left-semi join: two of the three left rows survive, with the left columns only *)
Example semi_example :
  map (fun f => (columns f, length (rows f))) (fst (run_prog [] 1%N [tA; tB; IJoin 0 1 JSemi [kn]; IJoin 0 1 JAnti [kn]]))
  = [([kn; vn], 3%nat); ([kn; vn], 2%nat); ([kn; vn], 2%nat); ([kn; vn], 1%nat)].
Proof. vm_compute. reflexivity. Qed.

(* Row(a=1, b=2) under StructType(a), StructType(b, a), StructType(a, a, b); renamed by ['x'] *)
Example create_rows_example :
  let an := s2n "a" in let bn := s2n "b" in
  map (fun i => match step [] i with Ok p => Some (map pname (p_fields p), p_names p, p_rows p) | Err _ => None end)
      [ICreateRows true true [an; bn] [an] [[VInt 1; VInt 2]];
       ICreateRows true true [an; bn] [bn; an] [[VInt 1; VInt 2]];
       ICreateRows true true [an; bn] [an; an; bn] [[VInt 1; VInt 2]];
       ICreateRows true false [an; bn] [s2n "x"] [[VInt 1; VInt 2]];
       ICreateRows true true [an; bn] [s2n "x"] [[VInt 1; VInt 2]]]
  = [Some ([an], [an], [([an], [VInt 1])]);
     Some ([bn; an], [bn; an], [([bn; an], [VInt 2; VInt 1])]);
     Some ([an; an; bn], [an; an; bn], [([an; an; bn], [VInt 1; VInt 1; VInt 2])]);
     Some ([s2n "x"; bn], [s2n "x"; bn], [([s2n "x"; bn], [VInt 1; VInt 2])]);
     None].
Proof. vm_compute. reflexivity. Qed.
(* outside the generators: a Row whose OWN names repeat is handed on unchanged, 2 values under 1 name *)
Example create_rows_dup_own_not_wf :
  exists p, create_rows true true [kn; kn] [kn] [[VInt 1; VInt 2]] = Ok p /\ ~ wf_pre p.
Proof.
  eexists. split; [vm_compute; reflexivity|].
  intros [_ H]. simpl in H. inversion H as [|? ? [_ Hl] _]; subst. simpl in Hl. discriminate.
Qed.

(* a ragged list with a list of names is not verified by createDataFrame: the second Row has two
   field names and one value (outside the quantifier "small tables"; this is why
   C15_wf_create_names asks for [rectangular data]) *)
Example create_ragged_not_wf :
  exists p, create false [kn; vn] [[VInt 1; VInt 2]; [VInt 3]] = Ok p /\
            p_rows p = [([kn; vn], [VInt 1; VInt 2]); ([kn; vn], [VInt 3])] /\ ~ wf_pre p.
Proof.
  eexists. split; [vm_compute; reflexivity|]. split; [reflexivity|].
  intros [_ H]. simpl in H. inversion H as [|? ? _ H2]; subst. inversion H2 as [|? ? [_ Hl] _]; subst.
  simpl in Hl. discriminate.
Qed.
