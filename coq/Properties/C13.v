(* C13 -- DataFrame joins on column names match relational join semantics.
   Only statements, each closed by [exact] of a lemma from PV.Proofs.SqlJoin*.

   Model: PV.Model.SqlJoin (df_join / df_cross_join = DataFrame.join / crossJoin down to the RDD join
   family, with the how -> field-group / padding / RDD-join tables regenerated into PV.Gen.Joins).
   Reference: PV.Model.SqlJoinRef.nested_loop (textbook nested loop, SQL key equality, columns by name).
   Quantified over ALL tables (any number of rows and columns, any cells), any number of key columns, any
   partitioning of either side, every spelling of the join type that JOIN_TYPES accepts. *)
From Coq Require Import ZArith NArith List Bool Permutation.
Require Import PV.Gen.Joins PV.Model.SqlJoin PV.Model.SqlJoinRef PV.Proofs.SqlJoinKeyed PV.Proofs.SqlJoin.
Import ListNotations.
Open Scope Z_scope.

(* ---- join_rows: for non-null keys the rows are, as a multiset, those of the nested-loop reference
        (inner, left, right, full, leftsemi, leftanti), for any partitioning of either side *)
Theorem C13_join_rows : forall how_str h on l r,
  lookup_how (normalise_how how_str) join_types = Some h -> h <> CROSS_JOIN ->
  wf_table l -> wf_table r -> shared on (t_schema l) (t_schema r) ->
  non_null_keys on (t_rows l) -> non_null_keys on (t_rows r) ->
  exists s rows, df_join l r (OnList on) how_str = Ok (s, rows) /\
    Permutation rows (nested_loop h on (t_schema l) (t_schema r) (t_rows l) (t_rows r)).
Proof. exact df_join_rows. Qed.

(* `on` given as a single column name *)
Theorem C13_join_on_string : forall l r c how_str,
  df_join l r (OnStr c) how_str = df_join l r (OnList [c]) how_str.
Proof. exact df_join_on_str. Qed.

(* crossJoin: exactly the nested loop over all pairs (even in order), all columns of both sides *)
Theorem C13_cross_join_rows : forall l r,
  df_cross_join l r
  = Ok (t_schema l ++ t_schema r, nested_loop CROSS_JOIN [] (t_schema l) (t_schema r) (t_rows l) (t_rows r)).
Proof. exact cross_join_eq. Qed.
Theorem C13_join_how_cross : forall l r how_str,
  lookup_how (normalise_how how_str) join_types = Some CROSS_JOIN ->
  df_join l r OnNone how_str = df_cross_join l r.
Proof. exact df_join_cross. Qed.

(* ---- join_columns: the declared columns are the keys once, then the remaining left columns, then
        (except semi/anti) the remaining right columns; and every row carries exactly those fields *)
Theorem C13_join_columns : forall how_str h on l r,
  lookup_how (normalise_how how_str) join_types = Some h -> h <> CROSS_JOIN ->
  wf_table l -> wf_table r -> shared on (t_schema l) (t_schema r) ->
  exists s rows, df_join l r (OnList on) how_str = Ok (s, rows) /\
    names_of s = on ++ rest_names on (t_schema l)
                    ++ (if is_semi_anti h then [] else rest_names on (t_schema r)) /\
    Forall (fun x => row_fields x = names_of s /\ length (row_values x) = length (names_of s)) rows.
Proof. exact df_join_columns. Qed.

Theorem C13_cross_join_columns : forall l r, wf_table l -> wf_table r ->
  exists s rows, df_cross_join l r = Ok (s, rows) /\
    names_of s = names_of (t_schema l) ++ names_of (t_schema r) /\
    Forall (fun x => row_fields x = names_of s /\ length (row_values x) = length (names_of s)) rows.
Proof. exact cross_join_columns. Qed.

(* the rows agree with the declared schema also for tables with DUPLICATE column names on a side (the
   code then selects columns by bound-field identity): no distinctness hypothesis here *)
Theorem C13_rows_match_schema : forall how_str h on l r,
  lookup_how (normalise_how how_str) join_types = Some h -> h <> CROSS_JOIN ->
  forallb (fun c => name_mem c (names_of (t_schema l))) on
  && forallb (fun c => name_mem c (names_of (t_schema r))) on = true ->
  Forall (fun x => length (row_values x) = length (t_schema l)) (t_rows l) ->
  Forall (fun x => length (row_values x) = length (t_schema r)) (t_rows r) ->
  exists s rows, df_join l r (OnList on) how_str = Ok (s, rows) /\
    Forall (fun x => row_fields x = names_of s /\ length (row_values x) = length (names_of s)) rows.
Proof. exact df_join_rows_match_schema. Qed.

(* ---- join_partition_indep: the result depends only on the concatenation of each side's partitions *)
Theorem C13_join_partition_indep : forall ls rs Lp Lp' Rp Rp' on how_str,
  concat Lp = concat Lp' -> concat Rp = concat Rp' ->
  df_join (ls, Lp) (rs, Rp) on how_str = df_join (ls, Lp') (rs, Rp') on how_str.
Proof. exact df_join_partition_indep. Qed.
Theorem C13_cross_join_partition_indep : forall ls rs Lp Lp' Rp Rp',
  concat Lp = concat Lp' -> concat Rp = concat Rp' ->
  df_cross_join (ls, Lp) (rs, Rp) = df_cross_join (ls, Lp') (rs, Rp').
Proof. exact df_cross_join_partition_indep. Qed.

(* ---- evaluating the same joined DataFrame again (collect, count, collect, rdd.collect, a derived filter or
        select, toLocalIterator ...).  DEFINITIONAL in the model: the joined DataFrame is the value [df_join ..],
        actions are pure and hand the object on unchanged, so the outcome of an action does not depend on the
        actions run before it and every evaluation sees the rows of C13_join_rows.  That the IMPLEMENTATION has
        this property (no state drained by the first evaluation) is not proved here; the correspondence run and
        the oracle evaluate every joined DataFrame seven times on the same object. *)
Theorem C13_reevaluation_history_free : forall j pre a,
  run_session j (pre ++ [a]) = run_session j pre ++ [snd (run_action j a)].
Proof. exact run_session_history_free. Qed.
Theorem C13_reevaluation_outcomes : forall j acts o,
  In o (run_session j acts) ->
  o = ORows j \/ o = OCount (match j with Ok (_, rows) => Ok (length rows) | Err e => Err e end).
Proof. exact run_session_outcomes. Qed.

(* ---- the RDD join family under the DataFrame join (rdd.py), for any key type with a decidable
        equality and any values: each method is, as a multiset, its nested loop over the pair lists *)
Theorem C13_rdd_join_family : forall (K V W : Type) (keqb : K -> K -> bool),
  (forall a b, keqb a b = true <-> a = b) ->
  forall m (xs : list (K * V)) (ys : list (K * W)),
  Permutation (rdd_join_by keqb m xs ys) (nl_by keqb m xs ys).
Proof. exact rdd_join_family. Qed.

(* ---- the regenerated join-type tables: every constant is accepted by JOIN_TYPES under its own name,
        every JOIN_TYPES key resolves to its entry, and every join type has an RDD join *)
Theorem C13_canonical_spelling : forall h, lookup_how (normalise_how (how_name h)) join_types = Some h.
Proof. exact canonical_spelling. Qed.
Theorem C13_join_types_resolve : forall k h,
  In (k, h) join_types -> lookup_how (normalise_how k) join_types = Some h.
Proof. exact join_types_resolve. Qed.
Theorem C13_every_how_has_rdd_join : forall h, exists m, rdd_method h = Some m.
Proof. exact rdd_method_exists. Qed.

(* ---- errors are values: what DataFrame.join raises outside the property's preconditions *)
Theorem C13_unshared_on_raises : forall how_str h on l r,
  lookup_how (normalise_how how_str) join_types = Some h -> h <> CROSS_JOIN ->
  forallb (fun c => name_mem c (names_of (t_schema l))) on
  && forallb (fun c => name_mem c (names_of (t_schema r))) on = false ->
  df_join l r (OnList on) how_str = Err StopIteration.
Proof. exact df_join_unshared. Qed.
Theorem C13_invalid_how_raises : forall how_str on l r,
  lookup_how (normalise_how how_str) join_types = None -> df_join l r on how_str = Err IllegalArgumentException.
Proof. exact df_join_invalid_how. Qed.
Theorem C13_cross_with_on_raises : forall how_str cs l r,
  lookup_how (normalise_how how_str) join_types = Some CROSS_JOIN ->
  df_join l r (OnList cs) how_str = Err IllegalArgumentException.
Proof. exact df_join_cross_with_on. Qed.
Theorem C13_missing_on_raises : forall how_str h l r,
  lookup_how (normalise_how how_str) join_types = Some h -> h <> CROSS_JOIN ->
  df_join l r OnNone how_str = Err IllegalArgumentException.
Proof. exact df_join_missing_on. Qed.

(* ---- sanity / non-vacuity: the doctest tables of DataFrame.join (left ids 2,4; right ids 1,2) *)
Definition s_test_value : name := [116;101;115;116;95;118;97;108;117;101]%N.
Definition s_id : name := [105;100]%N.
Definition s_side : name := [115;105;100;101]%N.
Definition s_left : name := [108;101;102;116]%N.
Definition s_right : name := [114;105;103;104;116]%N.
Definition doc_schema (base : N) : schema :=
  [mkField base s_test_value 1 false; mkField (base + 1) s_id 0 false; mkField (base + 2) s_side 1 false].
Definition doc_row (i : Z) (side : name) : row := ([s_test_value; s_id; s_side], [CStr s_test_value; CInt i; CStr side]).
Definition doc_left : table := (doc_schema 1, [[doc_row 2 s_left]; [doc_row 4 s_left]]).
Definition doc_right : table := (doc_schema 4, [[doc_row 1 s_right]; [doc_row 2 s_right]]).
Definition s_left_outer : name := [108;101;102;116;95;111;117;116;101;114]%N.   (* "left_outer" *)

Example doctest_hypotheses :
  lookup_how (normalise_how s_left_outer) join_types = Some LEFT_JOIN /\
  wf_table doc_left /\ wf_table doc_right /\ shared [s_id] (t_schema doc_left) (t_schema doc_right) /\
  non_null_keys [s_id] (t_rows doc_left) /\ non_null_keys [s_id] (t_rows doc_right).
Proof.
  assert (ND : NoDup [s_test_value; s_id; s_side]).
  { repeat constructor; simpl; intros H; repeat (destruct H as [H|H]; [discriminate H|]); exact H. }
  assert (IN : In s_id [s_test_value; s_id; s_side]) by (right; left; reflexivity).
  split; [reflexivity|]. unfold wf_table, shared, non_null_keys.
  split; [|split; [|split; [|split]]].
  - split; [exact ND | repeat constructor].
  - split; [exact ND | repeat constructor].
  - repeat constructor; exact IN.
  - repeat constructor; eexists; (split; [reflexivity|discriminate]).
  - repeat constructor; eexists; (split; [reflexivity|discriminate]).
Qed.

Example doctest_left_outer :
  df_join doc_left doc_right (OnStr s_id) s_left_outer =
  Ok ([mkField 2 s_id 0 false; mkField 1 s_test_value 1 false; mkField 3 s_side 1 false;
       mkField 4 s_test_value 1 false; mkField 6 s_side 1 false],
      [([s_id; s_test_value; s_side; s_test_value; s_side],
        [CInt 2; CStr s_test_value; CStr s_left; CStr s_test_value; CStr s_right]);
       ([s_id; s_test_value; s_side; s_test_value; s_side],
        [CInt 4; CStr s_test_value; CStr s_left; CNull; CNull])]).
Proof. vm_compute. reflexivity. Qed.

(* duplicate keys multiply (the behaviour repaired by fix f381172) *)
Example duplicate_keys_multiply :
  let t (b : N) (n : name) : table :=
    ([mkField b s_id 0 true; mkField (b + 1) n 0 true], [[([s_id; n], [CInt 1; CInt 10]); ([s_id; n], [CInt 1; CInt 20])]]) in
  match df_join (t 1%N s_left) (t 3%N s_right) (OnList [s_id]) [105;110;110;101;114]%N with
  | Ok (_, rows) => length rows = 4%nat
  | Err _ => False
  end.
Proof. vm_compute. reflexivity. Qed.

(* semi/anti joins declare only the left side's columns (the behaviour repaired by fix 7a47d84) *)
Example semi_declares_left_columns_only :
  match df_join doc_left doc_right (OnList [s_id]) (how_name LEFT_SEMI_JOIN) with
  | Ok (s, rows) => names_of s = [s_id; s_test_value; s_side] /\ length rows = 1%nat
  | Err _ => False
  end.
Proof. vm_compute. split; reflexivity. Qed.

(* the hypothesis "non-null keys" of C13_join_rows cannot be dropped: the keyed RDD join compares key
   tuples with Python ==, so two null keys match (SQL: they never do).  Outside the property's
   quantifier ("with non-null keys"); replayed on the implementation, see design.d/C13.md. *)
Example null_keys_match_each_other :
  let t (b : N) (n : name) : table := ([mkField b s_id 0 true; mkField (b + 1) n 1 true], [[([s_id; n], [CNull; CStr n])]]) in
  let l := t 1%N s_left in let r := t 3%N s_right in
  match df_join l r (OnList [s_id]) (how_name INNER_JOIN) with
  | Ok (_, rows) => length rows = 1%nat /\ nested_loop INNER_JOIN [s_id] (t_schema l) (t_schema r) (t_rows l) (t_rows r) = []
  | Err _ => False
  end.
Proof. vm_compute. split; reflexivity. Qed.
