(* C18 -- Casting follows Spark's conversion rules for all values.
   Only statements, each closed by [exact] of a lemma from PV.Proofs.Cast. *)
From Coq Require Import ZArith NArith List Bool String PrimFloat.
Require Import PV.Base.Val PV.Gen.Casts PV.Model.Cast PV.Proofs.Cast PV.Proofs.CastStrings.
Import ListNotations.
Open Scope Z_scope.

(* the regenerated kernel of _cast_to_bounded_type is two's-complement wrap-around, for EVERY integer
   and every interval [lo, hi] containing 0: result in range, congruent to v modulo the size, unique *)
Theorem C18_wrap_in_range : forall lo hi v, lo <= 0 <= hi -> lo <= cast_wrap lo hi v <= hi.
Proof. exact cast_wrap_range. Qed.
Theorem C18_wrap_congruent : forall lo hi v, lo <= 0 <= hi -> (cast_wrap lo hi v - v) mod (hi - lo + 1) = 0.
Proof. exact cast_wrap_congr. Qed.
Theorem C18_wrap_unique : forall lo hi v r,
  lo <= 0 <= hi -> lo <= r <= hi -> (r - v) mod (hi - lo + 1) = 0 -> r = cast_wrap lo hi v.
Proof. exact wrap_unique. Qed.

(* with the width constants regenerated from cast_to_byte/short/int/long *)
Theorem C18_int_to_integral : forall from to w z,
  integral_src from = true -> width_of to = Some w -> ty_eqb from to = false ->
  exists r, cast from to (VInt z) = VInt r /\ twos_complement w z r.
Proof. exact cast_int_to_integral. Qed.
Theorem C18_bool_to_integral : forall to w b,
  width_of to = Some w ->
  exists r, cast TBool to (VBool b) = VInt r /\ twos_complement w (if b then 1 else 0) r.
Proof. exact cast_bool_to_integral. Qed.
(* finite floats: truncation toward zero, then wrap *)
Theorem C18_float_to_integral : forall from to w f z,
  (from = TFloat \/ from = TDouble) -> width_of to = Some w -> float_trunc f = Some z ->
  exists r, cast from to (VFloat f) = VInt r /\ twos_complement w z r.
Proof. exact cast_float_to_integral. Qed.

Theorem C18_identity : forall t v, cast t t v = v.
Proof. exact cast_identity. Qed.
Theorem C18_null : forall from to,
  cast from to VNone <> VErr "AnalysisException" -> cast from to VNone = VNone.
Proof. exact cast_null_supported. Qed.
(* ... and a null raises only where no value of the source type can be cast at all (non-temporal, non-string -> date) *)
Theorem C18_null_raises_only_if_no_such_cast : forall from to,
  cast from to VNone = VErr "AnalysisException" ->
  to = TDate /\ from <> TString /\ from <> TDate /\
  forall v, (forall s, v <> VStr s) -> (forall d, v <> VTup d) -> cast from to v = VErr "AnalysisException".
Proof. exact cast_null_raises_only_if_no_such_cast. Qed.

Theorem C18_string_to_integral : forall to lo hi s z,
  bounds to = Some (lo, hi) -> s <> [] -> py_int_of_str s = Some z ->
  cast TString to (VStr s) = if (lo <=? z) && (z <=? hi) then VInt z else VNone.
Proof. exact cast_string_integral. Qed.

Theorem C18_string_to_bool : forall s, s <> [] ->
  cast TString TBool (VStr s) =
    if list_N_eqb (map lower_ascii s) str_true then VBool true
    else if list_N_eqb (map lower_ascii s) str_false then VBool false else VNone.
Proof. exact cast_string_bool. Qed.
Theorem C18_true_any_case : forall s, In s (variants str_true) -> cast TString TBool (VStr s) = VBool true.
Proof. exact true_variants. Qed.
Theorem C18_false_any_case : forall s, In s (variants str_false) -> cast TString TBool (VStr s) = VBool false.
Proof. exact false_variants. Qed.
Theorem C18_bool_string_roundtrip : forall b, cast TString TBool (cast TBool TString (VBool b)) = VBool b.
Proof. exact bool_string_roundtrip. Qed.

Theorem C18_valid_date : forall y m d,
  valid_date y m d = true <-> 1 <= y <= 9999 /\ 1 <= m <= 12 /\ 1 <= d <= days_in_month y m.
Proof. exact valid_date_spec. Qed.

(* a number cast to string and back is the original value: str(int) then int(str), for EVERY integer *)
Theorem C18_int_str_roundtrip : forall z, py_int_of_str (str_of_int z) = Some z.
Proof. exact int_str_roundtrip. Qed.
Theorem C18_int_string_roundtrip : forall t lo hi z,
  bounds t = Some (lo, hi) -> lo <= z <= hi -> cast TString t (cast t TString (VInt z)) = VInt z.
Proof. exact int_string_roundtrip. Qed.

(* yyyy-m-d made of digits (4, 1-2 and 1-2 of them) is that calendar date when it exists, null otherwise *)
Theorem C18_date_ymd : forall sy sm sd,
  all_digits sy -> all_digits sm -> all_digits sd ->
  List.length sy = 4%nat -> (1 <= List.length sm <= 2)%nat -> (1 <= List.length sd <= 2)%nat ->
  cast TString TDate (VStr (sy ++ 45%N :: sm ++ 45%N :: sd)) =
    if valid_date (dval sy 0) (dval sm 0) (dval sd 0)
    then VTup [VInt (dval sy 0); VInt (dval sm 0); VInt (dval sd 0)] else VNone.
Proof. exact date_ymd. Qed.

(* ... optionally followed by a space or a T and anything (a time part): only the date part counts *)
Theorem C18_date_ymd_time : forall sy sm sd sep rest,
  all_digits sy -> all_digits sm -> all_digits sd ->
  List.length sy = 4%nat -> (1 <= List.length sm <= 2)%nat -> (1 <= List.length sd <= 2)%nat ->
  sep = 32%N \/ sep = 84%N ->
  cast TString TDate (VStr ((sy ++ 45%N :: sm ++ 45%N :: sd) ++ sep :: rest)) =
  cast TString TDate (VStr (sy ++ 45%N :: sm ++ 45%N :: sd)).
Proof. exact date_ymd_time. Qed.

(* non-vacuity / sanity on the doctest-style inputs *)
Example wrap_examples :
  cast TInt TByte (VInt 128) = VInt (-128) /\ cast TInt TByte (VInt (-129)) = VInt 127 /\
  cast TLong TShort (VInt 32768) = VInt (-32768) /\ cast TDouble TByte (VFloat (-128.9)%float) = VInt (-128).
Proof. vm_compute. repeat split. Qed.
Example date_examples :
  cast TString TDate (VStr [50;48;49;57;45;48;50;45;50;57]%N) = VNone /\
  cast TString TDate (VStr [50;48;50;48;45;48;50;45;50;57]%N) = VTup [VInt 2020; VInt 2; VInt 29].
Proof. vm_compute. split; reflexivity. Qed.
