(* C10 -- Each stream batch is processed exactly once; per-batch ops equal RDD ops.
   Only statements, each closed by [exact] of a lemma from PV.Proofs.DStream*.
   Model: PV.Model.DStream (graph = ssc._dstreams, step = the four _step methods, tick = the
   callback of StreamingContext.start()), PV.Model.DStreamRdd (local RDD model). *)
From Coq Require Import String ZArith NArith List Bool Permutation.
Require Import PV.Base.Val PV.Model.DStreamRdd PV.Model.DStream.
Require Import PV.Proofs.DStream PV.Proofs.DStreamHist.
Import ListNotations.
Open Scope Z_scope.

(* The stepping machine (guards + recursion into parents + one callback over all registered
   nodes) computes exactly the one-pass specification, for EVERY well-formed graph, every state whose
   nodes are all older than t, every directory content. *)
Theorem C10_tick_refines : forall g env t st,
  wf g -> length (ns st) = length g -> (forall i s, nth_error (ns st) i = Some s -> ctime s < t) ->
  tick g env t st = Some (tick_spec g env t st).
Proof. exact tick_refines. Qed.

(* tick_inv: after the callback ran at time t every node is at time t and holds its function applied
   to what its parents hold in the SAME interval; a source holds the batch its stream delivered *)
Theorem C10_tick_inv : forall g env t st,
  wf g -> length (ns st) = length g -> (forall i s, nth_error (ns st) i = Some s -> ctime s < t) ->
  exists st', tick g env t st = Some st' /\
    length (ns st') = length g /\
    (forall i s, nth_error (ns st') i = Some s -> ctime s = t) /\
    (forall i nd, nth_error g i = Some nd ->
       crdd_at st' i = node_val nd t (delivered g env st i) (map crdd (ns st'))).
Proof. exact tick_inv. Qed.

(* pop_once + fire_once: in one callback every source calls get() exactly once and no other node
   does, every transformation/action function is called exactly once, with the tick time and with
   the RDDs its parents hold in this interval -- however many derived nodes reach a node *)
Theorem C10_pop_once_fire_once : forall g env t st,
  wf g -> length (ns st) = length g -> (forall i s, nth_error (ns st) i = Some s -> ctime s < t) ->
  exists st' evs, tick g env t st = Some st' /\ log st' = log st ++ evs /\
    (forall i, pops i evs = (if is_src g i then 1 else 0)%nat) /\
    (forall i, fires i evs = (if is_fn g i then 1 else 0)%nat) /\
    (forall j tt args, In (EvFire j tt args) evs ->
       tt = t /\ exists nd, nth_error g j = Some nd /\ args = map (crdd_at st') (parents nd)).
Proof. exact tick_events. Qed.

(* the same node states and the same exactly-once counts for ANY order in which the callback might
   walk the registered nodes (with repetitions): the guards make the order irrelevant *)
Theorem C10_any_order : forall g env t st order,
  wf g -> length (ns st) = length g -> (forall i s, nth_error (ns st) i = Some s -> ctime s < t) ->
  (forall i, In i order -> (i < length g)%nat) -> (forall i, (i < length g)%nat -> In i order) ->
  exists st' evs, step_all g env t order st = Some st' /\
    ns st' = ns (tick_spec g env t st) /\ log st' = log st ++ evs /\
    (forall i, pops i evs = (if is_src g i then 1 else 0)%nat) /\
    (forall i, fires i evs = (if is_fn g i then 1 else 0)%nat).
Proof. exact any_order_once. Qed.

(* histories: strictly increasing positive tick times from the initial state *)
Theorem C10_history_refines : forall g h,
  wf g -> increasing 0 h -> run_hist g h (init g) = Some (spec_hist g h (init g)).
Proof. exact run_hist_init. Qed.

(* every queued batch is delivered in exactly one interval, in arrival order; after exhaustion the
   default batch, or an EmptyRDD when there is none *)
Theorem C10_queue_in_order : forall g i dflt q0,
  wf g -> nth_error g i = Some (Src (SQueue true dflt q0)) ->
  forall h, exists s,
    nth_error (ns (spec_hist g h (init g))) i = Some s /\
    queue s = skipn (length h) q0 /\
    (h <> [] -> crdd s = RRdd (match nth_error q0 (length h - 1) with
                              | Some b => parallelize b None
                              | None => default_rdd dflt
                              end)).
Proof. exact queue_in_order. Qed.

(* oneAtATime=False: the first interval receives all queued batches concatenated, once *)
Theorem C10_queue_all_at_once : forall g i dflt q0,
  wf g -> nth_error g i = Some (Src (SQueue false dflt q0)) ->
  forall h, exists s,
    nth_error (ns (spec_hist g h (init g))) i = Some s /\
    queue s = (match h with [] => q0 | _ => [] end) /\
    (h <> [] -> crdd s = RRdd (match length h, q0 with
                              | 1%nat, _ :: _ => parallelize (concat q0) None
                              | _, _ => default_rdd dflt
                              end)).
Proof. exact queue_all_at_once. Qed.
