(* C10 -- Each stream batch is processed exactly once; per-batch ops equal RDD ops.
   Only statements, each closed by [exact] of a lemma from PV.Proofs.DStream*.
   Model: PV.Model.DStream (graph = ssc._dstreams, step = the four _step methods, tick = the
   callback of StreamingContext.start()), PV.Model.DStreamRdd (local RDD model). *)
From Coq Require Import String ZArith NArith List Bool Permutation.
Require Import PV.Base.Val PV.Model.DStreamRdd PV.Model.DStream.
Require Import PV.Proofs.DStream PV.Proofs.DStreamHist PV.Proofs.DStreamApi.
Import ListNotations.
Open Scope Z_scope.

(* [live g t srcv]: in this interval every parent of a TransformedDStream holds an RDD, i.e. the early
   return `if self._prev._current_rdd is None: return` of TransformedDStream._step (a windowed parent
   before its first emission, C11) is not taken.  It holds in EVERY interval for every graph whose
   nodes used as parents are total, in particular for the graph of every program whose user-supplied
   transform functions return RDDs and which derives no stream from a foreachRDD action: *)
Theorem C10_total_graph_always_live : forall g, wf g -> graph_total g -> always_live g.
Proof. exact graph_total_live. Qed.
Theorem C10_total_program_always_live : forall p,
  prog_ok p -> prog_total p -> always_live (fst (expand p)).
Proof. exact prog_total_live. Qed.

(* The stepping machine (guards + recursion into parents + one callback over all registered
   nodes) computes exactly the one-pass specification, for EVERY well-formed graph, every state whose
   nodes are all older than t, every directory content. *)
Theorem C10_tick_refines : forall g env t st,
  wf g -> length (ns st) = length g -> (forall i s, nth_error (ns st) i = Some s -> ctime s < t) ->
  live g t (delivered g env st) ->
  tick g env t st = Some (tick_spec g env t st).
Proof. exact tick_refines. Qed.

(* tick_inv: after the callback ran at time t every node is at time t and holds its function applied
   to what its parents hold in the SAME interval; a source holds the batch its stream delivered *)
Theorem C10_tick_inv : forall g env t st,
  wf g -> length (ns st) = length g -> (forall i s, nth_error (ns st) i = Some s -> ctime s < t) ->
  live g t (delivered g env st) ->
  exists st', tick g env t st = Some st' /\
    length (ns st') = length g /\
    (forall i s, nth_error (ns st') i = Some s -> ctime s = t) /\
    (forall i nd, nth_error g i = Some nd ->
       crdd_at st' i = node_val nd t (delivered g env st i) (map crdd (ns st'))).
Proof. exact tick_inv. Qed.

(* closed form: every node's RDD after the tick is a function ([denot]) of the batches the sources
   delivered in THIS interval only -- nothing leaks from earlier intervals, nothing is skipped *)
Theorem C10_tick_denot : forall g env t st,
  wf g -> length (ns st) = length g -> (forall i s, nth_error (ns st) i = Some s -> ctime s < t) ->
  live g t (delivered g env st) ->
  exists st', tick g env t st = Some st' /\
    forall i, (i < length g)%nat -> crdd_at st' i = nth i (denot g t (delivered g env st)) RNone.
Proof. exact tick_denot. Qed.

(* a callback whose timestamp is not later than what every node already processed is not a new
   interval: no get(), no function call, no state change *)
Theorem C10_tick_stutter : forall g env t st,
  length (ns st) = length g -> (forall i s, nth_error (ns st) i = Some s -> t <= ctime s) ->
  tick g env t st = Some st.
Proof. exact tick_stutter. Qed.

(* pop_once + fire_once: in one callback every source calls get() exactly once and no other node
   does, every transformation/action function is called exactly once, with the tick time and with
   the RDDs its parents hold in this interval -- however many derived nodes reach a node *)
Theorem C10_pop_once_fire_once : forall g env t st,
  wf g -> length (ns st) = length g -> (forall i s, nth_error (ns st) i = Some s -> ctime s < t) ->
  live g t (delivered g env st) ->
  exists st' evs, tick g env t st = Some st' /\ log st' = log st ++ evs /\
    (forall i, pops i evs = (if is_src g i then 1 else 0)%nat) /\
    (forall i, fires i evs = (if is_fn g i then 1 else 0)%nat) /\
    (forall j tt args, In (EvFire j tt args) evs ->
       tt = t /\ exists nd, nth_error g j = Some nd /\ args = map (crdd_at st') (parents nd)).
Proof. exact tick_events. Qed.

(* the same node states and the same exactly-once counts for ANY order in which the callback might
   walk the registered nodes (with repetitions): the guards make the order irrelevant *)
Theorem C10_any_order : forall g env t st order,
  wf g -> length (ns st) = length g -> (forall i s, nth_error (ns st) i = Some s -> ctime s < t) ->
  live g t (delivered g env st) ->
  (forall i, In i order -> (i < length g)%nat) -> (forall i, (i < length g)%nat -> In i order) ->
  exists st' evs, step_all g env t order st = Some st' /\
    ns st' = ns (tick_spec g env t st) /\ log st' = log st ++ evs /\
    (forall i, pops i evs = (if is_src g i then 1 else 0)%nat) /\
    (forall i, fires i evs = (if is_fn g i then 1 else 0)%nat).
Proof. exact any_order_once. Qed.

(* histories: strictly increasing positive tick times from the initial state *)
Theorem C10_history_refines : forall g h,
  wf g -> always_live g -> increasing 0 h -> run_hist g h (init g) = Some (spec_hist g h (init g)).
Proof. exact run_hist_init. Qed.

(* every queued batch is delivered in exactly one interval, in arrival order; after exhaustion the
   default batch, or an EmptyRDD when there is none *)
Theorem C10_queue_in_order : forall g i dflt q0,
  wf g -> nth_error g i = Some (Src (SQueue true dflt q0)) ->
  forall h, exists s,
    nth_error (ns (spec_hist g h (init g))) i = Some s /\
    queue s = skipn (length h) q0 /\
    (h <> [] -> crdd s = RRdd (match nth_error q0 (length h - 1) with
                              | Some (Some b) => batch_rdd b
                              | Some None => empty_rdd            (* a queued None: an interval without data *)
                              | None => default_rdd dflt          (* only once the queue is exhausted *)
                              end)).
Proof. exact queue_in_order. Qed.

(* oneAtATime=False: the first interval receives all queued batches concatenated, once *)
Theorem C10_queue_all_at_once : forall g i dflt q0,
  wf g -> nth_error g i = Some (Src (SQueue false dflt q0)) ->
  forall h, exists s,
    nth_error (ns (spec_hist g h (init g))) i = Some s /\
    queue s = (match h with [] => q0 | _ => [] end) /\
    (h <> [] -> crdd s = RRdd (match length h, q0 with
                              | 1%nat, _ :: _ => parallelize (concat (map entry_items q0)) None
                              | _, _ => default_rdd dflt
                              end)).
Proof. exact queue_all_at_once. Qed.

(* ---------- per-batch op = RDD op ---------- *)

(* every program of API calls (each call referring to streams returned by earlier calls: arbitrary
   DAGs, diamonds, several sources) registers a well-formed graph *)
Theorem C10_program_graph_wf : forall p, prog_ok p ->
  wf (fst (expand p)) /\ length (snd (expand p)) = length p /\
  handles_ok (fst (expand p)) (snd (expand p)) /\
  forall k c, nth_error p k = Some c ->
    forall t srcv V, solves (fst (expand p)) t srcv V ->
      nth (nth k (snd (expand p)) O) V RNone =
      call_sem c t (srcv (nth k (snd (expand p)) O))
               (map (fun s => nth (nth s (snd (expand p)) O) V RNone) (call_args c)).
Proof. exact prog_sem. Qed.

(* after the callback ran at time t on the graph of ANY program, the stream returned by every call
   (map, flatMap, filter, mapValues, flatMapValues, reduceByKey, groupByKey, count, countByValue,
   reduce, union, join, outer joins, cogroup, transform, repartition, ...) holds [call_sem]: the RDD
   operation of that call applied to the RDDs its argument streams hold in the same interval; a
   source holds the batch its stream delivered *)
Theorem C10_per_batch_op : forall p env t st,
  prog_ok p -> prog_total p -> let G := fst (expand p) in let hs := snd (expand p) in
  length (ns st) = length G -> (forall i s, nth_error (ns st) i = Some s -> ctime s < t) ->
  exists st', tick G env t st = Some st' /\
    forall k c, nth_error p k = Some c ->
      crdd_at st' (nth k hs O) =
      call_sem c t (delivered G env st (nth k hs O)) (map (fun s => crdd_at st' (nth s hs O)) (call_args c)).
Proof. exact prog_tick. Qed.

(* the same along any history of strictly increasing tick times, from the initial state *)
Theorem C10_per_batch_op_history : forall p h t env,
  prog_ok p -> prog_total p -> let G := fst (expand p) in let hs := snd (expand p) in
  increasing 0 (h ++ [(t, env)]) ->
  exists st st', run_hist G h (init G) = Some st /\ run_hist G (h ++ [(t, env)]) (init G) = Some st' /\
    forall k c, nth_error p k = Some c ->
      crdd_at st' (nth k hs O) =
      call_sem c t (delivered G env st (nth k hs O)) (map (fun s => crdd_at st' (nth s hs O)) (call_args c)).
Proof. exact prog_hist. Qed.

(* every registered output action (foreachRDD) of ANY program fires exactly once per interval, with
   the tick time and with the RDD its stream holds in this interval *)
Theorem C10_action_fires_once : forall p env t st k s,
  prog_ok p -> prog_total p -> nth_error p k = Some (CForeachRDD s) ->
  let G := fst (expand p) in let hs := snd (expand p) in
  length (ns st) = length G -> (forall i x, nth_error (ns st) i = Some x -> ctime x < t) ->
  exists st' evs, tick G env t st = Some st' /\ log st' = log st ++ evs /\
    fires (nth k hs O) evs = 1%nat /\
    forall tt args, In (EvFire (nth k hs O) tt args) evs -> tt = t /\ args = [crdd_at st' (nth s hs O)].
Proof. exact action_once. Qed.

(* the expressions the method bodies build are the RDD operations of the same name *)
Theorem C10_map_is_rdd_map : forall f r,
  rdd_setName (rdd_setName (rdd_mapPartitionsWithIndex (fun _ p => map f p) r)) = rdd_map f r.
Proof. exact mapPartitionsWithIndex_is_map. Qed.
Theorem C10_flatMap_is_rdd_flatMap : forall f r,
  rdd_setName (rdd_mapPartitionsWithIndex (fun _ p => flat_map f p) r) = rdd_flatMap f r.
Proof. exact mapPartitionsWithIndex_is_flatMap. Qed.
(* reduce(f): one element, functools.reduce(f, elements) -- nothing for an empty interval *)
Theorem C10_reduce_is_rdd_reduce : forall f r,
  flat (rdd_reduce_expr f r) = match flat r with [] => [] | a :: l => [fold_left f l a] end.
Proof. exact reduce_expr_flat. Qed.
(* count(): [rdd.count()], for every partitioning -- except that an interval without any batch
   (EmptyRDD, zero partitions) yields an empty RDD instead of [0]  (reading recorded in DESIGN) *)
Theorem C10_count_is_rdd_count : forall r,
  flat (rdd_count_expr r) = match parts r with [] => [] | _ => [VInt (rdd_count r)] end.
Proof. exact count_expr_flat. Qed.
(* parallelize (used by sources, union, repartition, groupByKey) keeps every element, in order,
   for every numSlices; proved against the regenerated slicing kernel par_take *)
Theorem C10_parallelize_collect : forall x n, flat (parallelize x n) = x.
Proof. exact parallelize_flat. Qed.
Theorem C10_union_collect : forall a b, rdd_ok a -> rdd_ok b -> flat (ctx_union a b) = flat a ++ flat b.
Proof. exact flat_ctx_union. Qed.
Theorem C10_repartition_collect : forall n r, flat (repartition_fn n r) = flat r.
Proof. exact flat_repartition. Qed.

(* ---------- monitored directory ---------- *)
(* one interval: the files delivered are exactly the listed files not yet marked done; they are marked *)
Theorem C10_file_tick : forall g env t st i d0 s,
  wf g -> nth_error g i = Some (Src (SFile d0)) -> nth_error (ns st) i = Some s ->
  let new := new_files (env i) (fdone s) in
  nth_error (ns (tick_spec g env t st)) i =
    Some (mkNs t (RRdd (deserialize (match new with [] => QNone | _ => QFiles new end)))
               (queue s) (fdone s ++ map fst new)).
Proof. exact file_tick. Qed.
Theorem C10_file_delivered_is_new : forall ls done f,
  In f (new_files ls done) -> In f ls /\ name_in (fst f) done = false.
Proof. exact new_files_fresh. Qed.
(* over a history: every file listed at some tick is marked done afterwards, hence (by the two
   statements above) delivered in exactly one interval: the first one in which it is listed *)
Theorem C10_file_once : forall g i d0,
  wf g -> nth_error g i = Some (Src (SFile d0)) ->
  forall h, exists s,
    nth_error (ns (spec_hist g h (init g))) i = Some s /\
    (forall x, name_in x d0 = true -> name_in x (fdone s) = true) /\
    (forall k t env f, nth_error h k = Some (t, env) -> In f (env i) -> name_in (fst f) (fdone s) = true).
Proof. exact file_once. Qed.

(* ---------- registration after start(): the graph grows between ticks ----------
   A history is a sequence of ticks (HTick) and registrations (HReg: nodes appended to
   ssc._dstreams, starting at time 0 without RDD).  The machine refines the specification along every
   such history ... *)
Theorem C10_events_refine : forall h g st c,
  graphs_ok g h -> 0 <= c -> shape g st c -> ev_increasing c h ->
  run_events g st h = Some (spec_events g st h).
Proof. exact events_refine. Qed.

(* ... and in EVERY interval every node registered so far -- whenever it was registered, before or
   after start(), a source, a derived branch, a join with an existing branch or an output action --
   calls get() exactly once (sources) / has its function called exactly once (all others), ends at
   time t and holds its function applied to its parents' RDDs of this interval.  A late action
   therefore fires exactly once per interval from the interval after its registration. *)
Theorem C10_every_registered_node_once : forall g st c h t env,
  graphs_ok g (h ++ [HTick t env]) -> 0 <= c -> shape g st c -> ev_increasing c (h ++ [HTick t env]) ->
  let '(g1, st1) := spec_events g st h in
  run_events g st h = Some (g1, st1) /\
  (exists new, g1 = g ++ new) /\
  exists st2 evs, tick g1 env t st1 = Some st2 /\ log st2 = log st1 ++ evs /\
    length (ns st2) = length g1 /\
    (forall i s, nth_error (ns st2) i = Some s -> ctime s = t) /\
    (forall i, pops i evs = (if is_src g1 i then 1 else 0)%nat) /\
    (forall i, fires i evs = (if is_fn g1 i then 1 else 0)%nat) /\
    (forall i nd, nth_error g1 i = Some nd ->
       crdd_at st2 i = node_val nd t (delivered g1 env st1 i) (map crdd (ns st2))).
Proof. exact tick_after_events. Qed.

(* registering a program in two phases registers the graph of the whole program (so C10_per_batch_op
   and C10_action_fires_once apply to it with the extended state); both graphs satisfy [graphs_ok] *)
Theorem C10_phased_program : forall p1 p2,
  prog_ok (p1 ++ p2) -> prog_total (p1 ++ p2) ->
  let G1 := fst (expand p1) in let G2 := fst (expand (p1 ++ p2)) in
  expand (p1 ++ p2) = expand_from p2 (expand p1) /\
  (exists new, G2 = G1 ++ new) /\
  graphs_ok G1 [HReg (skipn (length G1) G2)].
Proof. exact phased_program. Qed.

(* ---------- non-vacuity: a diamond (one queue, two branches, union, count, two actions) ---------- *)
Definition ex_inc (v : val) : val := match v with VInt x => VInt (x + 1) | _ => v end.
Definition ex_even (v : val) : bool := match v with VInt x => Z.even x | _ => false end.
Definition ex_prog : list call :=
  [CSource (SQueue true None [Some ([VInt 1; VInt 2], None); Some ([], None); Some ([VInt 4], None)]);
   CMap 0 ex_inc; CFilter 0 ex_even; CUnion 1 2; CCount 3; CForeachRDD 3; CForeachRDD 4].
Definition ex_env : nat -> listing := fun _ => [].
Definition ex_hist : list (Z * (nat -> listing)) := [(1, ex_env); (2, ex_env); (3, ex_env); (5, ex_env)].
Definition ex_flat (a : rv) : list val := match a with RRdd r => flat r | RNone => [VErr "None"] end.

Example ex_prog_ok : prog_ok ex_prog.
Proof. unfold prog_ok, ex_prog; simpl. repeat split; intros s H; simpl in H; intuition (subst; auto with arith). Qed.
Example ex_prog_total : prog_total ex_prog.
Proof.
  intros k c Hk. do 7 (destruct k as [|k]; [inversion Hk; subst c; split; [exact I|];
    simpl; intros s Hs c' Hc'; repeat (destruct Hs as [<-|Hs]; [inversion Hc'; reflexivity|]); destruct Hs|]).
  destruct k; discriminate.
Qed.
Example ex_always_live : always_live (fst (expand ex_prog)).
Proof. apply C10_total_program_always_live; [exact ex_prog_ok|exact ex_prog_total]. Qed.
Example ex_hist_increasing : increasing 0 ex_hist.
Proof. simpl. repeat split; reflexivity. Qed.
(* 11 registered nodes: the source, 3 for map, 1 filter, 1 union, 3 for count, 2 actions *)
Example ex_nodes : length (fst (expand ex_prog)) = 11%nat /\ snd (expand ex_prog) = [0; 3; 4; 5; 8; 9; 10]%nat.
Proof. vm_compute. split; reflexivity. Qed.
(* union and count per interval; the 4th interval has no batch: union of a non-EmptyRDD gives an RDD
   with one empty partition (count [0]) *)
Example ex_run :
  option_map (fun st => (ex_flat (crdd_at st 5), ex_flat (crdd_at st 8), length (log st)))
             (run_hist (fst (expand ex_prog)) (firstn 1 ex_hist) (init (fst (expand ex_prog))))
  = Some ([VInt 2; VInt 3; VInt 2], [VInt 3], 11%nat).
Proof. vm_compute. reflexivity. Qed.
Example ex_run_exhausted :
  option_map (fun st => (ex_flat (crdd_at st 0), ex_flat (crdd_at st 5), ex_flat (crdd_at st 8),
                         pops 0 (log st), fires 9 (log st), fires 10 (log st)))
             (run_hist (fst (expand ex_prog)) ex_hist (init (fst (expand ex_prog))))
  = Some ([], [], [VInt 0], 4%nat, 4%nat, 4%nat).
Proof. vm_compute. reflexivity. Qed.
(* a source whose interval has no batch, counted directly: empty, not [0] *)
Example ex_count_of_empty : flat (rdd_count_expr empty_rdd) = [] /\
                            flat (rdd_count_expr (parallelize [] None)) = [VInt 0].
Proof. vm_compute. split; reflexivity. Qed.

(* a monitored directory: f1 exists before the stream is created (not delivered), f2 appears before
   the first tick (delivered once), nothing new at the second tick (EmptyRDD, count is empty) *)
Definition ex_fprog : list call := [CSource (SFile [[102; 49]%N]); CCount 0; CForeachRDD 1].
Definition ex_ls : listing :=
  [([102; 49]%N, [VStr [53]%N]); ([102; 50]%N, [VStr [49]%N; VStr [50]%N])].
Definition ex_fhist : list (Z * (nat -> listing)) := [(1, fun _ => ex_ls); (2, fun _ => ex_ls)].
Example ex_file_run :
  option_map (fun st => (ex_flat (crdd_at st 0), ex_flat (crdd_at st 3)))
             (run_hist (fst (expand ex_fprog)) (firstn 1 ex_fhist) (init (fst (expand ex_fprog))))
  = Some ([VStr [49]%N; VStr [50]%N], [VInt 2]) /\
  option_map (fun st => (ex_flat (crdd_at st 0), ex_flat (crdd_at st 3), pops 0 (log st), fires 4 (log st)))
             (run_hist (fst (expand ex_fprog)) ex_fhist (init (fst (expand ex_fprog))))
  = Some ([], [], 2%nat, 2%nat).
Proof. vm_compute. split; reflexivity. Qed.

(* late registration: the source and one action are registered, one tick passes, then a map branch, a
   union with the source and a second action are registered; they take part from the next tick on *)
Definition ex_p1 : list call := [CSource (SQueue true (Some ([VInt 9], None)) [Some ([VInt 1], None); None; Some ([VInt 3], None)]); CForeachRDD 0].
Definition ex_p2 : list call := [CMap 0 ex_inc; CUnion 0 2; CForeachRDD 3].
Definition ex_G1 := fst (expand ex_p1).
Definition ex_G2 := fst (expand (ex_p1 ++ ex_p2)).
Definition ex_events : list hevent :=
  [HTick 1 ex_env; HReg (skipn (length ex_G1) ex_G2); HTick 2 ex_env; HTick 3 ex_env; HTick 4 ex_env].
Example ex_late :
  option_map (fun gs => (length (fst gs), ex_flat (crdd_at (snd gs) 5), fires 1 (log (snd gs)), fires 6 (log (snd gs))))
             (run_events ex_G1 (init ex_G1) ex_events)
  = Some (7%nat, [VInt 9; VInt 10], 4%nat, 3%nat).
Proof. vm_compute. reflexivity. Qed.
(* the queued None is an interval without data although a default exists (tick 2), the default comes
   only after the queue is exhausted (tick 4) *)
Example ex_none_entry :
  option_map (fun gs => ex_flat (crdd_at (snd gs) 0)) (run_events ex_G1 (init ex_G1) (firstn 3 ex_events)) = Some [] /\
  option_map (fun gs => ex_flat (crdd_at (snd gs) 0)) (run_events ex_G1 (init ex_G1) ex_events) = Some [VInt 9].
Proof. vm_compute. split; reflexivity. Qed.
