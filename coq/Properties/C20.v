(* C20 -- File patterns resolve to exactly the matching files.
   Only statements, each closed by [exact] of a lemma from PV.Proofs.Glob*.

   Vocabulary (PV.Model.Glob / GlobSpec): a file system [fs] is a current directory and a finite list of files
   (absolute component lists); [wf_fs] says every component is a real name without '/'.  [cname fs s f]: the
   string [s] is a canonical way of writing the path of file [f] (absolute, './'-relative or bare relative).
   [eff_expr e]: the item after the scheme prefix is removed and './' is put in front of an item without
   separator or with a wildcard in its first component -- the text the walked paths are matched against.
   [accepts x s]: s matches x, or matches x ++ "/part*" (dataset rule). *)
From Coq Require Import NArith List Bool Ascii String Sorted Permutation.
Require Import PV.Gen.FsDispatch PV.Model.Glob PV.Model.GlobSpec.
Require Import PV.Proofs.GlobMatch PV.Proofs.GlobSort PV.Proofs.GlobPath PV.Proofs.GlobResolve.
Import ListNotations.
Open Scope N_scope.

(* ---- the matcher is the wildcard language of the property: '*' any run of characters (the separator
        included), '?' any single character, for every pattern and every string *)
Theorem C20_gmatch_spec : forall p s, gmatch p s = true <-> matches p s.
Proof. exact gmatch_spec. Qed.

(* ---- the walk-root optimisation loses no match *)
(* strings: whatever the effective expression or its dataset variant matches lies below the directory
   handed to os.walk (after the literal-prefix, './' and dirname rules), for EVERY item *)
Theorem C20_prefix_sound : forall e0 s,
  accepts (fst (plan e0)) s = true -> exists rest, s = disp (snd (plan e0)) rest.
Proof. exact prefix_sound. Qed.
(* file system: every canonical name of an existing file that lies textually below a walk root is produced
   by the walk from that root *)
Theorem C20_walk_complete : forall fs R rest s f,
  wf_fs fs = true -> In f (files fs) -> cname fs s f -> R <> [] -> s = disp R rest -> In s (walk fs R).
Proof. exact walk_complete. Qed.

(* ---- an item resolves to exactly the existing files whose path matches it *)
(* nothing but existing files, each matching the item (or being the item itself when it names a file) *)
Theorem C20_resolve_sound : forall fs e s,
  wf_fs fs = true -> In s (resolve_local fs e) ->
  isfile fs s = true /\
  (if isfile fs (strip_scheme e) then s = strip_scheme e else accepts (eff_expr e) s = true).
Proof. exact resolve_sound. Qed.
(* every existing file whose canonical name matches is resolved -- full since fixes 94671f3 and 9d8ea91
   (before them this failed for items with a wildcard in the first relative component) *)
Theorem C20_resolve_complete : forall fs e s f,
  wf_fs fs = true -> isfile fs (strip_scheme e) = false ->
  In f (files fs) -> cname fs s f -> accepts (eff_expr e) s = true -> In s (resolve_local fs e).
Proof. exact resolve_complete. Qed.
Theorem C20_resolve_exact : forall fs e s f,
  wf_fs fs = true -> isfile fs (strip_scheme e) = false -> In f (files fs) -> cname fs s f ->
  (In s (resolve_local fs e) <-> accepts (eff_expr e) s = true).
Proof. exact resolve_exact. Qed.
Theorem C20_resolve_file_shortcut : forall fs e,
  isfile fs (strip_scheme e) = true -> resolve_local fs e = [strip_scheme e].
Proof. exact resolve_file_shortcut. Qed.
(* the text the paths are matched against is the item itself or './' + item (relative items only), and a
   './'-relative name matches './' + item exactly when the bare name matches the item *)
Theorem C20_eff_expr_shape : forall e,
  eff_expr e = strip_scheme e \/
  (is_abs (strip_scheme e) = false /\ eff_expr e = dotslash ++ strip_scheme e).
Proof. exact eff_expr_shape. Qed.
Theorem C20_accepts_dotslash : forall p s, accepts (dotslash ++ p) (dotslash ++ s) = accepts p s.
Proof. exact accepts_dotslash. Qed.
(* each file at most once per item *)
Theorem C20_resolve_nodup : forall fs e,
  wf_fs fs = true -> NoDup (files fs) -> NoDup (resolve_local fs e).
Proof. exact resolve_nodup. Qed.

(* ---- dataset directories: partition files only, never the _SUCCESS marker *)
Theorem C20_part_rule : forall d s, literal d ->
  (gmatch (d ++ local_part_suffix) s = true <-> exists r, s = d ++ part_lit ++ r).
Proof. exact part_rule_spec. Qed.
Theorem C20_marker_excluded : forall d, literal d -> gmatch (d ++ local_part_suffix) (d ++ success_lit) = false.
Proof. exact marker_excluded. Qed.
Theorem C20_dataset_dir_parts_only : forall fs e s,
  wf_fs fs = true -> literal (strip_scheme e) -> isfile fs (strip_scheme e) = false ->
  In s (resolve_local fs e) ->
  isfile fs s = true /\ (exists r, s = with_sep (strip_scheme e) ++ part_lit ++ r) /\
  s <> with_sep (strip_scheme e) ++ success_lit.
Proof. exact dataset_dir_parts_only. Qed.
Theorem C20_dataset_dir_parts_resolved : forall fs e s f r,
  wf_fs fs = true -> literal (strip_scheme e) -> isfile fs (strip_scheme e) = false ->
  In f (files fs) -> cname fs s f -> s = with_sep (strip_scheme e) ++ part_lit ++ r ->
  In s (resolve_local fs e).
Proof. exact dataset_dir_parts_resolved. Qed.

(* ---- an item matching nothing contributes no files *)
Theorem C20_nomatch_empty : forall fs e,
  wf_fs fs = true -> isfile fs (strip_scheme e) = false ->
  (forall s, isfile fs s = true -> accepts (eff_expr e) s = false) -> resolve_local fs e = [].
Proof. exact nomatch_empty. Qed.

(* ---- comma-separated items: the concatenation of what the (blank-stripped) items resolve to *)
Theorem C20_comma_union : forall fs items,
  items <> [] -> Forall (fun it => forall c, In c it -> c <> c_comma) items ->
  Forall (fun it => get_fs (strip it) = cls_local) items ->
  resolve_all fs (join c_comma items) = Names (flat_map (fun it => resolve_local fs (strip it)) items).
Proof. exact comma_union. Qed.
Theorem C20_comma_union_in : forall fs items s,
  items <> [] -> Forall (fun it => forall c, In c it -> c <> c_comma) items ->
  Forall (fun it => get_fs (strip it) = cls_local) items ->
  exists l, resolve_all fs (join c_comma items) = Names l /\
            (In s l <-> exists it, In it items /\ In s (resolve_local fs (strip it))).
Proof. exact comma_union_in. Qed.
(* end to end, for a canonical name [s] of an existing file: File.resolve_filenames returns it exactly when
   some item names it or matches it (or matches it through the dataset rule) *)
Theorem C20_resolve_all_exact : forall fs items s f,
  wf_fs fs = true -> items <> [] -> Forall (fun it => forall c, In c it -> c <> c_comma) items ->
  Forall (fun it => get_fs (strip it) = cls_local) items ->
  In f (files fs) -> cname fs s f ->
  exists l, resolve_all fs (join c_comma items) = Names l /\
    (In s l <-> exists it, In it items /\
                  if isfile fs (strip_scheme (strip it)) then s = strip_scheme (strip it)
                  else accepts (eff_expr (strip it)) s = true).
Proof. exact resolve_all_exact. Qed.
(* items without '://' and items starting with file:// go to the local file system
   (with the scheme table regenerated from fileio/fs/__init__.py) *)
Theorem C20_local_without_scheme : forall it, before_first scheme_sep it = None -> get_fs it = cls_local.
Proof. exact get_fs_no_scheme. Qed.
Theorem C20_local_file_scheme : forall x, get_fs (local_scheme_prefix ++ x) = cls_local.
Proof. exact get_fs_file_scheme. Qed.
Theorem C20_file_scheme_stripped : forall x, strip_scheme (local_scheme_prefix ++ x) = x.
Proof. exact strip_scheme_prefix. Qed.

(* ---- readers hand the resolved names to the tasks in sorted path order: a sorted permutation of what
        File.resolve_filenames returned, and there is only one such list *)
Theorem C20_sorted_order : forall fs e l,
  read_order fs e = Names l ->
  exists r, resolve_all fs e = Names r /\ Permutation r l /\ StronglySorted str_le l.
Proof. exact read_order_sorted. Qed.
Theorem C20_sorted_order_unique : forall l1 l2,
  Permutation l1 l2 -> StronglySorted str_le l1 -> StronglySorted str_le l2 -> l1 = l2.
Proof. exact sorted_unique. Qed.

(* ---- non-vacuity and sanity: the tree  a.txt  d/x.txt  data/x.txt  out/{_SUCCESS,part-00000,part-00001} *)
Definition S (s : string) : str := map (fun a => N_of_ascii a) (list_ascii_of_string s).
Definition ex_fs : fsys :=
  {| cwd := [S "w"];
     files := [[S "w"; S "a.txt"]; [S "w"; S "d"; S "x.txt"]; [S "w"; S "data"; S "x.txt"];
               [S "w"; S "out"; S "_SUCCESS"]; [S "w"; S "out"; S "part-00000"]; [S "w"; S "out"; S "part-00001"]] |}.

Example ex_wf : wf_fs ex_fs = true /\ NoDup (files ex_fs).
Proof. split. reflexivity. repeat constructor; simpl; intuition discriminate. Qed.
Example ex_dataset : resolve_local ex_fs (S "out") = [S "./out/part-00000"; S "./out/part-00001"].
Proof. vm_compute. reflexivity. Qed.
Example ex_dataset_hyps : literal (strip_scheme (S "out")) /\ isfile ex_fs (strip_scheme (S "out")) = false.
Proof. split; [|reflexivity]. intros c H. vm_compute in H. intuition (subst; reflexivity). Qed.
Example ex_first_component_wildcard :
  resolve_local ex_fs (S "d*/x.txt") = [S "./d/x.txt"; S "./data/x.txt"] /\
  resolve_local ex_fs (S "*/x.txt") = [S "./d/x.txt"; S "./data/x.txt"] /\
  resolve_local ex_fs (S "da?a/x.txt") = [S "./data/x.txt"].
Proof. vm_compute. repeat split. Qed.
Example ex_cname : cname ex_fs (S "./data/x.txt") [S "w"; S "data"; S "x.txt"] /\
                   accepts (eff_expr (S "d*/x.txt")) (S "./data/x.txt") = true.
Proof. split; [|reflexivity]. exists LDot, [S "data"; S "x.txt"]. repeat split. discriminate. Qed.
Example ex_file_and_scheme :
  resolve_local ex_fs (S "file://a.txt") = [S "a.txt"] /\ resolve_local ex_fs (S "/w/out/part-0000?") = [S "/w/out/part-00000"; S "/w/out/part-00001"] /\
  resolve_local ex_fs (S "nonexistent*") = [] /\ resolve_local ex_fs (S "out/_*") = [S "out/_SUCCESS"].
Proof. vm_compute. repeat split. Qed.
Example ex_comma :
  read_order ex_fs (S " out , a.txt,d/*") = Names [S "./out/part-00000"; S "./out/part-00001"; S "a.txt"; S "d/x.txt"] /\
  resolve_all ex_fs (S "a.txt,foo://x") = Fail "NotImplementedError".
Proof. vm_compute. split; reflexivity. Qed.
Example ex_match : matches (S "d*/?.txt") (S "data/x.txt").
Proof. apply gmatch_spec. reflexivity. Qed.
