(* C20 -- File patterns resolve to exactly the matching files.
   Only statements, each closed by [exact] of a lemma from PV.Proofs.Glob*. *)
From Coq Require Import NArith List Bool String Sorted Permutation.
Require Import PV.Gen.FsDispatch PV.Model.Glob PV.Model.GlobSpec.
Require Import PV.Proofs.GlobMatch PV.Proofs.GlobSort.
Import ListNotations.
Open Scope N_scope.

(* the matcher used on every walked path is the wildcard language of the property:
   '*' any run of characters (the separator included), '?' any single character *)
Theorem C20_gmatch_spec : forall p s, gmatch p s = true <-> matches p s.
Proof. exact gmatch_spec. Qed.

(* readers hand the resolved names to the tasks in sorted path order: a sorted permutation of what
   File.resolve_filenames returned, and there is only one such list *)
Theorem C20_sorted_order : forall fs e l,
  read_order fs e = Names l ->
  exists r, resolve_all fs e = Names r /\ Permutation r l /\ StronglySorted str_le l.
Proof. exact read_order_sorted. Qed.
Theorem C20_sorted_order_unique : forall l1 l2,
  Permutation l1 l2 -> StronglySorted str_le l1 -> StronglySorted str_le l2 -> l1 = l2.
Proof. exact sorted_unique. Qed.
