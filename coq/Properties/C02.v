(* C02 -- Keyed, join and set operations follow Spark's multiset semantics.
   Only statements, each closed by [exact] of a lemma from PV.Proofs.Keyed*.

   The model (PV.Model.Keyed) transcribes what rdd.py does: a defaultdict loop for groupByKey, dict lookups
   for the join family, Python sets for cogroup / distinct / intersection.  The specs (PV.Model.KeyedSpec) are
   list comprehensions over the flattened inputs.  [Permutation] is multiset equality.  Every theorem holds
   for ALL lists, all key and value types; the only premise is [decides_eq keqb]: the boolean key equality
   handed to the model decides equality (Python's == on a key domain that does not mix True/1/1.0). *)
From Coq Require Import ZArith List Bool Permutation.
Require Import PV.Model.Keyed PV.Model.KeyedSpec PV.Proofs.Keyed.
Import ListNotations.

(* ---- groupByKey: one entry per distinct key, keys in order of first occurrence, and the values grouped
   under a key are exactly the values of that key in input order *)
Theorem C02_groupByKey_exact : forall K (keqb : K -> K -> bool), decides_eq keqb ->
  forall V (xs : list (K * V)),
  group_by_key keqb xs = map (fun k => (k, values keqb k xs)) (firstkeys keqb (map fst xs)).
Proof. exact @group_by_key_closed. Qed.
Theorem C02_firstkeys_NoDup : forall K (keqb : K -> K -> bool), decides_eq keqb ->
  forall ks : list K, NoDup (firstkeys keqb ks).
Proof. exact @firstkeys_NoDup. Qed.
Theorem C02_firstkeys_In : forall K (keqb : K -> K -> bool), decides_eq keqb ->
  forall (ks : list K) k, In k (firstkeys keqb ks) <-> In k ks.
Proof. exact @firstkeys_In. Qed.
(* nothing is lost or invented: ungrouping gives back the input as a multiset *)
Theorem C02_groupByKey_multiset : forall K (keqb : K -> K -> bool), decides_eq keqb ->
  forall V (xs : list (K * V)),
  Permutation (flat_map (fun kv => map (fun v => (fst kv, v)) (snd kv)) (group_by_key keqb xs)) xs.
Proof. exact @group_by_key_perm. Qed.

(* ---- the join family: every combination of matching-key values appears once (duplicate keys multiply);
   unmatched sides appear paired with None only in the outer variants *)
Theorem C02_join : forall K (keqb : K -> K -> bool), decides_eq keqb ->
  forall V W (xs : list (K * V)) (ys : list (K * W)),
  Permutation (join keqb xs ys) (join_spec keqb xs ys).
Proof. exact @join_perm. Qed.
Theorem C02_leftOuterJoin : forall K (keqb : K -> K -> bool), decides_eq keqb ->
  forall V W (xs : list (K * V)) (ys : list (K * W)),
  Permutation (left_outer_join keqb xs ys) (left_outer_spec keqb xs ys).
Proof. exact @left_outer_join_perm. Qed.
Theorem C02_rightOuterJoin : forall K (keqb : K -> K -> bool), decides_eq keqb ->
  forall V W (xs : list (K * V)) (ys : list (K * W)),
  Permutation (right_outer_join keqb xs ys) (right_outer_spec keqb xs ys).
Proof. exact @right_outer_join_perm. Qed.
Theorem C02_fullOuterJoin : forall K (keqb : K -> K -> bool), decides_eq keqb ->
  forall V W (xs : list (K * V)) (ys : list (K * W)),
  Permutation (full_outer_join keqb xs ys) (full_outer_spec keqb xs ys).
Proof. exact @full_outer_join_perm. Qed.
Theorem C02_leftSemiJoin : forall K (keqb : K -> K -> bool), decides_eq keqb ->
  forall V W (xs : list (K * V)) (ys : list (K * W)),
  Permutation (left_semi_join keqb xs ys) (matched keqb xs ys).
Proof. exact @left_semi_join_eq. Qed.
Theorem C02_leftAntiJoin : forall K (keqb : K -> K -> bool), decides_eq keqb ->
  forall V W (xs : list (K * V)) (ys : list (K * W)),
  Permutation (left_anti_join keqb xs ys) (unmatched keqb xs ys).
Proof. exact @left_anti_join_eq. Qed.

(* ---- cogroup: one entry per key of either side, both value lists in input order *)
Theorem C02_cogroup_exact : forall K (keqb : K -> K -> bool), decides_eq keqb ->
  forall V W (xs : list (K * V)) (ys : list (K * W)),
  cogroup keqb xs ys = cogroup_spec keqb xs ys.
Proof. exact @cogroup_closed. Qed.

(* ---- subtractByKey: the pairs of self whose key does not occur in other *)
Theorem C02_subtractByKey : forall K (keqb : K -> K -> bool), decides_eq keqb ->
  forall V W (xs : list (K * V)) (ys : list (K * W)),
  Permutation (subtract_by_key keqb xs ys) (unmatched keqb xs ys).
Proof. exact @subtract_by_key_perm. Qed.

(* ---- non-vacuity and sanity: the doctest inputs and the duplicate-key join that used to collapse *)
Example join_duplicates :
  join Z.eqb [(1, 10); (1, 20)]%Z [(1, 30); (1, 40)]%Z = [(1, (10, 30)); (1, (10, 40)); (1, (20, 30)); (1, (20, 40))]%Z.
Proof. vm_compute. reflexivity. Qed.
Example Zeqb_decides : decides_eq Z.eqb.
Proof. exact Z.eqb_eq. Qed.
Example full_outer_doctest :
  full_outer_join Z.eqb [(1, 0); (2, 1)]%Z [(2, 2); (3, 3)]%Z
  = [(1, (Some 0, None)); (2, (Some 1, Some 2)); (3, (None, Some 3))]%Z.
Proof. vm_compute. reflexivity. Qed.
