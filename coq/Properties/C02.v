(* C02 -- Keyed, join and set operations follow Spark's multiset semantics.
   Only statements, each closed by [exact] of a lemma from PV.Proofs.Keyed*.

   Model (PV.Model.Keyed): what rdd.py does today -- a defaultdict loop for groupByKey, dict lookups on grouped
   values for the join family (RDD.join included, since the repair), Python sets for cogroup / distinct /
   intersection, one dict per partition merged on the driver for aggregateByKey / countByKey, a partition-wise
   filter for subtract, and Context.parallelize (regenerated kernel) for the partitioning of every result.
   [rdd_X lp rp np] is the list of partitions of the RDD returned by X on inputs partitioned as [lp], [rp];
   [concat] of it is what collect() returns.
   Specs (PV.Model.KeyedSpec): list comprehensions over the flattened inputs [concat lp], [concat rp].
   [Permutation] is multiset equality; where the code fixes more than the multiset (order of keys, of values
   under a key) the theorem is an equation.

   Quantification: ALL key / value types, ALL lists, ALL partitionings of both sides (they appear only through
   [concat]), ALL numPartitions (absent, <= 1, larger than the data).  Only premise: [decides_eq keqb] -- the
   boolean key equality handed to the model decides equality (Python's == on a key domain that does not mix
   True/1/1.0); it is proved for the instance used in the correspondence run ([C02_run_keys_decide_eq]). *)
From Coq Require Import ZArith List Bool Permutation Sorted.
Require Import PV.Model.Keyed PV.Model.KeyedSpec.
Require Import PV.Gen.KeyedJoin.
Require Import PV.Proofs.Keyed PV.Proofs.KeyedAgg PV.Proofs.KeyedRdd PV.Proofs.KeyedPv PV.Proofs.KeyedOrder PV.Proofs.KeyedLink.
Import ListNotations.

(* ================= the property, per method, end to end (partitioned inputs -> collect()) ================= *)

(* groupByKey: one entry per distinct key (first-occurrence order); the values grouped under a key are exactly
   the values of that key in input order *)
Theorem C02_groupByKey : forall K (keqb : K -> K -> bool), decides_eq keqb ->
  forall V (lp : list (list (K * V))) np,
  concat (rdd_group_by_key keqb lp np) = group_spec keqb (concat lp).
Proof. exact @rdd_group_by_key_spec. Qed.
(* ... and nothing is lost or invented: ungrouping gives back the input as a multiset *)
Theorem C02_groupByKey_multiset : forall K (keqb : K -> K -> bool), decides_eq keqb ->
  forall V (xs : list (K * V)),
  Permutation (flat_map (fun kv => map (fun v => (fst kv, v)) (snd kv)) (group_by_key keqb xs)) xs.
Proof. exact @group_by_key_perm. Qed.
Theorem C02_keys_NoDup : forall K (keqb : K -> K -> bool), decides_eq keqb ->
  forall ks : list K, NoDup (firstkeys keqb ks).
Proof. exact @firstkeys_NoDup. Qed.
Theorem C02_keys_In : forall K (keqb : K -> K -> bool), decides_eq keqb ->
  forall (ks : list K) k, In k (firstkeys keqb ks) <-> In k ks.
Proof. exact @firstkeys_In. Qed.

(* reduceByKey: per key, functools.reduce over the values of that key in input order (never the empty reduce);
   for a commutative and associative function the order of the values is immaterial *)
Theorem C02_reduceByKey : forall K (keqb : K -> K -> bool), decides_eq keqb ->
  forall V (f : V -> V -> V) (lp : list (list (K * V))) np,
  concat (rdd_reduce_by_key keqb f lp np)
  = map (fun k => (k, reduce1 f (values keqb k (concat lp)))) (firstkeys keqb (map fst (concat lp))).
Proof. exact @rdd_reduce_by_key_spec. Qed.
Theorem C02_reduceByKey_defined : forall K (keqb : K -> K -> bool), decides_eq keqb ->
  forall V (f : V -> V -> V) (xs : list (K * V)) k r, In (k, r) (reduce_by_key keqb f xs) -> r <> None.
Proof. exact @reduce_by_key_defined. Qed.
Theorem C02_reduce_order_irrelevant : forall V (f : V -> V -> V),
  (forall a b c, f (f a b) c = f a (f b c)) -> (forall a b, f a b = f b a) ->
  forall l l', Permutation l l' -> reduce1 f l = reduce1 f l'.
Proof. exact @reduce1_perm. Qed.

(* aggregateByKey / foldByKey / countByKey: each partition is folded on its own from a copy of the zero value
   and the per-partition dicts are merged; for arguments that satisfy Spark's contract the result is, per key,
   the fold over that key's values in input order *)
Theorem C02_aggregateByKey : forall K (keqb : K -> K -> bool), decides_eq keqb ->
  forall V A (z : A) (s : A -> V -> A) (c : A -> A -> A) (lp : list (list (K * V))),
  agg_hom z s c -> concat (rdd_aggregate_by_key keqb z s c lp) = fold_per_key keqb s z (concat lp).
Proof. exact @rdd_aggregate_by_key_spec. Qed.
Theorem C02_foldByKey : forall K (keqb : K -> K -> bool), decides_eq keqb ->
  forall V (z : V) (op : V -> V -> V) (lp : list (list (K * V))),
  (forall a b c, op (op a b) c = op a (op b c)) -> (forall a, op z a = a) -> (forall a, op a z = a) ->
  fold_by_key keqb z op lp = fold_per_key keqb op z (concat lp).
Proof. exact @fold_by_key_closed. Qed.
Theorem C02_countByKey : forall K (keqb : K -> K -> bool), decides_eq keqb ->
  forall V (lp : list (list (K * V))), count_by_key keqb lp = count_spec keqb (concat lp).
Proof. exact @count_by_key_closed. Qed.

(* cogroup: one entry per key of either side, both value lists in input order *)
Theorem C02_cogroup : forall K (keqb : K -> K -> bool), decides_eq keqb ->
  forall V W (lp : list (list (K * V))) (rp : list (list (K * W))),
  concat (rdd_cogroup keqb lp rp) = cogroup_spec keqb (concat lp) (concat rp).
Proof. exact @rdd_cogroup_spec. Qed.

(* the join family: every combination of matching-key values appears once (duplicate keys multiply);
   unmatched sides appear paired with None only in the outer variants *)
Theorem C02_join : forall K (keqb : K -> K -> bool), decides_eq keqb ->
  forall V W (lp : list (list (K * V))) (rp : list (list (K * W))) np,
  Permutation (concat (rdd_join keqb lp rp np)) (join_spec keqb (concat lp) (concat rp)).
Proof. exact @rdd_join_spec. Qed.
Theorem C02_leftOuterJoin : forall K (keqb : K -> K -> bool), decides_eq keqb ->
  forall V W (lp : list (list (K * V))) (rp : list (list (K * W))),
  Permutation (concat (rdd_left_outer_join keqb lp rp)) (left_outer_spec keqb (concat lp) (concat rp)).
Proof. exact @rdd_left_outer_join_spec. Qed.
Theorem C02_rightOuterJoin : forall K (keqb : K -> K -> bool), decides_eq keqb ->
  forall V W (lp : list (list (K * V))) (rp : list (list (K * W))),
  Permutation (concat (rdd_right_outer_join keqb lp rp)) (right_outer_spec keqb (concat lp) (concat rp)).
Proof. exact @rdd_right_outer_join_spec. Qed.
Theorem C02_fullOuterJoin : forall K (keqb : K -> K -> bool), decides_eq keqb ->
  forall V W (lp : list (list (K * V))) (rp : list (list (K * W))),
  Permutation (concat (rdd_full_outer_join keqb lp rp)) (full_outer_spec keqb (concat lp) (concat rp)).
Proof. exact @rdd_full_outer_join_spec. Qed.
Theorem C02_leftSemiJoin : forall K (keqb : K -> K -> bool), decides_eq keqb ->
  forall V W (lp : list (list (K * V))) (rp : list (list (K * W))),
  Permutation (concat (rdd_left_semi_join keqb lp rp)) (matched keqb (concat lp) (concat rp)).
Proof. exact @rdd_left_semi_join_spec. Qed.
Theorem C02_leftAntiJoin : forall K (keqb : K -> K -> bool), decides_eq keqb ->
  forall V W (lp : list (list (K * V))) (rp : list (list (K * W))),
  Permutation (concat (rdd_left_anti_join keqb lp rp)) (unmatched keqb (concat lp) (concat rp)).
Proof. exact @rdd_left_anti_join_spec. Qed.

(* subtractByKey: the pairs of self whose key does not occur in other; subtract: the elements of self that
   are not == to an element of other, in order, partitions preserved *)
Theorem C02_subtractByKey : forall K (keqb : K -> K -> bool), decides_eq keqb ->
  forall V W (lp : list (list (K * V))) (rp : list (list (K * W))),
  Permutation (concat (rdd_subtract_by_key keqb lp rp)) (unmatched keqb (concat lp) (concat rp)).
Proof. exact @rdd_subtract_by_key_spec. Qed.
Theorem C02_subtract : forall A (aeqb : A -> A -> bool) (lp rp : list (list A)),
  concat (rdd_subtract aeqb lp rp) = filter (fun e => negb (kmem aeqb e (concat rp))) (concat lp).
Proof. exact @rdd_subtract_spec. Qed.
Theorem C02_subtract_In : forall A (aeqb : A -> A -> bool), decides_eq aeqb ->
  forall (parts : list (list A)) (ys : list A) e,
  In e (concat (subtract aeqb parts ys)) <-> In e (concat parts) /\ ~ In e ys.
Proof. exact @subtract_In. Qed.

(* distinct / intersection: no duplicates, and exactly the elements of the input(s) *)
Theorem C02_distinct : forall A (aeqb : A -> A -> bool), decides_eq aeqb ->
  forall (lp : list (list A)) np,
  NoDup (concat (rdd_distinct aeqb lp np)) /\ forall x, In x (concat (rdd_distinct aeqb lp np)) <-> In x (concat lp).
Proof. exact @rdd_distinct_spec. Qed.
Theorem C02_intersection : forall A (aeqb : A -> A -> bool), decides_eq aeqb ->
  forall (lp rp : list (list A)),
  NoDup (concat (rdd_intersection aeqb lp rp))
  /\ forall x, In x (concat (rdd_intersection aeqb lp rp)) <-> In x (concat lp) /\ In x (concat rp).
Proof. exact @rdd_intersection_spec. Qed.

(* cartesian: every combination once, in order; multiplicities multiply *)
Theorem C02_cartesian : forall A B (lp : list (list A)) (rp : list (list B)),
  concat (rdd_cartesian lp rp) = list_prod (concat lp) (concat rp).
Proof. exact @rdd_cartesian_spec. Qed.
Theorem C02_cartesian_multiplicity : forall A B (p : A -> bool) (q : B -> bool) (xs : list A) (ys : list B),
  length (filter (fun ab => p (fst ab) && q (snd ab)) (cartesian xs ys))
  = (length (filter p xs) * length (filter q ys))%nat.
Proof. exact @cartesian_count. Qed.

(* sortByKey(ascending): sorted by key in the requested direction, a permutation of the input, and stable --
   for every total and transitive key order *)
Theorem C02_sortByKey : forall K V (le : K -> K -> bool),
  (forall a b, le a b = true \/ le b a = true) ->
  (forall a b c, le a b = true -> le b c = true -> le a c = true) ->
  forall asc (lp : list (list (K * V))) np,
  let out := concat (rdd_sort_by_key le asc lp np) in
  Sorted (key_le (dir_le le asc)) out /\ Permutation out (concat lp)
  /\ forall k, filter (same_key le k) out = filter (same_key le k) (concat lp).
Proof. exact @rdd_sort_by_key_spec. Qed.

(* ================= the result does not depend on the partitioning of either input or on numPartitions ====== *)
Theorem C02_parallelize_only_reslices : forall A (xs : list A) (num : option Z), concat (parallelize xs num) = xs.
Proof. exact @parallelize_flat. Qed.
Theorem C02_partition_independence : forall K V W (keqb : K -> K -> bool)
  (lp lp' : list (list (K * V))) (rp rp' : list (list (K * W))) (np np' : option Z),
  concat lp = concat lp' -> concat rp = concat rp' ->
  concat (rdd_group_by_key keqb lp np) = concat (rdd_group_by_key keqb lp' np')
  /\ (forall f, concat (rdd_reduce_by_key keqb f lp np) = concat (rdd_reduce_by_key keqb f lp' np'))
  /\ concat (rdd_cogroup keqb lp rp) = concat (rdd_cogroup keqb lp' rp')
  /\ concat (rdd_join keqb lp rp np) = concat (rdd_join keqb lp' rp' np')
  /\ concat (rdd_left_outer_join keqb lp rp) = concat (rdd_left_outer_join keqb lp' rp')
  /\ concat (rdd_right_outer_join keqb lp rp) = concat (rdd_right_outer_join keqb lp' rp')
  /\ concat (rdd_full_outer_join keqb lp rp) = concat (rdd_full_outer_join keqb lp' rp')
  /\ concat (rdd_left_semi_join keqb lp rp) = concat (rdd_left_semi_join keqb lp' rp')
  /\ concat (rdd_left_anti_join keqb lp rp) = concat (rdd_left_anti_join keqb lp' rp')
  /\ concat (rdd_subtract_by_key keqb lp rp) = concat (rdd_subtract_by_key keqb lp' rp')
  /\ concat (rdd_cartesian lp rp) = concat (rdd_cartesian lp' rp')
  /\ (forall le asc, concat (rdd_sort_by_key le asc lp np) = concat (rdd_sort_by_key le asc lp' np')).
Proof. exact @partition_independence. Qed.
Theorem C02_partition_independence_elements : forall A (aeqb : A -> A -> bool)
  (lp lp' rp rp' : list (list A)) (np np' : option Z),
  concat lp = concat lp' -> concat rp = concat rp' ->
  concat (rdd_subtract aeqb lp rp) = concat (rdd_subtract aeqb lp' rp')
  /\ concat (rdd_distinct aeqb lp np) = concat (rdd_distinct aeqb lp' np')
  /\ concat (rdd_intersection aeqb lp rp) = concat (rdd_intersection aeqb lp' rp').
Proof. exact @partition_independence_elements. Qed.
Theorem C02_partition_independence_aggregate : forall K V A (keqb : K -> K -> bool), decides_eq keqb ->
  forall (z : A) (s : A -> V -> A) (c : A -> A -> A) (lp lp' : list (list (K * V))),
  agg_hom z s c -> concat lp = concat lp' ->
  concat (rdd_aggregate_by_key keqb z s c lp) = concat (rdd_aggregate_by_key keqb z s c lp')
  /\ count_by_key keqb lp = count_by_key keqb lp'.
Proof. exact @partition_independence_aggregate. Qed.

(* ================= the instance used by the correspondence run satisfies the premise ======================= *)
Theorem C02_run_keys_decide_eq : decides_eq pv_eqb.
Proof. exact pv_eqb_decides. Qed.
(* ... and the key order of the run (Python's < on ints / strings / int tuples) is total and transitive *)
Theorem C02_run_key_order_total : forall a b, pv_leb a b = true \/ pv_leb b a = true.
Proof. exact pv_leb_total. Qed.
Theorem C02_run_key_order_trans : forall a b c, pv_leb a b = true -> pv_leb b c = true -> pv_leb a c = true.
Proof. exact pv_leb_trans. Qed.
Theorem C02_run_key_order_ints : forall x y, pv_leb (PInt x) (PInt y) = Z.leb x y.
Proof. exact pv_leb_int. Qed.

(* ================= the regenerated kernels are the hand-named definitions the theorems are about ========== *)
(* PV.Gen.KeyedJoin is rewritten from rdd.py on every run: the list comprehension each join hands to flatMap
   (with `k in d` / `d[k]` of the dict it closes over as parameters), subtractByKey's filter and the body of
   groupByKey's loop.  An edit of one of those lambdas changes the generated text and these stop checking. *)
Theorem C02_kernel_join : forall K (keqb : K -> K -> bool) V W (d : list (K * list W)) (kv : K * list V),
  join_fn keqb d kv = gen_join_fn (has_key keqb d) (get_key keqb d) kv.
Proof. exact @join_fn_link. Qed.
Theorem C02_kernel_leftOuterJoin : forall K (keqb : K -> K -> bool) V W (d : list (K * list W)) (kv : K * list V),
  loj_fn keqb d kv = gen_loj_fn (has_key keqb d) (get_key keqb d) kv.
Proof. exact @loj_fn_link. Qed.
Theorem C02_kernel_rightOuterJoin : forall K (keqb : K -> K -> bool) V W (d : list (K * list V)) (kv : K * list W),
  roj_fn keqb d kv = gen_roj_fn (has_key keqb d) (get_key keqb d) kv.
Proof. exact @roj_fn_link. Qed.
Theorem C02_kernel_fullOuterJoin : forall K V W (e : K * (list V * list W)), foj_fn e = gen_foj_fn e.
Proof. exact @foj_fn_link. Qed.
Theorem C02_kernel_leftSemiJoin : forall K (keqb : K -> K -> bool) V W (d : list (K * list W)) (kv : K * list V),
  map (fun e => (fst e, (snd e, tt))) (semi_fn keqb d kv) = gen_semi_fn (has_key keqb d) kv.
Proof. exact @semi_fn_link. Qed.
Theorem C02_kernel_leftAntiJoin : forall K (keqb : K -> K -> bool) V W (d : list (K * list W)) (kv : K * list V),
  map (fun e => (fst e, (snd e, @None unit))) (anti_fn keqb d kv) = gen_anti_fn (has_key keqb d) kv.
Proof. exact @anti_fn_link. Qed.
Theorem C02_kernel_subtractByKey_filter : forall K V W (e : K * (list V * list W)),
  subk_keep e = gen_subk_keep (fst (snd e)) (snd (snd e)).
Proof. exact @subk_keep_link. Qed.
Theorem C02_kernel_groupByKey_loop : forall K (keqb : K -> K -> bool) V (xs : list (K * V)),
  group_by_key keqb xs = build keqb gen_group_step gen_group_init xs.
Proof. exact @group_step_link. Qed.

(* ================= non-vacuity and sanity ================================================================== *)
Example Zeqb_decides : decides_eq Z.eqb.
Proof. exact Z.eqb_eq. Qed.
Example Zleb_total_trans :
  (forall a b, Z.leb a b = true \/ Z.leb b a = true) /\ (forall a b c, Z.leb a b = true -> Z.leb b c = true -> Z.leb a c = true).
Proof.
  split; [intros a b | intros a b c]; rewrite !Z.leb_le; [apply Z.le_ge_cases | apply Z.le_trans].
Qed.
(* a (zero, seqFunc, combFunc) that satisfies the contract: sum *)
Example sum_is_hom : agg_hom (V := Z) 0%Z Z.add Z.add.
Proof.
  intros a b. rewrite fold_left_app. generalize (fold_left Z.add a 0%Z). intros x.
  assert (G : forall l x y, (x + fold_left Z.add l y = fold_left Z.add l (x + y))%Z).
  { induction l as [|v l IH]; intros x0 y; simpl; [reflexivity|]. rewrite IH, Z.add_assoc. reflexivity. }
  rewrite G, Z.add_0_r. reflexivity.
Qed.
(* the duplicate-key join that the old dict()-based join collapsed to one pair, on two partitionings *)
Example join_duplicates :
  concat (rdd_join Z.eqb [[(1, 10)]; [(1, 20)]] [[(1, 30); (1, 40)]] (Some 5))%Z
  = [(1, (10, 30)); (1, (10, 40)); (1, (20, 30)); (1, (20, 40))]%Z.
Proof. vm_compute. reflexivity. Qed.
(* doctests of rdd.py *)
Example full_outer_doctest :
  concat (rdd_full_outer_join Z.eqb [[(1, 0); (2, 1)]] [[(2, 2)]; [(3, 3)]])%Z
  = [(1, (Some 0, None)); (2, (Some 1, Some 2)); (3, (None, Some 3))]%Z.
Proof. vm_compute. reflexivity. Qed.
Example subtract_by_key_doctest :
  concat (rdd_subtract_by_key Z.eqb [[(1, 1); (2, 4)]; [(2, 5); (1, 2)]] [[(1, 3); (3, 0)]])%Z = [(2, 4); (2, 5)]%Z.
Proof. vm_compute. reflexivity. Qed.
Example aggregate_doctest :
  concat (rdd_aggregate_by_key Z.eqb 0 Z.add Z.add [[(1, 1); (2, 2)]; [(1, 3); (3, 4)]])%Z = [(1, 4); (2, 2); (3, 4)]%Z.
Proof. vm_compute. reflexivity. Qed.
(* a zero that is not neutral breaks the contract, and the result then depends on the partitioning (as in Spark) *)
Example aggregate_non_neutral_zero_depends_on_partitioning :
  aggregate_by_key Z.eqb 1 Z.add Z.add [[(1, 1); (1, 1)]]%Z <> aggregate_by_key Z.eqb 1 Z.add Z.add [[(1, 1)]; [(1, 1)]]%Z.
Proof. vm_compute. discriminate. Qed.
