(* C11 -- Windowed and stateful streams equal a fold over the batch history.
   Only statements, each closed by [exact] of a lemma from PV.Proofs.Window*.

   Vocabulary (PV.Model.Window, PV.Proofs.WindowSpec):
     a program is the list of streams in registration order (ssc._dstreams); [final g ts] is the state after the
     tick callback ran at the clock values ts; [increasing 0 ts] says they are positive and strictly increasing;
     [rdd_of st i] is stream i's _current_rdd (RNone = Python None); [obs_of r] is what a consumer sees when it
     collects r (None for RNone); [batches q n] are the batches of intervals 1..n of the queue q ([] once the
     queue is exhausted); [lastn k l] the last k elements of l (all of l when it is shorter). *)
From Coq Require Import ZArith NArith Bool String List.
Require Import PV.Base.Val PV.Gen.Window PV.Model.Window PV.Proofs.Window PV.Proofs.WindowSpec.
Import ListNotations.
Open Scope Z_scope.
Open Scope list_scope.

(* the order of effects in the regenerated WindowedDStream._step is the one the model transcribes
   (0 guard, 1 advance the guard time, 2 step the parent, 3 append, 4 trim, 5 counter, 6 skip test, 7 union) *)
Theorem C11_step_order : win_step_order = [0; 1; 2; 3; 4; 5; 6; 7].
Proof. exact win_step_order_ok. Qed.

(* ---- window_spec.  The windowed stream is stream 1 on the queue source 0; [tail] is ANY list of streams
   registered after it (consumers, consumers of consumers, other windows ...): however many of them step the
   window in a tick, its state is the same. ---- *)

(* at an interval n that is a multiple of the slide, the RDD is the in-order concatenation of the last
   min w n batches *)
Theorem C11_window_spec_emits : forall q w s tail, 0 < s -> forall ts,
  increasing 0 ts -> (0 < length ts)%nat -> Z.of_nat (length ts) mod s = 0 ->
  obs_of (rdd_of (final (Src q :: Window w s 0 :: tail) ts) 1)
  = Some (concat (lastn (Z.to_nat w) (batches q (length ts)))).
Proof. exact window_spec_emits. Qed.

Theorem C11_window_size : forall q w n, length (lastn (Z.to_nat w) (batches q n)) = Nat.min (Z.to_nat w) n.
Proof. exact lastn_batches_length. Qed.

(* at every other interval the windowed stream's RDD is what it was after the previous interval ... *)
Theorem C11_window_spec_unchanged : forall q w s tail, 0 < s -> forall ts t,
  increasing 0 (ts ++ [t]) -> Z.of_nat (S (length ts)) mod s <> 0 ->
  rdd_of (final (Src q :: Window w s 0 :: tail) (ts ++ [t])) 1
  = rdd_of (final (Src q :: Window w s 0 :: tail) ts) 1.
Proof. exact window_spec_unchanged. Qed.

(* ... which is None before the first emission *)
Theorem C11_window_spec_before_first : forall q w s tail, 0 < s -> forall ts,
  increasing 0 ts -> Z.of_nat (length ts) < s ->
  rdd_of (final (Src q :: Window w s 0 :: tail) ts) 1 = RNone.
Proof. exact window_spec_before_first. Qed.

(* the buffer holds the RDD of each of the last min w n intervals exactly once, the slide counter is n mod s
   and the guard time is the last tick's, whatever is registered after the window *)
Theorem C11_window_buffer : forall q w s tail, 0 < s -> forall ts ns,
  increasing 0 ts -> nth_error (gnodes (final (Src q :: Window w s 0 :: tail) ts)) 1 = Some ns ->
  nbuf ns = lastn (Z.to_nat w) (src_rdds q (length ts)) /\ nctr ns = Z.of_nat (length ts) mod s
  /\ ntime ns = last ts 0.
Proof. exact window_buffer. Qed.

(* what k consumers attached to the windowed stream observe: no tick raises, and the log is, tick after tick,
   one capture per consumer, all equal to the window's RDD of that interval *)
Theorem C11_window_consumers : forall q w s k, 0 < s -> forall ts, increasing 0 ts ->
  run_graph (prog_window q w s k) ts = (final (prog_window q w s k) ts, map (fun _ => None) ts) /\
  glog (final (prog_window q w s k) ts) = window_log q w s k 0 ts.
Proof. exact window_program_log. Qed.

(* non-vacuity / sanity: the doctest of DStream.window and the history of the repaired defect *)
Example window_doctest :
  let q := map (fun z => [VInt z]) [1; 2; 3; 4; 5; 6] in
  map (fun e => snd e) (glog (final (prog_window q 3 1 1) [1; 2; 3; 4; 5; 6]))
  = map (fun l => Some (map VInt l)) [[1]; [1; 2]; [1; 2; 3]; [2; 3; 4]; [3; 4; 5]; [4; 5; 6]].
Proof. vm_compute. reflexivity. Qed.
Example window_slide2_two_consumers :
  let q := map (fun z => [VInt z]) [1; 2; 3; 4; 5] in
  map (fun e => snd e) (glog (final (prog_window q 3 2 2) [1; 2; 3; 4]))
  = [None; None; Some [VInt 1; VInt 2]; Some [VInt 1; VInt 2]; Some [VInt 1; VInt 2]; Some [VInt 1; VInt 2];
     Some [VInt 2; VInt 3; VInt 4]; Some [VInt 2; VInt 3; VInt 4]].
Proof. vm_compute. reflexivity. Qed.
Example increasing_example : increasing 0 [1; 2; 4; 7].
Proof. cbn. repeat split; reflexivity. Qed.
