(* C11 -- Windowed and stateful streams equal a fold over the batch history.
   Only statements, each closed by [exact] of a lemma from PV.Proofs.Window and WindowSpec, WindowCount, WindowState.

   Vocabulary (PV.Model.Window and the Proofs files):
     a program is the list of streams in registration order (ssc._dstreams); [final g ts] is the state after the
     tick callback ran at the clock values ts, [run_graph g ts] also returns the exception (if any) that ended
     each tick; [increasing 0 ts]: the clock values are positive and strictly increasing (interval n = n-th tick);
     [rdd_of st i] is stream i's _current_rdd (RNone = Python None, REmpty = EmptyRDD); [obs_of r] is what a
     consumer sees when it collects r (None for RNone); [batches q n] are the batches of intervals 1..n of the
     queue q ([] once the queue is exhausted); [lastn k l] the last k elements of l (all of l when shorter);
     [glog st] the captures (tick time, consumer, collected) of the foreachRDD consumers in the order they happen.
   In the any-tail theorems [tail] is ANY list of streams registered after the stream the theorem is about
   (consumers, consumers of consumers, further windows, ... in any number): however many of them step that stream
   in a tick, and whatever they raise, its state is the same -- this is the "one or several consumers" clause. *)
From Coq Require Import ZArith NArith Bool String List Lia.
Require Import PV.Base.Val PV.Gen.Window PV.Model.Window.
Require Import PV.Proofs.Window PV.Proofs.WindowSpec PV.Proofs.WindowCount PV.Proofs.WindowState PV.Proofs.WindowTick PV.Proofs.WindowAnywhere PV.Proofs.WindowOver.
Import ListNotations.
Open Scope Z_scope.
Open Scope list_scope.

(* the order of effects in the regenerated WindowedDStream._step is the one the model transcribes
   (0 guard, 1 advance the guard time, 2 step the parent, 3 append, 4 trim, 5 counter, 6 skip test, 7 union) *)
Theorem C11_step_order : win_step_order = [0; 1; 2; 3; 4; 5; 6; 7].
Proof. exact win_step_order_ok. Qed.

Theorem C11_other_step_orders :
  tr_step_order = [0; 1; 2; 3; 4] /\ st_step_order = [0; 1; 2; 3; 4; 5] /\ st_state_index_from_end = 1.
Proof. exact other_step_orders_ok. Qed.
(* TransformedWithDStream._step (union): guard, step the parent, step the other parent, set the guard time, apply *)
Theorem C11_union_step_order : tw_step_order = [0; 1; 2; 3; 4].
Proof. exact (eq_refl : tw_step_order = [0; 1; 2; 3; 4]). Qed.

(* a stream whose guard time has reached t is not changed by anything that is stepped at time t *)
Theorem C11_guard_freezes : forall fuel g i t st j ns,
  nth_error (gnodes st) j = Some ns -> t <= ntime ns ->
  nth_error (gnodes (fst (step fuel g i t st))) j = Some ns.
Proof. exact step_frozen. Qed.

(* a tick of ANY well-formed program (streams refer to streams registered earlier), started when no stream has
   reached time t, steps every stream exactly once, in registration order, each seeing the RDD its parent produced
   in this tick ([direct]: the _step body without the recursion into the parent): several consumers stepping the
   same stream are unobservable.  When no stream raises, every stream ends the tick with guard time t. *)
Theorem C11_tick_steps_each_stream_once : forall g t st,
  well_formed g -> (2 <= length g)%nat -> length (gnodes st) = length g ->
  (forall j ns, nth_error (gnodes st) j = Some ns -> ntime ns < t) ->
  tick g t st = direct_nodes g (seq 0 (length g)) t st.
Proof. exact tick_refines. Qed.
Theorem C11_tick_all_stepped : forall g t st,
  well_formed g -> (2 <= length g)%nat -> length (gnodes st) = length g ->
  (forall j ns, nth_error (gnodes st) j = Some ns -> ntime ns < t) ->
  snd (tick g t st) = None ->
  forall j ns, nth_error (gnodes (fst (tick g t st))) j = Some ns -> ntime ns = t.
Proof. exact tick_all_stepped. Qed.

(* ================= window_spec ================= *)

(* at an interval n that is a multiple of the slide, the windowed stream's RDD is the in-order concatenation of
   the last min w n batches *)
Theorem C11_window_spec_emits : forall q w s tail, 0 < s -> forall ts,
  increasing 0 ts -> (0 < length ts)%nat -> Z.of_nat (length ts) mod s = 0 ->
  obs_of (rdd_of (final (Src q :: Window w s 0 :: tail) ts) 1)
  = Some (concat (lastn (Z.to_nat w) (batches q (length ts)))).
Proof. exact window_spec_emits. Qed.

Theorem C11_window_size : forall q w n, length (lastn (Z.to_nat w) (batches q n)) = Nat.min (Z.to_nat w) n.
Proof. exact lastn_batches_length. Qed.

(* at every other interval the windowed stream's RDD is what it was after the previous interval ... *)
Theorem C11_window_spec_unchanged : forall q w s tail, 0 < s -> forall ts t,
  increasing 0 (ts ++ [t]) -> Z.of_nat (S (length ts)) mod s <> 0 ->
  rdd_of (final (Src q :: Window w s 0 :: tail) (ts ++ [t])) 1
  = rdd_of (final (Src q :: Window w s 0 :: tail) ts) 1.
Proof. exact window_spec_unchanged. Qed.

(* ... which is None before the first emission *)
Theorem C11_window_spec_before_first : forall q w s tail, 0 < s -> forall ts,
  increasing 0 ts -> Z.of_nat (length ts) < s ->
  rdd_of (final (Src q :: Window w s 0 :: tail) ts) 1 = RNone.
Proof. exact window_spec_before_first. Qed.

(* the buffer holds the RDD of each of the last min w n intervals exactly once, the slide counter is n mod s
   and the guard time is the last tick's *)
Theorem C11_window_buffer : forall q w s tail, 0 < s -> forall ts ns,
  increasing 0 ts -> nth_error (gnodes (final (Src q :: Window w s 0 :: tail) ts)) 1 = Some ns ->
  nbuf ns = lastn (Z.to_nat w) (src_rdds q (length ts)) /\ nctr ns = Z.of_nat (length ts) mod s
  /\ ntime ns = last ts 0.
Proof. exact window_buffer. Qed.

(* what k consumers attached to the windowed stream observe: no tick raises, and the log is, tick after tick,
   one capture per consumer, all equal to the window's RDD of that interval (window_log / cons_log) *)
Theorem C11_window_consumers : forall q w s k, 0 < s -> forall ts, increasing 0 ts ->
  run_graph (prog_window q w s k) ts = (final (prog_window q w s k) ts, map (fun _ => None) ts) /\
  glog (final (prog_window q w s k) ts) = window_log q w s k 0 ts.
Proof. exact window_consumers. Qed.

(* closed form of the windowed stream's RDD after n intervals (what window_log hands to every consumer): None
   before interval s, afterwards the window of the last emitting interval, the largest multiple of s below n+1 *)
Theorem C11_window_rdd_closed_form : forall q w s n, 0 < s ->
  win_rdd_spec q w s n = if Z.of_nat n <? s then RNone else union_data (win_buf q w (last_emission s n)).
Proof. exact win_rdd_spec_closed. Qed.
Theorem C11_last_emission_spec : forall s n, 0 < s ->
  (last_emission s n <= n)%nat /\ Z.of_nat (last_emission s n) mod s = 0 /\
  Z.of_nat n - Z.of_nat (last_emission s n) < s.
Proof. exact last_emission_spec. Qed.
Theorem C11_window_contents : forall q w n,
  obs_of (union_data (win_buf q w n)) = Some (concat (lastn (Z.to_nat w) (batches q n))).
Proof. exact obs_window. Qed.

(* ================= countByWindow_spec ================= *)
(* countByWindow(w, s) = window(w, s) followed by the three transformed streams of count(); stream 4 is the one
   returned to the user.  At an emitting interval it holds the number of elements of the window -- [count_obs]:
   [n] in general, and nothing at all when the whole window lies behind the end of the queue (count() of an
   EmptyRDD is an empty RDD). *)
Theorem C11_countByWindow_spec_emits : forall q w s tail, 0 < s -> forall ts,
  increasing 0 ts -> (0 < length ts)%nat -> Z.of_nat (length ts) mod s = 0 ->
  obs_of (rdd_of (final (Src q :: Window w s 0 :: Trans FCountParts 1 :: Trans FSetName 2
                          :: Trans FReduceAdd 3 :: tail) ts) 4)
  = Some (count_obs q w (length ts)).
Proof. exact count_spec_emits. Qed.

Theorem C11_count_obs_counts : forall q w n,
  count_obs q w n = if window_exhausted q w n then []
                    else [VInt (Z.of_nat (length (concat (lastn (Z.to_nat w) (batches q n)))))].
Proof. exact (fun q w n => eq_refl). Qed.

Theorem C11_window_exhausted_spec : forall q w n,
  window_exhausted q w n = true <-> forall i, (n - Z.to_nat w <= i < n)%nat -> nth i (sq q) (sd q) = None.
Proof. exact window_exhausted_spec. Qed.

Theorem C11_countByWindow_spec_unchanged : forall q w s tail, 0 < s -> forall ts t,
  increasing 0 (ts ++ [t]) -> Z.of_nat (S (length ts)) mod s <> 0 ->
  rdd_of (final (Src q :: Window w s 0 :: Trans FCountParts 1 :: Trans FSetName 2
                  :: Trans FReduceAdd 3 :: tail) (ts ++ [t])) 4
  = rdd_of (final (Src q :: Window w s 0 :: Trans FCountParts 1 :: Trans FSetName 2
                    :: Trans FReduceAdd 3 :: tail) ts) 4.
Proof. exact count_spec_unchanged. Qed.

(* what k consumers of countByWindow observe: no tick raises; in the intervals before the first emission the
   consumers' functions are not called (the transformed streams wait for their parent's first RDD); every later tick
   logs one capture per consumer of the count stream's RDD (count_log = cons_log of count_rdd of the window's RDD) *)
Theorem C11_countByWindow_consumers : forall q w s k, 0 < s -> forall ts, increasing 0 ts ->
  run_graph (prog_count q w s k) ts = (final (prog_count q w s k) ts, map (fun _ => None) ts) /\
  glog (final (prog_count q w s k) ts) = count_log (win_rdd_spec q w s) k 0 ts.
Proof. exact count_consumers. Qed.

(* the windowed stream's RDD is None -- consumers are not called -- exactly in the intervals before interval s *)
Theorem C11_window_none_iff_early : forall q w s n, 0 < s ->
  is_none_rdd (win_rdd_spec q w s n) = (Z.of_nat n <? s).
Proof. exact is_none_win_rdd_spec. Qed.
Theorem C11_count_none_iff_window_none : forall r, is_none_rdd (count_rdd r) = is_none_rdd r.
Proof. exact is_none_count_rdd. Qed.

(* ================= state_spec ================= *)
(* The queue holds keyed batches kq (encoded as (key, value) tuples); [vals k b] are the values of key k in batch
   b, in order; [fold_key u k bs s0] folds u over the value lists of k in the batches bs ([] when absent).
   A consumer that collects the state stream (stream 1) after interval n decodes a list l of (key, state) pairs
   with distinct keys, in which ... *)

(* ... a key first mentioned in batch b (earlier batches: pre, later ones: post) has the state obtained by folding
   the update function from that first interval to n, starting from None *)
Theorem C11_state_spec : forall u kq tail ts k pre b post,
  increasing 0 ts -> (0 < length ts)%nat ->
  kbatches kq (length ts) = pre ++ b :: post ->
  (forall b', In b' pre -> vals k b' = []) -> vals k b <> [] ->
  exists l, rdd_of (final (Src (enc_queue kq) :: Stateful u 0 :: tail) ts) 1 = RData (map enc_kv l) /\
            NoDup (map fst l) /\
            vals k l = [fold_key u k (b :: post) VNone].
Proof. exact state_spec_seen. Qed.

(* ... a key never mentioned has no entry *)
Theorem C11_state_spec_unseen : forall u kq tail ts k,
  increasing 0 ts -> (0 < length ts)%nat ->
  (forall b, In b (kbatches kq (length ts)) -> vals k b = []) ->
  exists l, rdd_of (final (Src (enc_queue kq) :: Stateful u 0 :: tail) ts) 1 = RData (map enc_kv l) /\
            vals k l = [].
Proof. exact state_spec_unseen. Qed.

(* the state RDD after n intervals is [state_after u kq n]: its keys are exactly the keys mentioned so far, and
   keys never disappear *)
Theorem C11_state_rdd : forall u kq tail ts, increasing 0 ts -> (0 < length ts)%nat ->
  rdd_of (final (Src (enc_queue kq) :: Stateful u 0 :: tail) ts) 1
  = RData (map enc_kv (state_after u kq (length ts))).
Proof. exact state_collected. Qed.
Theorem C11_state_keys : forall u kq n k,
  In k (map fst (state_after u kq n)) <-> exists b, In b (kbatches kq n) /\ In k (map fst b).
Proof. exact state_keys_exact. Qed.
Theorem C11_state_keys_persist : forall u kq n k,
  In k (map fst (state_after u kq n)) -> In k (map fst (state_after u kq (S n))).
Proof. exact state_keys_persist. Qed.

(* the reading "folded over intervals 1..t": for update functions that treat u [] None like "no state" it
   coincides with the fold from the key's first interval ... *)
Theorem C11_state_spec_from_interval_1 : forall u kq tail ts k pre b post,
  no_state_like u ->
  increasing 0 ts -> (0 < length ts)%nat ->
  kbatches kq (length ts) = pre ++ b :: post ->
  (forall b', In b' pre -> vals k b' = []) -> vals k b <> [] ->
  exists l, rdd_of (final (Src (enc_queue kq) :: Stateful u 0 :: tail) ts) 1 = RData (map enc_kv l) /\
            NoDup (map fst l) /\
            vals k l = [fold_key u k (kbatches kq (length ts)) VNone].
Proof. exact state_spec_from_start. Qed.
(* ... and seven of the nine library functions are of that kind; history and idle are not (for them the code's
   reading -- from the key's first interval -- is the only one claimed) *)
Theorem C11_library_no_state_like :
  no_state_like u_sum /\ no_state_like u_last /\ no_state_like u_count /\ no_state_like u_append /\
  no_state_like u_decay /\ no_state_like u_reset /\ no_state_like u_minopt.
Proof.
  exact (conj u_sum_no_state (conj u_last_no_state (conj u_count_no_state (conj u_append_no_state
          (conj u_decay_no_state (conj u_reset_no_state u_minopt_no_state)))))).
Qed.
Theorem C11_library_not_no_state_like : ~ no_state_like u_history /\ ~ no_state_like u_idle.
Proof. exact (conj u_history_not_no_state u_idle_not_no_state). Qed.
(* history, idle and decay change the state of a key that is absent from an interval, so the correspondence run and
   the oracle can see whether the update function is called with [] for it (state_spec: "[] when absent") *)
Theorem C11_library_sees_absent_keys :
  u_history [] (VList []) <> VList [] /\ u_idle [] (VInt 0) <> VInt 0 /\ u_decay [] (VInt 3) <> VInt 3.
Proof. exact absent_key_changes_state. Qed.

(* a None state is a state: last, reset and min-or-None return None, and the key stays in the state RDD (this is
   C11_state_keys / C11_state_keys_persist, which hold for every update function, on concrete histories) *)
Theorem C11_none_is_a_state :
  state_after u_last (plain_k [[(0, VInt 3); (0, VNone)]; []]) 2 = [(0, VNone)] /\
  state_after u_reset (plain_k [[(0, VInt 3)]; []; [(0, VInt 1)]]) 2 = [(0, VNone)] /\
  state_after u_reset (plain_k [[(0, VInt 3)]; []; [(0, VInt 1)]]) 3 = [(0, VInt 1)] /\
  state_after u_minopt (plain_k [[(0, VNone); (1, VInt 2)]; [(1, VNone); (1, VInt (-1))]]) 2 = [(0, VNone); (1, VInt (-1))].
Proof. exact none_is_a_state. Qed.

(* what k consumers of the state stream observe: no tick raises; one capture per consumer and tick, all equal to
   the state RDD of that interval (the state advances once per tick however many consumers there are) *)
Theorem C11_state_consumers : forall u kq k ts, increasing 0 ts ->
  run_graph (prog_state (enc_queue kq) u k) ts
  = (final (prog_state (enc_queue kq) u k) ts, map (fun _ => None) ts) /\
  glog (final (prog_state (enc_queue kq) u k) ts) = cons_log (state_rdd u kq) k 0 ts.
Proof. exact stateful_consumers. Qed.

(* ================= state_spec wherever the stateful stream is registered =================
   [well_formed g]: streams refer to streams registered earlier.  [quiet g]: windows and stateful streams sit directly
   on queue sources (stateful ones on sources of (key, value) batches), the reduce stream of count() sits on its
   setName / mapPartitions streams; capturing consumers, mapPartitions-count and setName streams may sit anywhere; any
   number of sources.  Every program of the property, and every combination of them, is quiet. *)

(* in ANY well-formed program: a stateful stream i on a queue source p, with anything registered before, between and
   after them, holds the fold of the history after every run in which no tick raised *)
Theorem C11_state_spec_anywhere_if_no_raise : forall g p i u kq,
  well_formed g -> (p < i < length g)%nat ->
  nth_error g p = Some (Src (enc_queue kq)) -> nth_error g i = Some (Stateful u p) ->
  forall ts, increasing 0 ts -> snd (run_graph g ts) = map (fun _ => None) ts ->
  rdd_of (final g ts) i = state_rdd u kq (length ts).
Proof. exact state_anywhere_if_no_raise. Qed.

(* no tick of a quiet well-formed program raises ... *)
Theorem C11_quiet_never_raises : forall g, well_formed g -> quiet g -> (2 <= length g)%nat ->
  forall ts, increasing 0 ts -> snd (run_graph g ts) = map (fun _ => None) ts.
Proof. exact quiet_never_raises. Qed.

(* ... hence state_spec in full for them, wherever the stateful stream and its source are registered *)
Theorem C11_state_spec_anywhere : forall g, well_formed g -> quiet g -> (2 <= length g)%nat ->
  forall p i u kq ts, (p < i < length g)%nat ->
  nth_error g p = Some (Src (enc_queue kq)) -> nth_error g i = Some (Stateful u p) ->
  increasing 0 ts ->
  rdd_of (final g ts) i = state_rdd u kq (length ts).
Proof. exact state_anywhere. Qed.

(* the state RDD read key by key (with C11_state_keys, C11_state_keys_persist above) *)
Theorem C11_state_rdd_unfold : forall u kq n, state_rdd u kq (S n) = RData (map enc_kv (state_after u kq (S n))).
Proof. exact state_rdd_S. Qed.
Theorem C11_state_after_per_key : forall u kq n k pre b post,
  kbatches kq n = pre ++ b :: post -> (forall b', In b' pre -> vals k b' = []) -> vals k b <> [] ->
  vals k (state_after u kq n) = [fold_key u k (b :: post) VNone].
Proof. exact state_after_seen. Qed.

(* updateStateByKey registered after countByWindow(w, s) and its k consumers on the same source -- the history of the
   repaired defect 7e069b7 -- for every w, s, update function, k and history: nothing raises, no batch is lost *)
Theorem C11_state_after_countByWindow : forall kq w s u k ts, increasing 0 ts ->
  rdd_of (final (prog_count_state (enc_queue kq) w s u k) ts) (5 + k) = state_rdd u kq (length ts) /\
  snd (run_graph (prog_count_state (enc_queue kq) w s u k) ts) = map (fun _ => None) ts.
Proof. exact state_after_count. Qed.
(* and registered after window(w, s) and its k consumers *)
Theorem C11_state_beside_window : forall kq w s u k ts, increasing 0 ts ->
  rdd_of (final (prog_both (enc_queue kq) w s u k) ts) (2 + k) = state_rdd u kq (length ts) /\
  snd (run_graph (prog_both (enc_queue kq) w s u k) ts) = map (fun _ => None) ts.
Proof. exact state_beside_window. Qed.

(* ================= windows over derived streams =================
   The parent of the window need not be a source: [rdd_trace g p ts st] lists the RDDs stream p holds after each tick
   of the run (what the parent emitted, as it emitted them). *)

(* in ANY well-formed program, a windowed stream i on ANY parent stream p < i (a transformed, stateful, union ...
   stream, anything registered around them): after every run in which no tick raised, the buffer holds exactly the
   parent's most recent w RDDs in order, and at an emitting interval the window's RDD is Context.union of them *)
Theorem C11_window_over_any_parent : forall g p i w s,
  well_formed g -> (p < i < length g)%nat -> nth_error g i = Some (Window w s p) -> 0 < s ->
  forall ts, increasing 0 ts -> snd (run_graph g ts) = map (fun _ => None) ts ->
  exists nsi, nth_error (gnodes (final g ts)) i = Some nsi /\
    nbuf nsi = lastn (Z.to_nat w) (rdd_trace g p ts (init_state g)) /\
    nctr nsi = Z.of_nat (length ts) mod s /\
    (ts <> [] -> Z.of_nat (length ts) mod s = 0 -> union (nbuf nsi) = Ok (nrdd nsi)).
Proof. exact window_over_any. Qed.
(* Context.union is the in-order concatenation of the collected members *)
Theorem C11_union_collect : forall l r, union l = Ok r -> collect r = concat (map collect l).
Proof. exact union_ok_collect. Qed.

(* window(w, s) / countByWindow(w, s) over q.map(f), q.filter(f), q.flatMap(f), q.updateStateByKey(u), q.union(q2),
   q.transform(f) (variants 0, 1, 2, 4, 5, 6 of [derived_parent]) with k consumers and a consumer on the parent: these
   programs are well-formed and quiet, no tick raises, and the window holds the parent's most recent w batches as the
   parent emitted them (for a window of state snapshots: the state RDDs of the last w intervals) *)
Theorem C11_window_over_derived : forall pv u qq pre count w s k ts,
  derived_parent pv u qq = Some pre -> In pv [0; 1; 2; 4; 5; 6] -> (pv = 4 -> keyed_source qq) ->
  0 < s -> increasing 0 ts ->
  let g := prog_window_over count pre w s k in
  snd (run_graph g ts) = map (fun _ => None) ts /\
  exists nsi, nth_error (gnodes (final g ts)) (length pre) = Some nsi /\
    nbuf nsi = lastn (Z.to_nat w) (rdd_trace g (length pre - 1) ts (init_state g)) /\
    nctr nsi = Z.of_nat (length ts) mod s /\
    (ts <> [] -> Z.of_nat (length ts) mod s = 0 ->
     union (nbuf nsi) = Ok (nrdd nsi) /\ collect (nrdd nsi) = concat (map collect (nbuf nsi))).
Proof. exact window_over_derived. Qed.

(* ================= sibling windowed views of one source =================
   The queue source is stream 0 ([source]: entries, None = an explicit idle interval whose RDD is an EmptyRDD, and the
   default batch handed out whenever the queue is EMPTY -- all theorems above are for such sources; [batches q n] lists
   what intervals 1..n held: an entry's elements, nothing for an idle entry, the default's elements once the queue has
   run dry, whatever the identity of the batch objects). *)

(* a windowed view of the source registered ANYWHERE after it, among any other streams -- sibling views of the same or
   other lengths and slides, in any order: after every run in which no tick raised it holds the source's most recent w
   interval RDDs and at ITS emitting intervals a consumer sees exactly the concatenation of the most recent w batches *)
Theorem C11_window_view_of_source : forall q tail i w s ts,
  well_formed (Src q :: tail) -> (0 < i < length (Src q :: tail))%nat ->
  nth_error (Src q :: tail) i = Some (Window w s 0) -> 0 < s ->
  increasing 0 ts -> snd (run_graph (Src q :: tail) ts) = map (fun _ => None) ts ->
  exists nsi, nth_error (gnodes (final (Src q :: tail) ts)) i = Some nsi /\
    nbuf nsi = win_buf q w (length ts) /\ nctr nsi = Z.of_nat (length ts) mod s /\
    (ts <> [] -> Z.of_nat (length ts) mod s = 0 ->
     obs_of (nrdd nsi) = Some (concat (lastn (Z.to_nat w) (batches q (length ts))))).
Proof. exact window_view_of_source. Qed.

(* programs made of sibling views (window / countByWindow of the source, one consumer each, any list of (count?, w, s)):
   well-formed and quiet, so no tick raises and every view satisfies the above unconditionally *)
Theorem C11_sibling_views : forall q views i w s ts,
  views <> [] -> nth_error (prog_views q views) i = Some (Window w s 0) -> 0 < s -> increasing 0 ts ->
  snd (run_graph (prog_views q views) ts) = map (fun _ => None) ts /\
  exists nsi, nth_error (gnodes (final (prog_views q views) ts)) i = Some nsi /\
    nbuf nsi = win_buf q w (length ts) /\ nctr nsi = Z.of_nat (length ts) mod s /\
    (ts <> [] -> Z.of_nat (length ts) mod s = 0 ->
     obs_of (nrdd nsi) = Some (concat (lastn (Z.to_nat w) (batches q (length ts))))).
Proof. exact sibling_views. Qed.

(* ================= non-vacuity / sanity ================= *)
Example increasing_example : increasing 0 [1; 2; 4; 7].
Proof. cbn. repeat split; reflexivity. Qed.
(* the doctest of DStream.window *)
Example window_doctest :
  let q := plain_source (map (fun z => [VInt z]) [1; 2; 3; 4; 5; 6]) in
  map (fun e => snd e) (glog (final (prog_window q 3 1 1) [1; 2; 3; 4; 5; 6]))
  = map (fun l => Some (map VInt l)) [[1]; [1; 2]; [1; 2; 3]; [2; 3; 4]; [3; 4; 5]; [4; 5; 6]].
Proof. vm_compute. reflexivity. Qed.
(* the history of the repaired defect e98bc04: slide 2, two consumers (not called in interval 1) *)
Example window_slide2_two_consumers :
  let q := plain_source (map (fun z => [VInt z]) [1; 2; 3; 4; 5]) in
  map (fun e => snd e) (glog (final (prog_window q 3 2 2) [1; 2; 3; 4]))
  = [Some [VInt 1; VInt 2]; Some [VInt 1; VInt 2]; Some [VInt 1; VInt 2]; Some [VInt 1; VInt 2];
     Some [VInt 2; VInt 3; VInt 4]; Some [VInt 2; VInt 3; VInt 4]].
Proof. vm_compute. reflexivity. Qed.
(* the doctest of countByWindow; and a slide of 2: nothing is logged (and nothing raises) in the first interval *)
Example count_doctest :
  let q := plain_source (map (map VInt) [[1; 1; 5]; [5; 5; 2; 4]; [1; 2]]) in
  map (fun e => snd e) (glog (final (prog_count q 2 1 1) [1; 2; 3]))
  = [Some [VInt 3]; Some [VInt 7]; Some [VInt 6]].
Proof. vm_compute. reflexivity. Qed.
Example count_slide2_waits :
  let q := plain_source (map (map VInt) [[1; 1]; [2]]) in
  run_graph (prog_count q 2 2 1) [1; 2] = (final (prog_count q 2 2 1) [1; 2], [None; None]) /\
  glog (final (prog_count q 2 2 1) [1; 2]) = [(2, 0, Some [VInt 3])].
Proof. vm_compute. split; reflexivity. Qed.
(* the second doctest of updateStateByKey (sum), keys 0 = 'a', 1 = 'b' *)
Example state_doctest :
  let kq := plain_k ([[(0, VInt 1)]; [(0, VInt 2); (1, VInt 4); (1, VInt 3)]]) in
  state_after u_sum kq 2 = [(0, VInt 3); (1, VInt 7)].
Proof. vm_compute. reflexivity. Qed.
(* the hypotheses of C11_state_spec are satisfiable: key 1 first appears in the second batch *)
Example state_spec_instance :
  let kq := plain_k ([[(0, VInt 1)]; [(0, VInt 2); (1, VInt 4); (1, VInt 3)]; []]) in
  kbatches kq 3 = [[(0, VInt 1)]] ++ [(0, VInt 2); (1, VInt 4); (1, VInt 3)] :: [[]] /\
  vals 1 [(0, VInt 1)] = [] /\ vals 1 [(0, VInt 2); (1, VInt 4); (1, VInt 3)] <> [] /\
  fold_key u_sum 1 ([(0, VInt 2); (1, VInt 4); (1, VInt 3)] :: [[]]) VNone = VInt 7.
Proof. vm_compute. repeat split. discriminate. Qed.
(* the hypotheses of the tick theorems are satisfiable: a window with two consumers and a stateful stream with
   one, before the first tick *)
Example tick_theorem_instance :
  let g := prog_both (plain_source [[VTup [VInt 0; VInt 1]]]) 2 2 u_sum 1 in
  well_formed g /\ (2 <= length g)%nat /\ length (gnodes (init_state g)) = length g /\
  (forall j ns, nth_error (gnodes (init_state g)) j = Some ns -> ntime ns < 1) /\
  snd (tick g 1 (init_state g)) = None.
Proof.
  cbv zeta. split; [|split; [|split; [|split]]].
  - intros j nd H. do 5 (destruct j as [|j]; [inversion H; subst; cbn; lia|]). destruct j; discriminate.
  - cbn. lia.
  - reflexivity.
  - intros j ns H. do 5 (destruct j as [|j]; [inversion H; subst; cbn; reflexivity|]). destruct j; discriminate.
  - vm_compute. reflexivity.
Qed.
(* the regression case corpus/C11/finding_count_then_state.json: countByWindow(1, 2) before updateStateByKey(sum) *)
Example repaired_7e069b7 :
  let g := prog_count_state (enc_queue (plain_k [[(0, VInt 1)]])) 1 2 u_sum 1 in
  rdd_of (final g [1; 2]) 6 = RData [VTup [VInt 0; VInt 1]] /\ snd (run_graph g [1; 2]) = [None; None].
Proof. vm_compute. split; reflexivity. Qed.
(* a key that is absent for two intervals: the update function is applied to [] in each of them *)
Example absent_key_is_updated :
  let kq := plain_k ([[(0, VInt 4)]; []; []]) in
  state_after u_idle kq 3 = [(0, VInt 2)] /\
  state_after u_history kq 3 = [(0, VList [VList [VInt 4]; VList []; VList []])] /\
  state_after u_decay kq 3 = [(0, VInt 1)].
Proof. vm_compute. repeat split. Qed.
(* a window of state snapshots: window(2, 1) over updateStateByKey(sum); consumer 0 sees the window, consumer 1 the
   parent; and a window over a union of two queues *)
Example window_of_state_snapshots :
  let q := enc_queue (plain_k [[(0, VInt 1)]; [(1, VInt 2); (0, VInt 3)]]) in
  match derived_parent 4 u_sum q with
  | Some pre => map (fun e => snd e) (glog (final (prog_window_over false pre 2 1 1) [1; 2]))
  | None => []
  end
  = [Some [VTup [VInt 0; VInt 1]]; Some [VTup [VInt 0; VInt 1]];
     Some [VTup [VInt 0; VInt 1]; VTup [VInt 0; VInt 4]; VTup [VInt 1; VInt 2]];
     Some [VTup [VInt 0; VInt 4]; VTup [VInt 1; VInt 2]]].
Proof. vm_compute. reflexivity. Qed.
(* an idle entry next to a default: interval 2 is EMPTY, the default [9] appears from interval 3 on; two sibling views *)
Example idle_entry_and_default :
  let q := mkSource [Some [VInt 1]; None] (Some [VInt 9]) in
  batches q 4 = [[VInt 1]; []; [VInt 9]; [VInt 9]] /\
  map (fun e => snd e) (glog (final (prog_views q [(false, 2, 1); (true, 2, 2)]) [1; 2; 3; 4]))
  = [Some [VInt 1]; Some [VInt 1]; Some [VInt 1]; Some [VInt 9]; Some [VInt 1]; Some [VInt 9; VInt 9]; Some [VInt 2]].
Proof. vm_compute. split; reflexivity. Qed.
