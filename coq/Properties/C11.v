(* C11 -- Windowed and stateful streams equal a fold over the batch history.
   Only statements, each closed by [exact] of a lemma from PV.Proofs.Window. *)
From Coq Require Import ZArith NArith Bool String List.
Require Import PV.Base.Val PV.Gen.Window PV.Model.Window PV.Proofs.Window.
Import ListNotations.
Open Scope Z_scope.

Theorem C11_step_order : win_step_order = [0; 1; 2; 3; 4; 5; 6; 7].
Proof. exact win_step_order_ok. Qed.
