(* C14 -- Grouped aggregation is correct and independent of partitioning.
   Only statements, each closed by [exact] of a lemma from PV.Proofs.Agg*. *)
From Coq Require Import ZArith List Bool.
Require Import PV.Model.Agg PV.Proofs.AggGrouped.
Import ListNotations.

(* Generic driver (GroupedStats.merge / mergeStats under RDD.aggregate), for EVERY list of partitions -- any number,
   empty ones included -- every key type with a correct equality and every aggregator whose mergeStats agrees with
   folding the concatenated rows on non-empty row lists:
   the groups come out in first-seen order of the concatenated partitions, and each group's state is equivalent to
   the fold of the aggregator over that group's own rows. *)
Theorem C14_aggregate_hom :
  forall (Row K S O : Type) (keqb : K -> K -> bool) (key : Row -> K) (A : aggregator Row S O),
    (forall a b, keqb a b = true <-> a = b) ->
    forall (eqS : S -> S -> Prop) (eqO : O -> O -> Prop), agg_laws_ne A eqS eqO ->
    forall ps : list (list Row),
      Forall2 (fun g h => fst g = fst h /\ eqS (snd g) (snd h))
              (g_aggregate keqb key A ps) (g_spec keqb key A (concat ps)).
Proof. exact aggregate_hom. Qed.
