(* C14 -- Grouped aggregation is correct and independent of partitioning.
   Only statements, each closed by [exact] of a lemma from PV.Proofs.Agg*.

   Structure of the argument (all over the model PV.Model.Agg of GroupedStats / RDD.aggregate / the aggregate classes):
   1. generic driver: for EVERY list of partitions the grouped result is, group by group and in first-seen order,
      the fold of the aggregator over the group's own rows -- provided mergeStats is a homomorphism (agg_laws_ne);
   2. combinators: a list of stats per group, pivot slots and output mapping preserve the laws; a pivot slot holds
      the fold over the rows with that pivot value;
   3. every aggregate class satisfies the laws (X_hom) and its read-out is the textbook formula over the group's
      non-null values (X_direct); moment aggregates over R (exact arithmetic), with the arithmetic of
      update_moments / merge_moments regenerated from stat_counter.py into PV.Gen.AggMoments.
   All 20 aggregate classes satisfy the full laws (Last since the repair cee87a5 of the finding of this check). *)
From Coq Require Import ZArith List Bool Reals Permutation.
Require Import PV.Base.Num PV.Base.NumR PV.Base.NumSqrt PV.Gen.AggMoments.
Require Import PV.Model.Agg PV.Proofs.AggGrouped PV.Proofs.AggInstances PV.Proofs.AggMoments PV.Proofs.AggSubtotals
  PV.Proofs.AggPerm.
Import ListNotations.

(** * 1. the partition driver *)

(* any number of partitions, empty ones included; any key type with a correct equality *)
Theorem C14_aggregate_hom :
  forall (Row K S O : Type) (keqb : K -> K -> bool) (key : Row -> K) (A : aggregator Row S O),
    (forall a b, keqb a b = true <-> a = b) ->
    forall (eqS : S -> S -> Prop) (eqO : O -> O -> Prop), agg_laws_ne A eqS eqO ->
    forall ps : list (list Row),
      Forall2 (fun g h => fst g = fst h /\ eqS (snd g) (snd h))
              (g_aggregate keqb key A ps) (g_spec keqb key A (concat ps)).
Proof. exact aggregate_hom. Qed.

(* one row per distinct key combination (null being a key value like any other), in first-seen order *)
Theorem C14_one_row_per_key :
  forall (Row K S O : Type) (keqb : K -> K -> bool) (key : Row -> K) (A : aggregator Row S O),
    (forall a b, keqb a b = true <-> a = b) ->
    forall ps : list (list Row),
      map fst (g_aggregate keqb key A ps) = first_keys keqb (map key (concat ps))
      /\ NoDup (first_keys keqb (map key (concat ps)))
      /\ (forall k, In k (first_keys keqb (map key (concat ps))) <-> In k (map key (concat ps))).
Proof. exact keys_aggregate_full. Qed.

(* the evaluated rows: each group's output is out (fold step init rows_of_group) *)
Theorem C14_result_hom :
  forall (Row K S O : Type) (keqb : K -> K -> bool) (key : Row -> K) (A : aggregator Row S O),
    (forall a b, keqb a b = true <-> a = b) ->
    forall (eqS : S -> S -> Prop) (eqO : O -> O -> Prop), agg_laws_ne A eqS eqO ->
    forall ps : list (list Row),
      Forall2 (fun g h => fst g = fst h /\ eqO (snd g) (snd h))
              (g_result A (g_aggregate keqb key A ps)) (g_result A (g_spec keqb key A (concat ps))).
Proof. exact result_hom. Qed.

(* exact aggregators: the rows are literally those of the reference, hence of the single partition *)
Theorem C14_partition_independent_exact :
  forall (Row K S O : Type) (keqb : K -> K -> bool) (key : Row -> K) (A : aggregator Row S O),
    (forall a b, keqb a b = true <-> a = b) -> agg_laws_ne A eq eq ->
    forall ps : list (list Row),
      g_result A (g_aggregate keqb key A ps) = g_result A (g_aggregate keqb key A [concat ps]).
Proof. exact partition_independent_exact. Qed.

(* a different assignment of the rows to partitions only permutes the concatenation: for aggregators whose fold does not
   depend on the row order the result has the same keys and an equivalent state for every key *)
Theorem C14_assignment_independent :
  forall (Row K S O : Type) (keqb : K -> K -> bool) (key : Row -> K) (A : aggregator Row S O),
    (forall a b, keqb a b = true <-> a = b) ->
    forall eqS : S -> S -> Prop, perm_invariant A eqS ->
    forall rows rows', Permutation rows rows' ->
      (forall k, In k (first_keys keqb (map key rows)) <-> In k (first_keys keqb (map key rows')))
      /\ (forall k, eqS (a_fold A (rows_of keqb key k rows)) (a_fold A (rows_of keqb key k rows'))).
Proof. exact spec_perm. Qed.

(** * 2. combinators *)
Theorem C14_stats_list_hom :
  forall Row O (l : list (lawful Row O)),
    (forall w, In w l -> agg_laws_ne (p_agg (lw_p w)) (lw_eqS w) (lw_eqO w)) ->
    agg_laws_ne (agg_all (map (@lw_p Row O) l)) (all_eqS l) (all_eqO l).
Proof. exact laws_ne_all. Qed.

(* every stat of the list sees exactly what it would see alone *)
Theorem C14_stats_list_direct :
  forall Row O (l : list (packed Row O)) rows,
    a_out (agg_all l) (a_fold (agg_all l) rows) = map (fun p => a_out (p_agg p) (a_fold (p_agg p) rows)) l.
Proof. exact out_all. Qed.

(* sharing remark: in the model the stats of a group are VALUES (GroupedStats.merge copies every stat of the list
   separately), so passing the same aggregate Column object twice to agg() -- as it is, under an alias, inside two
   expressions, or after it went through another grouping -- cannot make a difference: both occurrences yield what
   the aggregate yields alone.  That the implementation really copies per element is carried by the correspondence
   run and the oracle on agg() lists with shared Column objects. *)
Theorem C14_same_aggregate_twice :
  forall Row O (p : packed Row O) (l : list (packed Row O)) rows,
    a_out (agg_all (p :: p :: l)) (a_fold (agg_all (p :: p :: l)) rows) =
    a_out (p_agg p) (a_fold (p_agg p) rows) :: a_out (p_agg p) (a_fold (p_agg p) rows)
    :: a_out (agg_all l) (a_fold (agg_all l) rows).
Proof. exact out_all_twice. Qed.

(* pivot_spec: the slot of pivot value p is the fold over the group's rows whose pivot column equals p ... *)
Theorem C14_pivot_spec :
  forall (Row P S O : Type) (peqb : P -> P -> bool) (pv_of : Row -> P) (A : aggregator Row S O) pvs rows,
    a_fold (agg_pivot peqb pv_of pvs A) rows = map (fun p => a_fold A (filter (fun r => peqb (pv_of r) p) rows)) pvs.
Proof. exact pivot_fold. Qed.

(* ... and the pivoted aggregator is again lawful (needs the unit laws: slots can be empty in a partial) *)
Theorem C14_pivot_hom :
  forall (Row P S O : Type) (peqb : P -> P -> bool) (pv_of : Row -> P) (A : aggregator Row S O)
         (eqS : S -> S -> Prop) (eqO : O -> O -> Prop),
    agg_laws A eqS eqO -> forall pvs, agg_laws (agg_pivot peqb pv_of pvs A) (Forall2 eqS) (Forall2 eqO).
Proof. exact laws_pivot. Qed.

(** * 3. the aggregate classes *)

(* collect_list: exact; the non-null values in row order *)
Theorem C14_collect_list_hom : forall Row E (get : Row -> option E), agg_laws (collect_list_agg get) eq eq.
Proof. exact collect_list_laws. Qed.
Theorem C14_collect_list_direct :
  forall Row E (get : Row -> option E) rows, a_fold (collect_list_agg get) rows = values_of get rows.
Proof. exact collect_list_direct. Qed.

(* collect_set / countDistinct / sumDistinct: the state is the duplicate-free list of the non-null values; two
   states with the same elements are permutations of each other (set equality) *)
Theorem C14_set_hom :
  forall Row E O (eqb : E -> E -> bool) (get : Row -> option E) (outf : list E -> O),
    (forall a b, eqb a b = true <-> a = b) -> agg_laws (set_agg eqb get outf) eq eq.
Proof. exact set_laws. Qed.
Theorem C14_set_direct :
  forall Row E O (eqb : E -> E -> bool) (get : Row -> option E) (outf : list E -> O),
    (forall a b, eqb a b = true <-> a = b) ->
    forall rows, NoDup (a_fold (set_agg eqb get outf) rows)
                 /\ forall x, In x (a_fold (set_agg eqb get outf) rows) <-> In x (values_of get rows).
Proof. exact set_direct_full. Qed.
Theorem C14_set_up_to_set_equality :
  forall Row E O (eqb : E -> E -> bool) (get : Row -> option E) (outf : list E -> O),
    (forall a b, eqb a b = true <-> a = b) ->
    forall rows rows', (forall x, In x (values_of get rows) <-> In x (values_of get rows')) ->
      Permutation (a_fold (set_agg eqb get outf) rows) (a_fold (set_agg eqb get outf) rows').
Proof. exact set_states_perm. Qed.

Theorem C14_set_order_insensitive :
  forall Row E O (eqb : E -> E -> bool) (get : Row -> option E) (outf : list E -> O),
    (forall a b, eqb a b = true <-> a = b) -> perm_invariant (set_agg eqb get outf) (@Permutation E).
Proof. exact set_perm_invariant. Qed.
Theorem C14_collect_list_order_insensitive :
  forall Row E (get : Row -> option E), perm_invariant (collect_list_agg get) (@Permutation E).
Proof. exact collect_list_perm_invariant. Qed.

(* first (with and without ignore_nulls): exact, full laws *)
Theorem C14_first_hom :
  forall (Ops : NumOps) Row (get : Row -> @cell Ops) ign, agg_laws (first_agg get ign) eq eq.
Proof. exact @first_laws. Qed.
Theorem C14_first_direct :
  forall (Ops : NumOps) Row (get : Row -> @cell Ops) ign rows,
    a_out (first_agg get ign) (a_fold (first_agg get ign) rows) = first_direct get ign rows.
Proof. exact @first_out_direct. Qed.

(* last (with and without ignore_nulls): exact, full laws (repaired by cee87a5: a partial that saw no row is skipped) *)
Theorem C14_last_hom :
  forall (Ops : NumOps) Row (get : Row -> @cell Ops) ign, agg_laws (last_agg get ign) eq eq.
Proof. exact @last_laws. Qed.
Theorem C14_last_direct :
  forall (Ops : NumOps) Row (get : Row -> @cell Ops) ign rows,
    a_out (last_agg get ign) (a_fold (last_agg get ign) rows) = last_direct get ign rows.
Proof. exact @last_out_direct. Qed.

(* count / sum / avg / min / max / variance / stddev / skewness / kurtosis: ColumnStatHelper over R.
   The state after ANY rows is a function of the list of non-null values; mergeStats of two states is the state of
   the concatenation -- exactly, including sides that saw no non-null value. *)
Theorem C14_stat_state :
  forall Row O (getn : Row -> option (@num ROps)) (outf : @csh ROps -> O) rows,
    a_fold (stat_agg (get_of _ getn) outf) rows = csh_of (nums_of _ getn rows).
Proof. exact stat_fold. Qed.
Theorem C14_stat_hom :
  forall Row O (getn : Row -> option (@num ROps)) (outf : @csh ROps -> O),
    agg_laws (stat_agg (get_of _ getn) outf) eq eq.
Proof. exact stat_laws. Qed.
Theorem C14_mergeStats_concat :
  forall xs ys : list (@num ROps), csh_merge (csh_of xs) (csh_of ys) = csh_of (xs ++ ys).
Proof. exact csh_merge_of. Qed.

(* count, the value of sum and the central moments do not depend on the order of the rows, and they determine
   count / avg / variance / stddev / skewness / kurtosis *)
Theorem C14_stat_order_insensitive :
  forall Row O (getn : Row -> option (@num ROps)) (outf : @csh ROps -> O),
    perm_invariant (stat_agg (get_of _ getn) outf) csh_eqv.
Proof. exact stat_perm_invariant. Qed.
Theorem C14_stat_readouts_determined :
  forall s t : @csh ROps, csh_eqv s t ->
    csh_count s = csh_count t /\ csh_avg s = csh_avg t /\ csh_var_pop s = csh_var_pop t /\
    csh_var_samp s = csh_var_samp t /\ csh_std_pop s = csh_std_pop t /\ csh_std_samp s = csh_std_samp t /\
    csh_skew s = csh_skew t /\ csh_kurt s = csh_kurt t.
Proof. exact csh_eqv_readouts. Qed.

(* the moment fields are the textbook central sums: sum of (x - mean)^k, k = 2, 3, 4 (definition of csh_of);
   the regenerated kernels maintain them: *)
Theorem C14_update_moments_central :
  forall (l : list R) (x : R), l <> [] ->
    @csh_update_moments ROps (Z.of_nat (length l)) (rmean l) (cm 2 l) (cm 3 l) (cm 4 l) x =
    (cm 2 (l ++ [x]), cm 3 (l ++ [x]), cm 4 (l ++ [x])).
Proof. exact cm_snoc_pos. Qed.
Theorem C14_merge_moments_central :
  forall l1 l2 : list R, l1 <> [] -> l2 <> [] ->
    @csh_merge_moments ROps (Z.of_nat (length l1)) (rmean l1) (cm 2 l1) (cm 3 l1) (cm 4 l1)
                            (Z.of_nat (length l2)) (rmean l2) (cm 2 l2) (cm 3 l2) (cm 4 l2) =
    (cm 2 (l1 ++ l2), cm 3 (l1 ++ l2), cm 4 (l1 ++ l2)).
Proof. exact cm_app. Qed.

(* X_direct: read-outs of the state of the values xs (l = their real values, n = their number) *)
Theorem C14_count_direct : forall xs, csh_count (csh_of xs) = CNum (NI (Z.of_nat (length xs))).
Proof. exact count_direct. Qed.
Theorem C14_sum_direct :
  forall xs, (xs = [] -> csh_sum (csh_of xs) = CNull) /\
             (xs <> [] -> exists s, csh_sum (csh_of xs) = CNum s /\ num_F s = rsum (vals xs)).
Proof. exact sum_direct_both. Qed.
Theorem C14_avg_direct :
  forall xs, xs <> [] -> csh_avg (csh_of xs) = cf (rsum (vals xs) / IZR (Z.of_nat (length xs))).
Proof. exact avg_direct. Qed.
Theorem C14_min_direct :
  forall xs, xs <> [] ->
    exists m, csh_min (csh_of xs) = CNum m /\ In m xs /\ forall v, In v xs -> (num_F m <= num_F v)%R.
Proof. exact min_direct. Qed.
Theorem C14_max_direct :
  forall xs, xs <> [] ->
    exists m, csh_max (csh_of xs) = CNum m /\ In m xs /\ forall v, In v xs -> (num_F v <= num_F m)%R.
Proof. exact max_direct. Qed.
Theorem C14_var_pop_direct :
  forall xs, xs <> [] -> csh_var_pop (csh_of xs) = cf (cm 2 (vals xs) / IZR (Z.of_nat (length xs))).
Proof. exact var_pop_direct. Qed.
Theorem C14_var_samp_direct :
  forall xs, (2 <= length xs)%nat ->
    csh_var_samp (csh_of xs) = cf (cm 2 (vals xs) / (IZR (Z.of_nat (length xs)) - 1)).
Proof. exact var_samp_direct. Qed.
Theorem C14_stddev_pop_direct :
  forall xs, xs <> [] -> csh_std_pop (csh_of xs) = cf (sqrt (cm 2 (vals xs) / IZR (Z.of_nat (length xs)))).
Proof. exact std_pop_direct. Qed.
Theorem C14_stddev_samp_direct :
  forall xs, (2 <= length xs)%nat ->
    csh_std_samp (csh_of xs) = cf (sqrt (cm 2 (vals xs) / (IZR (Z.of_nat (length xs)) - 1))).
Proof. exact std_samp_direct. Qed.
Theorem C14_skewness_direct :
  forall xs, xs <> [] -> cm 2 (vals xs) <> 0%R ->
    csh_skew (csh_of xs) =
    cf (sqrt (IZR (Z.of_nat (length xs))) * cm 3 (vals xs) / sqrt (cm 2 (vals xs) * cm 2 (vals xs) * cm 2 (vals xs))).
Proof. exact skew_direct. Qed.
Theorem C14_kurtosis_direct :
  forall xs, xs <> [] -> cm 2 (vals xs) <> 0%R ->
    csh_kurt (csh_of xs) =
    cf (IZR (Z.of_nat (length xs)) * cm 4 (vals xs) / (cm 2 (vals xs) * cm 2 (vals xs)) - 3).
Proof. exact kurt_direct. Qed.

(* describe_agree: describe()/summary() read the very same states: one ColumnStatHelper per column under the same
   driver with a constant key, so count / mean / stddev / min / max of describe are the read-outs count / avg /
   stddev_samp / min / max of the whole-table group *)
Theorem C14_describe_agree :
  forall (Ops : NumOps) (Q : NumSqrt Ops) (cols : list nat) (parts : list (list (@row Ops))),
    run_describe cols parts =
    (let hs := match g_result (describe_stats cols)
                             (g_aggregate (fun _ _ : unit => true) (fun _ => tt) (describe_stats cols) parts) with
              | (_, l) :: _ => l | [] => [] end in
     [map csh_count hs; map csh_avg hs; map csh_stddev hs; map csh_min hs; map csh_max hs])
    /\ forall s : @csh Ops, csh_stddev s = csh_std_samp s.
Proof. exact @describe_agree. Qed.

(** * 4. rollup / cube *)

(* exactly the subtotal rows: the keys of the result are the distinct subtotal keys of the groups, first-seen *)
Theorem C14_subtotal_keys :
  forall (Row K S O : Type) (keqb : K -> K -> bool) (A : aggregator Row S O)
         (subkeys : K -> list K) (gs : list (K * S)),
      map fst (g_subtotals keqb A subkeys gs) = first_keys keqb (flat_map subkeys (map fst gs)).
Proof. exact subtotal_keys. Qed.

(* each subtotal state is the merge, in group order, of the states of the groups that contribute to it *)
Theorem C14_subtotal_state :
  forall (Row K S O : Type) (keqb : K -> K -> bool) (A : aggregator Row S O),
    (forall a b, keqb a b = true <-> a = b) ->
    forall (subkeys : K -> list K) (gs : list (K * S)) (sk : K),
      g_find keqb sk (g_subtotals keqb A subkeys gs) =
      match contributions keqb subkeys sk gs with
      | [] => None
      | s :: ss => Some (fold_left (a_merge A) ss s)
      end.
Proof. exact subtotal_find. Qed.

(* rollup_spec / cube_spec: for every partitioning, the state of subtotal key sk is equivalent to the fold over
   the rows of the contributing groups (group after group, in first-seen group order) *)
Theorem C14_subtotal_spec :
  forall (Row K S O : Type) (keqb : K -> K -> bool) (key : Row -> K) (A : aggregator Row S O),
    (forall a b, keqb a b = true <-> a = b) ->
    forall (subkeys : K -> list K) (eqS : S -> S -> Prop) (eqO : O -> O -> Prop), agg_laws_ne A eqS eqO ->
    forall (ps : list (list Row)) (sk : K),
      (forall r, In r (concat ps) -> NoDup (subkeys (key r))) ->
      In sk (flat_map subkeys (map key (concat ps))) ->
      exists s, g_find keqb sk (g_subtotals keqb A subkeys (g_aggregate keqb key A ps)) = Some s /\
                eqS s (a_fold A (concat (map (fun k => rows_of keqb key k (concat ps))
                                             (filter (fun k => key_mem keqb sk (subkeys k))
                                                     (first_keys keqb (map key (concat ps))))))).
Proof. exact subtotal_spec. Qed.

(* ... which is a permutation of the rows whose key has sk among its subtotal keys: for aggregates that do not
   depend on the row order the subtotal equals grouping by the corresponding key subset *)
Theorem C14_subtotal_rows :
  forall (Row K : Type) (keqb : K -> K -> bool) (key : Row -> K),
    (forall a b, keqb a b = true <-> a = b) ->
    forall (Q : K -> bool) (rows : list Row),
      Permutation (concat (map (fun k => rows_of keqb key k rows) (filter Q (first_keys keqb (map key rows)))))
                  (filter (fun r => Q (key r)) rows).
Proof. exact group_blocks_perm. Qed.

(* which keys are subtotal keys of a group key: rollup replaces a suffix, cube any subset of positions *)
Theorem C14_rollup_keys :
  forall (Ops : NumOps) (k sk : @gkey Ops),
    In sk (rollup_keys k) <-> exists i, (i <= length k)%nat /\ sk = firstn i k ++ repeat None (length k - i).
Proof. exact @rollup_keys_spec. Qed.
Theorem C14_cube_keys :
  forall (Ops : NumOps) (k sk : @gkey Ops),
    In sk (cube_keys k) <-> Forall2 (fun s x => s = None \/ s = x) sk k.
Proof. exact @cube_keys_spec. Qed.

(* the side condition of C14_subtotal_spec holds for groupBy / rollup / cube keys built from row values *)
Theorem C14_subkeys_distinct :
  forall (Ops : NumOps) (m : gmode) keycols (r : @row Ops), NoDup (subkeys m (key_of keycols r)).
Proof. exact @subkeys_of_row_nodup. Qed.

(** * non-vacuity and sanity: the model evaluated with floats on the inputs of the replays *)
(* (closed by a VM cast: the kernel evaluates the model with the bytecode VM at Qed) *)
Definition ex_row2 (k : Z) (v : option Z) : @row FloatOps :=
  [CNum (NI k); match v with Some z => CNum (NI z) | None => CNull end].
Definition ex_row3 (k : Z) (s : N) (v : Z) : @row FloatOps := [CNum (NI k); CStr [s]; CNum (NI v)].
Definition ex_res (l : list (list (@cell FloatOps) * list (@oval FloatOps))) : list (@gkey FloatOps * list (@oval FloatOps)) :=
  map (fun kr => (map Some (fst kr), snd kr)) l.

Example ex_groupby_two_partitions :
  (* sum / count of v for key 1 over partitions [(1,3)], [(1,null)] -- a partial that saw no non-null value *)
  run_agg GroupBy [0%nat] None [(ASum, [1%nat]); (ACount, [1%nat])] [[ex_row2 1 (Some 3%Z)]; [ex_row2 1 None]]
  = ex_res [([CNum (NI 1)], [OCell (CNum (NI 3)); OCell (CNum (NI 1))])].
Proof. vm_cast_no_check (@eq_refl _ (ex_res [([CNum (NI 1)], [OCell (CNum (NI 3)); OCell (CNum (NI 1))])])). Qed.

Example ex_last_pivot_two_partitions :
  (* regression of the repaired finding: last(v) under pivot over two partitions keeps slot "a" ... *)
  run_agg GroupBy [0%nat] (Some (1%nat, Some [CStr [97%N]; CStr [98%N]])) [(ALast, [2%nat])]
          [[ex_row3 1 97 3]; [ex_row3 1 98 4]]
  = ex_res [([CNum (NI 1)], [OCell (CNum (NI 3)); OCell (CNum (NI 4))])].
Proof. vm_cast_no_check (@eq_refl _ (ex_res [([CNum (NI 1)], [OCell (CNum (NI 3)); OCell (CNum (NI 4))])])). Qed.

Example ex_last_pivot_one_partition :
  (* ... like the single partition *)
  run_agg GroupBy [0%nat] (Some (1%nat, Some [CStr [97%N]; CStr [98%N]])) [(ALast, [2%nat])]
          [[ex_row3 1 97 3; ex_row3 1 98 4]]
  = ex_res [([CNum (NI 1)], [OCell (CNum (NI 3)); OCell (CNum (NI 4))])].
Proof. vm_cast_no_check (@eq_refl _ (ex_res [([CNum (NI 1)], [OCell (CNum (NI 3)); OCell (CNum (NI 4))])])). Qed.

Example ex_laws_inhabited :
  (* the hypotheses of the generic theorems are satisfiable: a concrete lawful list of stats over R *)
  exists l : list (lawful (list (option (@num ROps))) (@cell ROps)),
    length l = 2%nat /\ forall w, In w l -> agg_laws (p_agg (lw_p w)) (lw_eqS w) (lw_eqO w).
Proof. exact laws_inhabited. Qed.
