(* C10 -- executable model of pysparkling/streaming: dstream.py (_step of DStream,
   TransformedDStream, TransformedWithDStream, CogroupedDStream and the bodies of the DStream
   methods), context.py (the callback built by StreamingContext.start()), queuestream.py,
   filestream.py.  Definitions only.  WindowedDStream / StatefulDStream belong to C11.

   A stream graph is the list ssc._dstreams in registration order; a node refers to its parents
   by their index in that list.  The state of a node is (_current_time, _current_rdd) plus, for
   a source, the queue contents / the set files_done.  [step] transcribes the four _step
   methods with their `time_ <= self._current_time` guard and the recursion into the parents;
   [tick] is the callback: one timestamp, every registered node stepped in registration order.
   The event log records every QueueStream.get()/FileStream.get() call and every call of a
   node's transformation function (foreachRDD actions are such functions). *)
From Coq Require Import String ZArith NArith List Bool.
Require Import PV.Base.Val PV.Gen.DStreamStep PV.Model.DStreamRdd.
Import ListNotations.
Open Scope Z_scope.

(* value of _current_rdd: None (initially, and after a foreachRDD function returned None) or an RDD *)
Inductive rv := RNone | RRdd (r : rdd).

Definition fname := list N.
Definition listing := list (fname * list val).     (* files matched by the monitored pattern, with their lines *)

Inductive srckind :=
| SQueue (oneAtATime : bool) (default : option (list val * option Z)) (q0 : list (option (list val * option Z)))
| SFile (done0 : list fname).

Inductive cgop := OpCogroup | OpJoin | OpLeftOuterJoin | OpRightOuterJoin | OpFullOuterJoin.

Inductive node :=
| Src (k : srckind)
| Trans (f : Z -> rv -> rv) (p : nat)
| TransWith (f : Z -> rv -> rv -> rv) (p1 p2 : nat)
| Cogrouped (op : cgop) (numPartitions : option Z) (p1 p2 : nat).

Definition graph := list node.

Definition parents (nd : node) : list nat :=
  match nd with
  | Src _ => []
  | Trans _ p => [p]
  | TransWith _ p1 p2 => [p1; p2]
  | Cogrouped _ _ p1 p2 => [p1; p2]
  end.

(* every node refers to earlier nodes only (true of ssc._dstreams by construction) *)
Definition wf (g : graph) : Prop :=
  forall i nd, nth_error g i = Some nd -> forall p, In p (parents nd) -> (p < i)%nat.

(* a queue entry is a batch (a list) or None, the placeholder the deserialiser turns into an EmptyRDD *)
(* a batch is any iterable of elements (list, tuple, range, generator ...: its elements, numSlices
   None) or an RDD, given as its elements and its number of partitions (sc.parallelize(l, k)) *)
Definition batch := (list val * option Z)%type.
Definition batch_rdd (b : batch) : rdd := parallelize (fst b) (snd b).
Definition qentry := option batch.
Definition entry_items (x : qentry) : list val := match x with Some b => fst b | None => [] end.

Record nstate := mkNs { ctime : Z; crdd : rv; queue : list qentry; fdone : list fname }.

Inductive event :=
| EvPop (i : nat)                              (* source node i called its stream's get() *)
| EvFire (i : nat) (t : Z) (args : list rv).   (* node i called its function with (t, args) *)

Record state := mkSt { ns : list nstate; log : list event }.

(* ---------- sources ---------- *)
Inductive qitem := QNone | QRdd (r : rdd) | QList (b : batch) | QFiles (fs : listing).

Fixpoint name_eqb (a b : fname) : bool :=
  match a, b with
  | [], [] => true
  | x :: a', y :: b' => N.eqb x y && name_eqb a' b'
  | _, _ => false
  end.
Definition name_in (a : fname) (l : list fname) : bool := existsb (name_eqb a) l.

(* QueueStream.get / FileStream.get *)
Definition src_get (k : srckind) (ls : listing) (s : nstate) : qitem * nstate :=
  match k with
  | SQueue one dflt _ =>
      (* branch chosen by the regenerated kernel of QueueStream.get *)
      let b := queue_get_branch (Z.of_nat (length (queue s))) one in
      if b =? 0 then (match dflt with None => QNone | Some d => QRdd (batch_rdd d) end, s)
      else if b =? 1 then
        match queue s with
        | x :: q' => (match x with Some b => QList b | None => QNone end,
                      mkNs (ctime s) (crdd s) q' (fdone s))
        | [] => (QNone, s)      (* get_nowait() on an empty queue: not reached, q_size > 0 here *)
        end
      else (* all queued batches concatenated; a None entry here makes the comprehension raise
              TypeError in the code -- outside the model's domain (never generated) *)
           (QList (concat (map entry_items (queue s)), None), mkNs (ctime s) (crdd s) [] (fdone s))
  | SFile _ =>
      match filter (fun f => negb (name_in (fst f) (fdone s))) ls with
      | [] => (QNone, s)
      | new => (QFiles new, mkNs (ctime s) (crdd s) (queue s) (fdone s ++ map fst new))
      end
  end.

(* str order (code points), for sorted(resolved_names) in Context.textFile *)
Fixpoint name_leb (a b : fname) : bool :=
  match a, b with
  | [], _ => true
  | _ :: _, [] => false
  | x :: a', y :: b' => if N.ltb x y then true else if N.ltb y x then false else name_leb a' b'
  end.
Fixpoint insert_file (f : fname * list val) (l : listing) : listing :=
  match l with
  | [] => [f]
  | g :: l' => if name_leb (fst f) (fst g) then f :: l else g :: insert_file f l'
  end.
Definition sort_files (l : listing) : listing := fold_right insert_file [] l.

Definition lines_of (fs : listing) (name : val) : list val :=
  match name with
  | VStr n => match find (fun f => name_eqb (fst f) n) fs with Some f => snd f | None => [] end
  | _ => []
  end.

(* QueueStreamDeserializer.ensure_rdd / FileTextStreamDeserializer.__call__ (Context.textFile) *)
Definition deserialize (it : qitem) : rdd :=
  match it with
  | QNone => empty_rdd
  | QRdd r => r
  | QList b => batch_rdd b      (* ensure_rdd: an RDD passes through, anything else is parallelized *)
  | QFiles fs =>
      rdd_flatMap (lines_of fs)
        (parallelize (map (fun f => VStr (fst f)) (sort_files fs)) (Some (Z.of_nat (length fs))))
  end.

(* ---------- CogroupedDStream: getattr(rdd1, op)(rdd2, numPartitions) ---------- *)
Definition cg_apply (op : cgop) (np : option Z) (a b : rv) : rv :=
  match a, b with
  | RRdd x, RRdd y =>
      RRdd (match op with
            | OpCogroup => rdd_cogroup x y np
            | OpJoin => rdd_join x y np
            | OpLeftOuterJoin => rdd_leftOuterJoin x y np
            | OpRightOuterJoin => rdd_rightOuterJoin x y np
            | OpFullOuterJoin => rdd_fullOuterJoin x y np
            end)
  | _, _ => RNone
  end.

(* ---------- stepping ---------- *)
Fixpoint set_nth {A : Type} (i : nat) (x : A) (l : list A) : list A :=
  match l, i with
  | [], _ => []
  | _ :: l', O => x :: l'
  | a :: l', S i' => a :: set_nth i' x l'
  end.

Definition crdd_at (st : state) (i : nat) : rv :=
  match nth_error (ns st) i with Some s => crdd s | None => RNone end.

(* node i gets (_current_time, _current_rdd) := (t, v); one event appended *)
Definition finish (st : state) (i : nat) (t : Z) (v : rv) (e : event) : option state :=
  match nth_error (ns st) i with
  | Some s => Some (mkSt (set_nth i (mkNs t v (queue s) (fdone s)) (ns st)) (log st ++ [e]))
  | None => None
  end.

(* TransformedDStream._step when `self._prev._current_rdd is None`: only _current_time is set *)
Definition set_time (st : state) (i : nat) (t : Z) : option state :=
  match nth_error (ns st) i with
  | Some s => Some (mkSt (set_nth i (mkNs t (crdd s) (queue s) (fdone s)) (ns st)) (log st))
  | None => None
  end.

(* the `if time_ <= self._current_time: return` guard of each class, regenerated from dstream.py *)
Definition guard (nd : node) (t cur : Z) : bool :=
  match nd with
  | Src _ => step_guard_DStream t cur
  | Trans _ _ => step_guard_TransformedDStream t cur
  | TransWith _ _ _ => step_guard_TransformedWithDStream t cur
  | Cogrouped _ _ _ _ => step_guard_CogroupedDStream t cur
  end.

(* _step(time_) of node i.  None = out of fuel or a dangling reference (neither happens for a
   well-formed graph with fuel > i, see Proofs). *)
Fixpoint step (fuel : nat) (g : graph) (env : nat -> listing) (t : Z) (i : nat) (st : state)
  : option state :=
  match fuel with
  | O => None
  | S fuel' =>
      match nth_error g i, nth_error (ns st) i with
      | Some nd, Some s =>
          if guard nd t (ctime s) then Some st
          else
            match nd with
            | Src k =>
                let '(it, s') := src_get k (env i) s in
                Some (mkSt (set_nth i (mkNs t (RRdd (deserialize it)) (queue s') (fdone s')) (ns st))
                           (log st ++ [EvPop i]))
            | Trans f p =>
                match step fuel' g env t p st with
                | Some st1 =>
                    match crdd_at st1 p with
                    | RNone => set_time st1 i t    (* parent has no RDD yet: time advances, RDD kept, function not called *)
                    | RRdd r => finish st1 i t (f t (RRdd r)) (EvFire i t [RRdd r])
                    end
                | None => None
                end
            | TransWith f p1 p2 =>
                match step fuel' g env t p1 st with
                | Some st1 =>
                    match step fuel' g env t p2 st1 with
                    | Some st2 =>
                        let a := crdd_at st2 p1 in
                        let b := crdd_at st2 p2 in
                        finish st2 i t (f t a b) (EvFire i t [a; b])
                    | None => None
                    end
                | None => None
                end
            | Cogrouped op np p1 p2 =>
                match step fuel' g env t p1 st with
                | Some st1 =>
                    match step fuel' g env t p2 st1 with
                    | Some st2 =>
                        let a := crdd_at st2 p1 in
                        let b := crdd_at st2 p2 in
                        finish st2 i t (cg_apply op np a b) (EvFire i t [a; b])
                    | None => None
                    end
                | None => None
                end
            end
      | _, _ => None
      end
  end.

(* `for d in <order>: d._step(time_)` *)
Fixpoint step_all (g : graph) (env : nat -> listing) (t : Z) (order : list nat) (st : state)
  : option state :=
  match order with
  | [] => Some st
  | i :: rest =>
      match step (S (length g)) g env t i st with
      | Some st' => step_all g env t rest st'
      | None => None
      end
  end.

(* the callback of StreamingContext.start(): every registered stream, registration order *)
Definition tick (g : graph) (env : nat -> listing) (t : Z) (st : state) : option state :=
  step_all g env t (seq 0 (length g)) st.

Definition init_node (nd : node) : nstate :=
  match nd with
  | Src (SQueue _ _ q0) => mkNs 0 RNone q0 []
  | Src (SFile d0) => mkNs 0 RNone [] d0
  | _ => mkNs 0 RNone [] []
  end.
Definition init (g : graph) : state := mkSt (map init_node g) [].

(* a history: tick times with what the monitored directories contain at that time *)
Fixpoint run_hist (g : graph) (h : list (Z * (nat -> listing))) (st : state) : option state :=
  match h with
  | [] => Some st
  | (t, env) :: h' =>
      match tick g env t st with
      | Some st' => run_hist g h' st'
      | None => None
      end
  end.

(* ---------- what a tick is supposed to compute (one pass, no guards, no recursion) ---------- *)
Definition node_val (nd : node) (t : Z) (srcv : rv) (earlier : list rv) : rv :=
  match nd with
  | Src _ => srcv
  | Trans f p => f t (nth p earlier RNone)
  | TransWith f p1 p2 => f t (nth p1 earlier RNone) (nth p2 earlier RNone)
  | Cogrouped op np p1 p2 => cg_apply op np (nth p1 earlier RNone) (nth p2 earlier RNone)
  end.

(* values of all nodes at time t, given the RDD each source delivers in this interval *)
Fixpoint denot_from (g : graph) (t : Z) (srcv : nat -> rv) (acc : list rv) : list rv :=
  match g with
  | [] => acc
  | nd :: g' => denot_from g' t srcv (acc ++ [node_val nd t (srcv (length acc)) acc])
  end.
Definition denot (g : graph) (t : Z) (srcv : nat -> rv) : list rv := denot_from g t srcv [].

(* the RDD source node i delivers at a tick, and its state after the pop *)
Definition delivered (g : graph) (env : nat -> listing) (st : state) (i : nat) : rv :=
  match nth_error g i, nth_error (ns st) i with
  | Some (Src k), Some s => RRdd (deserialize (fst (src_get k (env i) s)))
  | _, _ => RNone
  end.

Definition popped (g : graph) (env : nat -> listing) (st : state) (i : nat) : nstate :=
  match nth_error g i, nth_error (ns st) i with
  | Some (Src k), Some s => snd (src_get k (env i) s)
  | _, Some s => s
  | _, None => mkNs 0 RNone [] []
  end.

Definition post_node (g : graph) (env : nat -> listing) (t : Z) (st : state) (i : nat) : nstate :=
  let s := popped g env st i in
  mkNs t (nth i (denot g t (delivered g env st)) RNone) (queue s) (fdone s).

Definition event_of (g : graph) (env : nat -> listing) (t : Z) (st : state) (i : nat) : event :=
  let d := denot g t (delivered g env st) in
  match nth_error g i with
  | Some (Src _) | None => EvPop i
  | Some nd => EvFire i t (map (fun p => nth p d RNone) (parents nd))
  end.

Definition tick_spec (g : graph) (env : nat -> listing) (t : Z) (st : state) : state :=
  mkSt (map (post_node g env t st) (seq 0 (length g)))
       (log st ++ map (event_of g env t st) (seq 0 (length g))).

(* ---------- the DStream API: which nodes each method registers ---------- *)
Definition add_node (nd : node) (g : graph) : graph * nat := (g ++ [nd], length g).

Definition lift1 (f : rdd -> rdd) : Z -> rv -> rv :=
  fun _ a => match a with RRdd x => RRdd (f x) | RNone => RNone end.
Definition lift2 (f : rdd -> rdd -> rdd) : Z -> rv -> rv -> rv :=
  fun _ a b => match a, b with RRdd x, RRdd y => RRdd (f x y) | _, _ => RNone end.

Definition ds_transform (func : Z -> rv -> rv) (s : nat) (g : graph) : graph * nat :=
  add_node (Trans func s) g.
Definition ds_transformWith (func : Z -> rv -> rv -> rv) (s o : nat) (g : graph) : graph * nat :=
  add_node (TransWith func s o) g.

Definition ds_mapPartitionsWithIndex (f : Z -> list val -> list val) (s : nat) (g : graph) :=
  ds_transform (lift1 (rdd_mapPartitionsWithIndex f)) s g.
Definition ds_mapPartitions (f : list val -> list val) (s : nat) (g : graph) :=
  let '(g1, a) := ds_mapPartitionsWithIndex (fun _ p => f p) s g in
  ds_transform (lift1 rdd_setName) a g1.
Definition ds_map (f : val -> val) (s : nat) (g : graph) :=
  let '(g1, a) := ds_mapPartitions (map f) s g in
  ds_transform (lift1 rdd_setName) a g1.
Definition ds_flatMap (f : val -> list val) (s : nat) (g : graph) :=
  ds_mapPartitions (flat_map f) s g.
Definition ds_filter (p : val -> bool) (s : nat) (g : graph) :=
  ds_transform (lift1 (rdd_filter p)) s g.
Definition ds_mapValues (f : val -> val) (s : nat) (g : graph) :=
  ds_transform (lift1 (rdd_mapValues f)) s g.
Definition ds_flatMapValues (f : val -> list val) (s : nat) (g : graph) :=
  ds_transform (lift1 (rdd_flatMapValues f)) s g.
Definition ds_groupByKey (s : nat) (g : graph) :=
  ds_transform (lift1 (rdd_groupByKey None)) s g.
Definition ds_reduceByKey (f : val -> val -> val) (s : nat) (g : graph) :=
  ds_transform (lift1 (rdd_reduceByKey f None)) s g.
Definition ds_reduce (f : val -> val -> val) (s : nat) (g : graph) :=
  ds_transform (lift1 (rdd_reduce_expr f)) s g.
Definition ds_count (s : nat) (g : graph) :=
  let '(g1, a) := ds_mapPartitions (fun p => [VInt (Z.of_nat (length p))]) s g in
  ds_reduce op_add a g1.
Definition ds_countByValue (s : nat) (g : graph) :=
  ds_transform (lift1 rdd_countByValue_expr) s g.
Definition ds_union (s o : nat) (g : graph) :=
  ds_transformWith (lift2 ctx_union) s o g.
Definition ds_cogrouped (op : cgop) (np : option Z) (s o : nat) (g : graph) :=
  add_node (Cogrouped op np s o) g.
Definition repartition_fn (n : Z) (r : rdd) : rdd := if ecls r then r else rdd_repartition n r.
Definition ds_repartition (n : Z) (s : nat) (g : graph) :=
  ds_transform (lift1 (repartition_fn n)) s g.
Definition slice_fn (b e : Z) : Z -> rv -> rv :=
  fun t a => if (b <=? t) && (t <=? e) then a else RRdd empty_rdd.
Definition ds_slice (b e : Z) (s : nat) (g : graph) := ds_transform (slice_fn b e) s g.
(* foreachRDD(func): transform(func), the function returns None *)
Definition ds_foreachRDD (s : nat) (g : graph) := ds_transform (fun _ _ => RNone) s g.
Definition ds_source (k : srckind) (g : graph) := add_node (Src k) g.

(* ---------- programs: sequences of API calls; stream arguments are handles = positions of
   earlier calls in the program (every call yields one handle: the node of the stream it returns;
   for foreachRDD, which returns nothing, the node of the action) ---------- *)
Inductive call :=
| CSource (k : srckind)
| CMap (s : nat) (f : val -> val)
| CFlatMap (s : nat) (f : val -> list val)
| CFilter (s : nat) (p : val -> bool)
| CMapValues (s : nat) (f : val -> val)
| CFlatMapValues (s : nat) (f : val -> list val)
| CReduceByKey (s : nat) (f : val -> val -> val)
| CGroupByKey (s : nat)
| CCount (s : nat)
| CCountByValue (s : nat)
| CReduce (s : nat) (f : val -> val -> val)
| CUnion (s o : nat)
| CCogrouped (op : cgop) (np : option Z) (s o : nat)
| CTransform (s : nat) (func : Z -> rv -> rv)
| CRepartition (n : Z) (s : nat)
| CSlice (b e : Z) (s : nat)
| CForeachRDD (s : nat)
| CMapPartitions (s : nat) (f : list val -> list val)
| CMapPartitionsWithIndex (s : nat) (f : Z -> list val -> list val)
| CTransformWith (s o : nat) (func : Z -> rv -> rv -> rv).

Definition call_args (c : call) : list nat :=
  match c with
  | CSource _ => []
  | CMap s _ | CFlatMap s _ | CFilter s _ | CMapValues s _ | CFlatMapValues s _ | CReduceByKey s _
  | CGroupByKey s | CCount s | CCountByValue s | CReduce s _ | CTransform s _ | CRepartition _ s
  | CSlice _ _ s | CForeachRDD s | CMapPartitions s _ | CMapPartitionsWithIndex s _ => [s]
  | CUnion s o | CCogrouped _ _ s o | CTransformWith s o _ => [s; o]
  end.

Definition expand_call (c : call) (gh : graph * list nat) : graph * list nat :=
  let '(g, hs) := gh in
  let h := fun s => nth s hs O in
  let '(g', r) :=
    match c with
    | CSource k => ds_source k g
    | CMap s f => ds_map f (h s) g
    | CFlatMap s f => ds_flatMap f (h s) g
    | CFilter s p => ds_filter p (h s) g
    | CMapValues s f => ds_mapValues f (h s) g
    | CFlatMapValues s f => ds_flatMapValues f (h s) g
    | CReduceByKey s f => ds_reduceByKey f (h s) g
    | CGroupByKey s => ds_groupByKey (h s) g
    | CCount s => ds_count (h s) g
    | CCountByValue s => ds_countByValue (h s) g
    | CReduce s f => ds_reduce f (h s) g
    | CUnion s o => ds_union (h s) (h o) g
    | CCogrouped op np s o => ds_cogrouped op np (h s) (h o) g
    | CTransform s func => ds_transform func (h s) g
    | CRepartition n s => ds_repartition n (h s) g
    | CSlice b e s => ds_slice b e (h s) g
    | CForeachRDD s => ds_foreachRDD (h s) g
    | CMapPartitions s f => ds_mapPartitions f (h s) g
    | CMapPartitionsWithIndex s f => ds_mapPartitionsWithIndex f (h s) g
    | CTransformWith s o func => ds_transformWith func (h s) (h o) g
    end in
  (g', hs ++ [r]).

Definition expand_from (p : list call) (gh : graph * list nat) : graph * list nat :=
  fold_left (fun acc c => expand_call c acc) p gh.
Definition expand (p : list call) : graph * list nat := expand_from p ([], []).

(* every call refers to earlier calls only *)
Fixpoint prog_ok_from (n : nat) (p : list call) : Prop :=
  match p with
  | [] => True
  | c :: p' => (forall s, In s (call_args c) -> (s < n)%nat) /\ prog_ok_from (S n) p'
  end.
Definition prog_ok (p : list call) : Prop := prog_ok_from 0 p.

(* ---------- vocabulary of the property statements ---------- *)
Definition is_pop (i : nat) (e : event) : bool :=
  match e with EvPop j => Nat.eqb i j | _ => false end.
Definition is_fire (i : nat) (e : event) : bool :=
  match e with EvFire j _ _ => Nat.eqb i j | _ => false end.
Definition pops (i : nat) (l : list event) : nat := length (filter (is_pop i) l).     (* get() calls of node i *)
Definition fires (i : nat) (l : list event) : nat := length (filter (is_fire i) l).   (* function calls of node i *)
Definition is_src (g : graph) (i : nat) : bool :=
  match nth_error g i with Some (Src _) => true | _ => false end.
Definition is_fn (g : graph) (i : nat) : bool :=
  match nth_error g i with Some (Src _) => false | Some _ => true | None => false end.

(* strictly increasing tick times, all later than c *)
Fixpoint increasing {A : Type} (c : Z) (h : list (Z * A)) : Prop :=
  match h with
  | [] => True
  | (t, _) :: h' => c < t /\ increasing t h'
  end.

Definition spec_hist (g : graph) (h : list (Z * (nat -> listing))) (st : state) : state :=
  fold_left (fun s te => tick_spec g (snd te) (fst te) s) h st.

Definition default_rdd (dflt : option batch) : rdd :=
  match dflt with None => empty_rdd | Some d => batch_rdd d end.

(* ---------- the RDD-level meaning of each API call: the expression the method body builds,
   applied to the RDDs its argument streams hold in the interval ---------- *)
Definition solves (G : graph) (t : Z) (srcv : nat -> rv) (V : list rv) : Prop :=
  forall i nd, nth_error G i = Some nd -> nth i V RNone = node_val nd t (srcv i) V.

Definition call_sem (c : call) (t : Z) (srcv : rv) (args : list rv) : rv :=
  let a := nth 0 args RNone in
  let b := nth 1 args RNone in
  match c with
  | CSource _ => srcv
  | CMap _ f => lift1 (rdd_map f) t a
  | CFlatMap _ f => lift1 (rdd_flatMap f) t a
  | CFilter _ p => lift1 (rdd_filter p) t a
  | CMapValues _ f => lift1 (rdd_mapValues f) t a
  | CFlatMapValues _ f => lift1 (rdd_flatMapValues f) t a
  | CReduceByKey _ f => lift1 (rdd_reduceByKey f None) t a
  | CGroupByKey _ => lift1 (rdd_groupByKey None) t a
  | CCount _ => lift1 rdd_count_expr t a
  | CCountByValue _ => lift1 rdd_countByValue_expr t a
  | CReduce _ f => lift1 (rdd_reduce_expr f) t a
  | CUnion _ _ => lift2 ctx_union t a b
  | CCogrouped op np _ _ => cg_apply op np a b
  | CTransform _ func => func t a
  | CRepartition n _ => lift1 (repartition_fn n) t a
  | CSlice b0 e _ => slice_fn b0 e t a
  | CForeachRDD _ => RNone
  | CMapPartitions _ f => lift1 (rdd_mapPartitions f) t a
  | CMapPartitionsWithIndex _ f => lift1 (rdd_mapPartitionsWithIndex f) t a
  | CTransformWith _ _ func => func t a b
  end.

(* an RDD value whose class bit is honest: an EmptyRDD instance has no partitions *)
Definition rdd_ok (r : rdd) : Prop := ecls r = true -> parts r = [].

(* ---------- the early return of TransformedDStream._step is not taken ----------
   A TransformedDStream whose parent holds no RDD after the parent's step (a windowed stream before its
   first emission -- C11 --, or a parent whose function returned None) only advances its time.  [live]
   says this does not happen in the interval: every parent of a Trans node holds an RDD.  It holds for
   every graph whose nodes used as parents are total ([graph_total]), in particular for the graphs of
   programs whose user-supplied transform functions return RDDs and that do not derive streams from
   foreachRDD actions ([prog_total]). *)
Definition live (g : graph) (t : Z) (srcv : nat -> rv) : Prop :=
  forall i f p, nth_error g i = Some (Trans f p) -> nth p (denot g t srcv) RNone <> RNone.

Definition src_defined (g : graph) (srcv : nat -> rv) : Prop :=
  forall i k, nth_error g i = Some (Src k) -> srcv i <> RNone.

Definition always_live (g : graph) : Prop :=
  forall t srcv, src_defined g srcv -> live g t srcv.

Definition node_total (nd : node) : Prop :=
  match nd with
  | Src _ => True
  | Trans f _ => forall t x, f t (RRdd x) <> RNone
  | TransWith f _ _ => forall t x y, f t (RRdd x) (RRdd y) <> RNone
  | Cogrouped _ _ _ _ => True
  end.

(* every node that some node uses as a parent is total *)
Definition graph_total (g : graph) : Prop :=
  forall i nd, nth_error g i = Some nd -> forall p, In p (parents nd) ->
    exists ndp, nth_error g p = Some ndp /\ node_total ndp.

Definition call_total (c : call) : Prop :=
  match c with
  | CTransform _ func => forall t x, func t (RRdd x) <> RNone
  | CTransformWith _ _ func => forall t x y, func t (RRdd x) (RRdd y) <> RNone
  | _ => True
  end.
Definition is_action (c : call) : bool := match c with CForeachRDD _ => true | _ => false end.

(* user transform functions return RDDs; no stream is derived from a foreachRDD action *)
Definition prog_total (p : list call) : Prop :=
  forall k c, nth_error p k = Some c ->
    call_total c /\
    forall s, In s (call_args c) -> forall c', nth_error p s = Some c' -> is_action c' = false.

(* ---------- the graph grows: streams and actions registered after start() ----------
   ssc._dstreams is appended to whenever a DStream is created, also after start(); the callback
   iterates the list as it is at each firing.  A history is therefore a sequence of ticks and
   registrations; a newly registered node starts with _current_time = 0.0 and no RDD. *)
Definition extend_state (st : state) (new : list node) : state :=
  mkSt (ns st ++ map init_node new) (log st).

Inductive hevent :=
| HTick (t : Z) (env : nat -> listing)
| HReg (new : list node).

Fixpoint run_events (g : graph) (st : state) (h : list hevent) : option (graph * state) :=
  match h with
  | [] => Some (g, st)
  | HTick t env :: h' =>
      match tick g env t st with
      | Some st' => run_events g st' h'
      | None => None
      end
  | HReg new :: h' => run_events (g ++ new) (extend_state st new) h'
  end.

Fixpoint spec_events (g : graph) (st : state) (h : list hevent) : graph * state :=
  match h with
  | [] => (g, st)
  | HTick t env :: h' => spec_events g (tick_spec g env t st) h'
  | HReg new :: h' => spec_events (g ++ new) (extend_state st new) h'
  end.

Fixpoint ev_increasing (c : Z) (h : list hevent) : Prop :=
  match h with
  | [] => True
  | HTick t _ :: h' => c < t /\ ev_increasing t h'
  | HReg _ :: h' => ev_increasing c h'
  end.

(* every graph reached along the history is well formed and never takes the early return *)
Fixpoint graphs_ok (g : graph) (h : list hevent) : Prop :=
  wf g /\ always_live g /\
  match h with
  | [] => True
  | HTick _ _ :: h' => graphs_ok g h'
  | HReg new :: h' => graphs_ok (g ++ new) h'
  end.
