(* Executable model of pysparkling/sql/types.py (type trees and their JSON descriptions, schema
   inference, the type verifier, conversion to the internal representation, Row) together with the
   createDataFrame paths of sql/session.py and infer_schema_from_list of sql/schema_utils.py.

   Part 1 (this section): type trees, JSON values, jsonValue (to_json) and
   _parse_datatype_json_value (of_json).  The constant tables (_atomic_types, _all_complex_types,
   DecimalType defaults, ...) come from PV.Gen.TypeTables, regenerated from the source on every run.

   Python strings are lists of code points ([str]); Python class names are Coq [string]s. *)
From Coq Require Import ZArith NArith List Bool String Ascii.
From Coq Require Import PrimFloat.
Require Import PV.Gen.TypeTables.
Import ListNotations.
Open Scope list_scope.
Open Scope Z_scope.

Definition str := list N.
Definition lit (s : string) : str := map N_of_ascii (list_ascii_of_string s).

Fixpoint str_eqb (a b : str) : bool :=
  match a, b with
  | [], [] => true
  | x :: a', y :: b' => N.eqb x y && str_eqb a' b'
  | _, _ => false
  end.

(* lexicographic order on code points: Python's str comparison *)
Fixpoint str_leb (a b : str) : bool :=
  match a, b with
  | [], _ => true
  | _ :: _, [] => false
  | x :: a', y :: b' => if (x <? y)%N then true else if (y <? x)%N then false else str_leb a' b'
  end.

(* association lists: a Python dict in insertion order; lookup by key *)
Fixpoint slookup {A} (k : string) (l : list (string * A)) : option A :=
  match l with
  | [] => None
  | (k', v) :: r => if String.eqb k k' then Some v else slookup k r
  end.

Fixpoint nlookup {A} (k : str) (l : list (str * A)) : option A :=
  match l with
  | [] => None
  | (k', v) :: r => if str_eqb k k' then Some v else nlookup k r
  end.

Definition smem (k : string) (l : list string) : bool := existsb (String.eqb k) l.

(* results with the exception classes the modelled code can raise *)
Inductive exn := EKey | EValue | EType | EAssertion | EAttribute | ENotImplemented | EStopIteration
               | EFuel          (* the model's recursion budget ran out: excluded by the theorems *)
               | EUnmodelled.   (* input outside the modelled fragment: never produced by the generators *)
Inductive res (A : Type) := Ok (a : A) | Err (e : exn).
Arguments Ok {A} a.
Arguments Err {A} e.

Definition bind {A B} (r : res A) (f : A -> res B) : res B :=
  match r with Ok a => f a | Err e => Err e end.

Fixpoint mapM {A B} (f : A -> res B) (l : list A) : res (list B) :=
  match l with
  | [] => Ok []
  | x :: r => bind (f x) (fun y => bind (mapM f r) (fun ys => Ok (y :: ys)))
  end.

(* ------------------------------------------------------------------ type trees *)
Inductive atomic := AString | ABinary | ABoolean | AFloat | ADouble | AByte | AShort | AInteger | ALong
                  | ADate | ATimestamp | ANull.

Definition all_atomics : list atomic :=
  [AString; ABinary; ABoolean; AFloat; ADouble; AByte; AShort; AInteger; ALong; ADate; ATimestamp; ANull].

Definition atomic_class (a : atomic) : string :=
  match a with
  | AString => "StringType" | ABinary => "BinaryType" | ABoolean => "BooleanType" | AFloat => "FloatType"
  | ADouble => "DoubleType" | AByte => "ByteType" | AShort => "ShortType" | AInteger => "IntegerType"
  | ALong => "LongType" | ADate => "DateType" | ATimestamp => "TimestampType" | ANull => "NullType"
  end%string.

Definition atomic_eqb (a b : atomic) : bool := String.eqb (atomic_class a) (atomic_class b).

Definition class_atomic (c : string) : option atomic :=
  find (fun a => String.eqb (atomic_class a) c) all_atomics.

Inductive json :=
| JNull | JBool (b : bool) | JInt (z : Z) | JFloat (f : float) | JStr (s : str)
| JArr (l : list json) | JObj (kv : list (str * json)).

(* StructField(name, dataType, nullable, metadata); metadata is a dict from strings to JSON values *)
Inductive sfield (T : Type) := SField (name : str) (ty : T) (nullable : bool) (meta : list (str * json)).
Arguments SField {T} name ty nullable meta.

Inductive dtype :=
| TAtom (a : atomic)
| TDecimal (p : N) (s : Z)                       (* DecimalType(precision, scale) *)
| TArray (e : dtype) (containsNull : bool)
| TMap (k v : dtype) (valueContainsNull : bool)
| TStruct (fs : list (sfield dtype)).

Definition sf_name {T} (f : sfield T) : str := match f with SField n _ _ _ => n end.
Definition sf_ty {T} (f : sfield T) : T := match f with SField _ t _ _ => t end.
Definition sf_nullable {T} (f : sfield T) : bool := match f with SField _ _ b _ => b end.
Definition sf_meta {T} (f : sfield T) : list (str * json) := match f with SField _ _ _ m => m end.

Definition dtype_class (t : dtype) : string :=
  match t with
  | TAtom a => atomic_class a
  | TDecimal _ _ => "DecimalType"
  | TArray _ _ => "ArrayType"
  | TMap _ _ _ => "MapType"
  | TStruct _ => "StructType"
  end%string.

(* ------------------------------------------------------------------ names and numbers in JSON *)
(* DataType.typeName(): the class name without "Type", lower-cased (table regenerated) *)
Definition class_name (tbl : list (string * str)) (c : string) : str :=
  match slookup c tbl with Some n => n | None => [] end.
Definition atom_name (a : atomic) : str := class_name atomic_type_names (atomic_class a).

(* dict((t.typeName(), t) for t in ...): lookup of a class by its type name, the last entry wins *)
Fixpoint name_class (tbl : list (string * str)) (s : str) : option string :=
  match tbl with
  | [] => None
  | (c, n) :: r => match name_class r s with
                   | Some c' => Some c'
                   | None => if str_eqb s n then Some c else None
                   end
  end.

(* f"{n:d}" *)
Fixpoint uint_codes (d : Decimal.uint) : str :=
  match d with
  | Decimal.Nil => []
  | Decimal.D0 d => 48%N :: uint_codes d | Decimal.D1 d => 49%N :: uint_codes d
  | Decimal.D2 d => 50%N :: uint_codes d | Decimal.D3 d => 51%N :: uint_codes d
  | Decimal.D4 d => 52%N :: uint_codes d | Decimal.D5 d => 53%N :: uint_codes d
  | Decimal.D6 d => 54%N :: uint_codes d | Decimal.D7 d => 55%N :: uint_codes d
  | Decimal.D8 d => 56%N :: uint_codes d | Decimal.D9 d => 57%N :: uint_codes d
  end.
Definition N_str (n : N) : str := uint_codes (N.to_uint n).
Definition Z_str (z : Z) : str :=
  match z with Zneg p => 45%N :: N_str (Npos p) | _ => N_str (Z.to_N z) end.

(* DecimalType.jsonValue: f"decimal({self.precision:d},{self.scale:d})" *)
Definition decimal_str (p : N) (s : Z) : str :=
  lit "decimal(" ++ N_str p ++ [44%N] ++ Z_str s ++ [41%N].

(* the regular expression _FIXED_DECIMAL = decimal\(\s*(\d+)\s*,\s*(-?\d+)\s*\) applied with .match
   (anchored at the start only), for ASCII input: \d = 0-9, \s = \t\n\v\f\r, \x1c-\x1f and space *)
Definition is_digit (c : N) : bool := ((48 <=? c) && (c <=? 57))%N.
Definition is_space (c : N) : bool := (((9 <=? c) && (c <=? 13)) || ((28 <=? c) && (c <=? 32)))%N.

Fixpoint skip_ws (s : str) : str :=
  match s with c :: r => if is_space c then skip_ws r else s | [] => [] end.
Fixpoint span_digits (s : str) : str * str :=
  match s with
  | c :: r => if is_digit c then let (d, rest) := span_digits r in (c :: d, rest) else ([], s)
  | [] => ([], [])
  end.
Definition digits_val (ds : str) : N := fold_left (fun acc c => (acc * 10 + (c - 48))%N) ds 0%N.
Fixpoint strip_prefix (p s : str) : option str :=
  match p, s with
  | [], _ => Some s
  | x :: p', y :: s' => if N.eqb x y then strip_prefix p' s' else None
  | _ :: _, [] => None
  end.

Definition head_is (c : N) (s : str) : bool := match s with x :: _ => N.eqb x c | [] => false end.
Definition tail (s : str) : str := match s with _ :: r => r | [] => [] end.

Definition match_fixed_decimal (s : str) : option (N * Z) :=
  match strip_prefix (lit "decimal(") s with
  | None => None
  | Some s1 =>
      let (d1, s3) := span_digits (skip_ws s1) in
      match d1 with
      | [] => None
      | _ :: _ =>
          let s4 := skip_ws s3 in
          if head_is 44 s4 then
            let s6 := skip_ws (tail s4) in
            let neg := head_is 45 s6 in
            let (d2, s8) := span_digits (if neg then tail s6 else s6) in
            match d2 with
            | [] => None
            | _ :: _ =>
                if head_is 41 (skip_ws s8)
                then Some (digits_val d1, if neg then (- Z.of_N (digits_val d2)) else Z.of_N (digits_val d2))
                else None
            end
          else None
      end
  end.

(* ------------------------------------------------------------------ jsonValue *)
Definition k_type := lit "type".
Definition k_elementType := lit "elementType".
Definition k_containsNull := lit "containsNull".
Definition k_keyType := lit "keyType".
Definition k_valueType := lit "valueType".
Definition k_valueContainsNull := lit "valueContainsNull".
Definition k_fields := lit "fields".
Definition k_name := lit "name".
Definition k_nullable := lit "nullable".
Definition k_metadata := lit "metadata".
Definition k_pyClass := lit "pyClass".
Definition n_udt := lit "udt".

Definition complex_name (c : string) : str := class_name complex_type_names c.

Fixpoint to_json (t : dtype) : json :=
  match t with
  | TAtom a => JStr (atom_name a)
  | TDecimal p s => JStr (decimal_str p s)
  | TArray e cn =>
      JObj [(k_type, JStr (complex_name "ArrayType")); (k_elementType, to_json e); (k_containsNull, JBool cn)]
  | TMap k v b =>
      JObj [(k_type, JStr (complex_name "MapType")); (k_keyType, to_json k); (k_valueType, to_json v);
            (k_valueContainsNull, JBool b)]
  | TStruct fs =>
      JObj [(k_type, JStr (complex_name "StructType"));
            (k_fields, JArr (map (fun f => match f with
                                           | SField n ty nl m =>
                                               JObj [(k_name, JStr n); (k_type, to_json ty);
                                                     (k_nullable, JBool nl); (k_metadata, JObj m)]
                                           end) fs))]
  end.

(* ------------------------------------------------------------------ _parse_datatype_json_value *)
(* the instance a type name denotes: cls() with the constructor defaults *)
Definition dtype_of_class (c : string) : res dtype :=
  if String.eqb c "DecimalType" then Ok (TDecimal (Z.to_N (fst decimal_default)) (snd decimal_default))
  else match class_atomic c with Some a => Ok (TAtom a) | None => Err EUnmodelled end.

Definition parse_type_string (s : str) : res dtype :=
  match name_class atomic_type_names s with
  | Some c => dtype_of_class c
  | None =>
      (* `json_value == 'decimal'` is shadowed by the table lookup above *)
      match match_fixed_decimal s with
      | Some (p, sc) => Ok (TDecimal p sc)
      | None => Err EValue
      end
  end.

(* `metadata or {}` of StructField.__init__ *)
Definition json_falsy (j : json) : bool :=
  match j with
  | JNull | JBool false | JInt 0 | JStr [] | JArr [] | JObj [] => true
  | JFloat f => PrimFloat.eqb f PrimFloat.zero
  | _ => false
  end.

(* StructField.fromJson: json["name"], parse(json["type"]), json["nullable"], json["metadata"], then the
   constructor's assertion that the name is a string *)
Definition field_of_json (rec : json -> res dtype) (f : json) : res (sfield dtype) :=
  match f with
  | JObj kv =>
      match nlookup k_name kv with
      | None => Err EKey
      | Some nm =>
          match nlookup k_type kv with
          | None => Err EKey
          | Some tj =>
              bind (rec tj) (fun ty =>
                match nlookup k_nullable kv with
                | None => Err EKey
                | Some nl =>
                    match nlookup k_metadata kv with
                    | None => Err EKey
                    | Some md =>
                        match nm with
                        | JStr n =>
                            match nl with
                            | JBool b =>
                                if json_falsy md then Ok (SField n ty b [])
                                else match md with
                                     | JObj m => Ok (SField n ty b m)
                                     | _ => Err EUnmodelled
                                     end
                            | _ => Err EUnmodelled
                            end
                        | _ => Err EAssertion
                        end
                    end
                end)
          end
      end
  | _ => Err EType      (* str / list / number [...]["name"] *)
  end.

(* one level of _parse_datatype_json_value; [rec] is the recursive call *)
Definition of_json_step (rec : json -> res dtype) (j : json) : res dtype :=
  match j with
  | JStr s => parse_type_string s
  | JObj kv =>
      match nlookup k_type kv with
      | None => Err EKey
      | Some (JStr tpe) =>
          match name_class complex_type_names tpe with
          | Some c =>
              if String.eqb c "ArrayType" then
                match nlookup k_elementType kv with
                | None => Err EKey
                | Some ej =>
                    bind (rec ej) (fun e =>
                      match nlookup k_containsNull kv with
                      | None => Err EKey
                      | Some (JBool b) => Ok (TArray e b)
                      | Some _ => Err EUnmodelled
                      end)
                end
              else if String.eqb c "MapType" then
                match nlookup k_keyType kv with
                | None => Err EKey
                | Some kj =>
                    bind (rec kj) (fun k =>
                      match nlookup k_valueType kv with
                      | None => Err EKey
                      | Some vj =>
                          bind (rec vj) (fun v =>
                            match nlookup k_valueContainsNull kv with
                            | None => Err EKey
                            | Some (JBool b) => Ok (TMap k v b)
                            | Some _ => Err EUnmodelled
                            end)
                      end)
                end
              else if String.eqb c "StructType" then
                match nlookup k_fields kv with
                | None => Err EKey
                | Some (JArr l) => bind (mapM (field_of_json rec) l) (fun fs => Ok (TStruct fs))
                | Some (JObj []) | Some (JStr []) => Ok (TStruct [])      (* iterating an empty dict / string *)
                | Some _ => Err EType
                end
              else Err EUnmodelled
          | None =>
              if str_eqb tpe n_udt then
                match nlookup k_pyClass kv with None => Err EKey | Some _ => Err EUnmodelled end
              else Err EValue
          end
      | Some (JArr _) | Some (JObj _) => Err EType      (* unhashable *)
      | Some _ => Err EValue
      end
  | _ => Err EType      (* re.match on a non-string; `[] in dict` *)
  end.

Fixpoint of_json (fuel : nat) (j : json) : res dtype :=
  match fuel with
  | O => Err EFuel
  | S fuel' => of_json_step (of_json fuel') j
  end.

Fixpoint jdepth (j : json) : nat :=
  match j with
  | JArr l => S (fold_right (fun x m => Nat.max (jdepth x) m) O l)
  | JObj kv => S (fold_right (fun p m => Nat.max (jdepth (snd p)) m) O kv)
  | _ => O
  end.

(* _parse_datatype_json_value *)
Definition parse_json_value (j : json) : res dtype := of_json (S (jdepth j)) j.

(* json.loads(json.dumps(v, sort_keys=True)) on a value whose dict keys are strings: every object's
   entries sorted by key (the json module itself is a black box; this is its stated effect) *)
Fixpoint ins_kv {A} (k : str) (v : A) (l : list (str * A)) : list (str * A) :=
  match l with
  | [] => [(k, v)]
  | (k', v') :: r => if str_leb k k' then (k, v) :: l else (k', v') :: ins_kv k v r
  end.

Fixpoint jsort (j : json) : json :=
  match j with
  | JArr l => JArr (map jsort l)
  | JObj kv => JObj ((fix go (kv : list (str * json)) : list (str * json) :=
                        match kv with
                        | [] => []
                        | p :: r => ins_kv (fst p) (jsort (snd p)) (go r)
                        end) kv)
  | _ => j
  end.

(* what the sorting does to a type tree: the metadata dicts come back with sorted keys *)
Definition sort_meta (m : list (str * json)) : list (str * json) :=
  match jsort (JObj m) with JObj m' => m' | _ => [] end.

Fixpoint tsort (t : dtype) : dtype :=
  match t with
  | TArray e b => TArray (tsort e) b
  | TMap k v b => TMap (tsort k) (tsort v) b
  | TStruct fs => TStruct (map (fun f => match f with
                                         | SField n ty nl m => SField n (tsort ty) nl (sort_meta m)
                                         end) fs)
  | _ => t
  end.

(* DataType.json() followed by _parse_datatype_json_string *)
Definition parse_json_string_of (t : dtype) : res dtype := parse_json_value (jsort (to_json t)).

(* ================================================================== Part 2: Python values *)
Inductive pyval :=
| PNone
| PBool (b : bool)
| PInt (z : Z)
| PFloat (f : float)
| PStr (s : str)
| PBytearray (s : str)
| PBytes (s : str)
| PDecimal (s : str)                     (* decimal.Decimal, identified by its string *)
| PDate (d : Z)                          (* datetime.date, by its ordinal *)
| PDatetime (us : Z) (tz : option Z)     (* naive: its wall-clock microseconds; aware: UTC microseconds + UTC offset *)
| PList (l : list pyval)
| PTuple (l : list pyval)
| PDict (kv : list (pyval * pyval))      (* insertion order *)
| PRow (fields : list str) (vals : list pyval).   (* a Row carrying __fields__ *)

Definition pytype_name (v : pyval) : string :=
  match v with
  | PNone => "NoneType" | PBool _ => "bool" | PInt _ => "int" | PFloat _ => "float" | PStr _ => "str"
  | PBytearray _ => "bytearray" | PBytes _ => "bytes" | PDecimal _ => "Decimal" | PDate _ => "date"
  | PDatetime _ _ => "datetime" | PList _ => "list" | PTuple _ => "tuple" | PDict _ => "dict" | PRow _ _ => "Row"
  end%string.

(* the classes a value is an instance of (besides object) *)
Definition mro (n : string) : list string :=
  (if String.eqb n "bool" then ["bool"; "int"]
   else if String.eqb n "datetime" then ["datetime"; "date"]
   else if String.eqb n "Row" then ["Row"; "tuple"]
   else [n])%string.
Definition isinstance (v : pyval) (classes : list string) : bool :=
  existsb (fun c => smem c classes) (mro (pytype_name v)).

Definition is_none (v : pyval) : bool := match v with PNone => true | _ => false end.
Definition is_null (t : dtype) : bool := match t with TAtom ANull => true | _ => false end.
Definition t_null : dtype := TAtom ANull.

(* bool(v) for the containers and scalars that reach `obj and [...]` *)
Definition py_falsy (v : pyval) : bool :=
  match v with
  | PNone | PBool false | PInt 0 | PStr [] | PBytearray [] | PBytes [] | PList [] | PTuple [] | PDict [] | PRow _ [] => true
  | PFloat f => PrimFloat.eqb f PrimFloat.zero
  | _ => false
  end.

(* ------------------------------------------------------------------ inference (_infer_type, _infer_schema) *)
Definition infer_decimal_type : dtype := TDecimal (Z.to_N (fst infer_decimal)) (snd infer_decimal).

(* `_type_mappings.get(type(obj))`, then the instance the class denotes *)
Definition infer_mapped (v : pyval) : option (res dtype) :=
  match slookup (pytype_name v) type_mappings with
  | Some cls => Some (if String.eqb cls "DecimalType" then Ok infer_decimal_type else dtype_of_class cls)
  | None => None
  end.

Definition field_name_n (i : nat) : str := 95%N :: N_str (N.of_nat i).     (* f'_{i}' *)

Fixpoint infer_type (v : pyval) : res dtype :=
  match v with
  | PNone => Ok t_null
  | PList l =>
      (fix first (l : list pyval) : res dtype :=
         match l with
         | [] => Ok (TArray t_null true)
         | x :: r => if is_none x then first r else bind (infer_type x) (fun t => Ok (TArray t true))
         end) l
  | PDict kv =>
      (fix first (kv : list (pyval * pyval)) : res dtype :=
         match kv with
         | [] => Ok (TMap t_null t_null true)
         | (k, x) :: r =>
             if is_none k || is_none x then first r
             else bind (infer_type k) (fun kt => bind (infer_type x) (fun vt => Ok (TMap kt vt true)))
         end) kv
  | PRow names vals =>
      bind ((fix go (names : list str) (vals : list pyval) {struct vals} : res (list (sfield dtype)) :=
               match vals, names with
               | x :: vals', n :: names' =>
                   bind (infer_type x) (fun t => bind (go names' vals') (fun r => Ok (SField n t true [] :: r)))
               | _, _ => Ok []
               end) names vals) (fun fs => Ok (TStruct fs))
  | PTuple vals =>
      bind ((fix go (i : nat) (vals : list pyval) : res (list (sfield dtype)) :=
               match vals with
               | x :: vals' =>
                   bind (infer_type x) (fun t => bind (go (S i) vals') (fun r => Ok (SField (field_name_n i) t true [] :: r)))
               | [] => Ok []
               end) 1%nat vals) (fun fs => Ok (TStruct fs))
  | _ => match infer_mapped v with Some r => r | None => Err EType end
  end.

(* _infer_schema(row) for the rows of createDataFrame *)
Definition infer_schema (row : pyval) : res dtype :=
  match row with
  | PRow _ _ | PTuple _ => infer_type row
  | PList l => infer_type (PTuple l)
  | PDict _ => Err EUnmodelled          (* sorted(row.items()) of a dict row *)
  | _ => Err EType                      (* "Can not infer schema for type" *)
  end.

(* ------------------------------------------------------------------ _merge_type, _has_nulltype *)
Fixpoint dict_set {A} (k : str) (v : A) (d : list (str * A)) : list (str * A) :=
  match d with
  | [] => [(k, v)]
  | (k', v') :: r => if str_eqb k k' then (k, v) :: r else (k', v') :: dict_set k v r
  end.
Definition dict_of {A} (l : list (str * A)) : list (str * A) :=
  fold_left (fun d p => dict_set (fst p) (snd p) d) l [].

Definition str_mem (k : str) (l : list str) : bool := existsb (str_eqb k) l.

Fixpoint merge_type (a b : dtype) : res dtype :=
  if is_null a then Ok b
  else if is_null b then Ok a
  else if negb (String.eqb (dtype_class a) (dtype_class b)) then Err EType
  else
    match a with
    | TStruct fa =>
        let nfs := dict_of (match b with
                            | TStruct fb => map (fun f => (sf_name f, sf_ty f)) fb
                            | _ => []
                            end) in
        bind ((fix go (l : list (sfield dtype)) : res (list (sfield dtype)) :=
                 match l with
                 | [] => Ok []
                 | f :: r =>
                     match f with
                     | SField n ty _ _ =>
                         bind (merge_type ty (match nlookup n nfs with Some t => t | None => t_null end))
                              (fun t => bind (go r) (fun r' => Ok (SField n t true [] :: r')))
                     end
                 end) fa)
             (fun fields =>
                let names := map sf_name fields in
                Ok (TStruct (fields ++ map (fun p => SField (fst p) (snd p) true [])
                                           (filter (fun p => negb (str_mem (fst p) names)) nfs))))
    | TArray ea _ =>
        match b with
        | TArray eb _ => bind (merge_type ea eb) (fun e => Ok (TArray e true))
        | _ => Ok a
        end
    | TMap ka va _ =>
        match b with
        | TMap kb vb _ => bind (merge_type ka kb) (fun k => bind (merge_type va vb) (fun v => Ok (TMap k v true)))
        | _ => Ok a
        end
    | _ => Ok a
    end.

Fixpoint has_nulltype (t : dtype) : bool :=
  match t with
  | TStruct fs => existsb (fun f => has_nulltype (sf_ty f)) fs
  | TArray e _ => has_nulltype e
  | TMap k v _ => has_nulltype k || has_nulltype v
  | TAtom ANull => true
  | _ => false
  end.

(* functools.reduce(_merge_type, (_infer_schema(row) for row in data)) *)
Fixpoint reduce_merge (acc : dtype) (rows : list pyval) : res dtype :=
  match rows with
  | [] => Ok acc
  | r :: rest => bind (infer_schema r) (fun s => bind (merge_type acc s) (fun acc' => reduce_merge acc' rest))
  end.

(* schema_utils.infer_schema_from_list *)
Definition infer_schema_from_list (rows : list pyval) : res dtype :=
  match rows with
  | [] => Err EValue
  | PDict _ :: _ => Err ENotImplemented
  | r :: rest =>
      bind (infer_schema r) (fun s0 =>
        bind (reduce_merge s0 rest) (fun s => if has_nulltype s then Err EValue else Ok s))
  end.

(* ------------------------------------------------------------------ the type verifier (_make_type_verifier) *)
Definition acceptable (cls : string) (v : pyval) : res unit :=
  match slookup cls acceptable_types with
  | None => Err EAssertion                                  (* assert _type in _acceptable_types *)
  | Some classes => if isinstance v classes then Ok tt else Err EType
  end.

Definition int_value (v : pyval) : option Z :=
  match v with PInt z => Some z | PBool b => Some (if b then 1 else 0) | _ => None end.

Fixpoint each {A} (f : A -> res unit) (l : list A) : res unit :=
  match l with [] => Ok tt | x :: r => bind (f x) (fun _ => each f r) end.

Fixpoint index_of (k : str) (l : list str) : option nat :=
  match l with
  | [] => None
  | x :: r => if str_eqb k x then Some O else option_map S (index_of k r)
  end.

(* Row.__getitem__(name) *)
Definition row_get (names : list str) (vals : list pyval) (k : str) : res pyval :=
  match index_of k names with
  | None => Err EValue
  | Some i => match nth_error vals i with Some v => Ok v | None => Err EKey end
  end.

(* dict.get(name) on a dict whose keys are compared with a string *)
Fixpoint dict_get (k : str) (kv : list (pyval * pyval)) : pyval :=
  match kv with
  | [] => PNone
  | (PStr k', v) :: r => if str_eqb k k' then v else dict_get k r
  | _ :: r => dict_get k r
  end.

Fixpoint verify (t : dtype) (nullable : bool) (v : pyval) : res unit :=
  if is_none v then (if nullable then Ok tt else Err EValue)
  else
    let cls := dtype_class t in
    if smem cls nocheck_types then Ok tt
    else
      match t with
      | TArray e cn =>
          bind (acceptable cls v) (fun _ =>
            match v with
            | PList l | PTuple l | PRow _ l => each (verify e cn) l
            | _ => Err EUnmodelled
            end)
      | TMap k x vcn =>
          bind (acceptable cls v) (fun _ =>
            match v with
            | PDict kv => each (fun p => bind (verify k false (fst p)) (fun _ => verify x vcn (snd p))) kv
            | _ => Err EUnmodelled
            end)
      | TStruct fs =>
          match slookup cls acceptable_types with
          | None => Err EAssertion
          | Some _ =>
              match v with
              | PDict kv =>
                  (fix go (fs : list (sfield dtype)) : res unit :=
                     match fs with
                     | [] => Ok tt
                     | SField n ty nl _ :: r => bind (verify ty nl (dict_get n kv)) (fun _ => go r)
                     end) fs
              | PRow names vals =>
                  (fix go (fs : list (sfield dtype)) : res unit :=
                     match fs with
                     | [] => Ok tt
                     | SField n ty nl _ :: r =>
                         bind (row_get names vals n) (fun x => bind (verify ty nl x) (fun _ => go r))
                     end) fs
              | PTuple vals | PList vals =>
                  if negb (Nat.eqb (List.length vals) (List.length fs)) then Err EValue
                  else
                    (fix go (fs : list (sfield dtype)) (vals : list pyval) : res unit :=
                       match fs, vals with
                       | SField n ty nl _ :: r, x :: vals' => bind (verify ty nl x) (fun _ => go r vals')
                       | _, _ => Ok tt
                       end) fs vals
              | _ => Err EType
              end
          end
      | _ =>
          bind (acceptable cls v) (fun _ =>
            match slookup cls ranged_types with
            | Some (lo, hi) =>
                match int_value v with
                | Some z => if (z <? lo) || (hi <? z) then Err EValue else Ok tt
                | None => Err EUnmodelled
                end
            | None => Ok tt
            end)
      end.

(* ------------------------------------------------------------------ _create_converter *)
Fixpoint need_converter (t : dtype) : bool :=
  match t with
  | TStruct _ => true
  | TArray e _ => need_converter e
  | TMap k v _ => need_converter k || need_converter v
  | TAtom ANull => true
  | _ => false
  end.

Fixpoint convert (t : dtype) (v : pyval) : res pyval :=
  if negb (need_converter t) then Ok v
  else
    match t with
    | TArray e _ =>
        match v with
        | PNone => Ok PNone                            (* ... if row is not None else None *)
        | PList l | PTuple l | PRow _ l => bind (mapM (convert e) l) (fun l' => Ok (PList l'))
        | PDict _ | PStr _ | PBytes _ | PBytearray _ => Err EUnmodelled
        | _ => Err EType                               (* [conv(v) for v in 5]: not iterable *)
        end
    | TMap k x _ =>
        match v with
        | PDict kv =>
            bind (mapM (fun p => bind (convert k (fst p)) (fun k' => bind (convert x (snd p)) (fun x' => Ok (k', x')))) kv)
                 (fun kv' => Ok (PDict kv'))
        | PNone => Ok PNone                            (* ... if row is not None else None *)
        | _ => Err EAttribute                          (* row.items() *)
        end
    | TStruct fs =>
        let convert_fields := existsb (fun f => need_converter (sf_ty f)) fs in
        match v with
        | PNone => Ok PNone
        | PRow names vals =>
            if convert_fields then
              bind ((fix go (fs : list (sfield dtype)) (vals : list pyval) : res (list pyval) :=
                       match fs, vals with
                       | SField _ ty _ _ :: r, x :: vals' =>
                           bind (convert ty x) (fun y => bind (go r vals') (fun ys => Ok (y :: ys)))
                       | _, _ => Ok []
                       end) fs vals) (fun vals' => Ok (PRow names vals'))
            else Ok v
        | PTuple vals | PList vals =>
            if convert_fields then
              bind ((fix go (fs : list (sfield dtype)) (vals : list pyval) : res (list pyval) :=
                       match fs, vals with
                       | SField _ ty _ _ :: r, x :: vals' =>
                           bind (convert ty x) (fun y => bind (go r vals') (fun ys => Ok (y :: ys)))
                       | _, _ => Ok []
                       end) fs vals) (fun vals' => Ok (PTuple vals'))
            else Ok (PTuple vals)
        | PDict kv =>
            bind ((fix go (fs : list (sfield dtype)) : res (list pyval) :=
                     match fs with
                     | SField n ty _ _ :: r =>
                         bind (if convert_fields then convert ty (dict_get n kv) else Ok (dict_get n kv))
                              (fun y => bind (go r) (fun ys => Ok (y :: ys)))
                     | [] => Ok []
                     end) fs) (fun vals' => Ok (PTuple vals'))
        | _ => Err EType                               (* "Unexpected obj type" *)
        end
    | TAtom ANull => Ok PNone
    | _ => Ok v
    end.

(* ------------------------------------------------------------------ toInternal *)
Definition const_need_conversion (cls : string) : bool :=
  match slookup cls need_conversion_const with Some b => b | None => false end.

Fixpoint need_conversion (t : dtype) : bool :=
  match t with
  | TArray e _ => need_conversion e
  | TMap k v _ => need_conversion k || need_conversion v
  | _ => const_need_conversion (dtype_class t)
  end.

(* StructType._match_fields_by_name: a Row whose own field names are duplicate-free, are not the names of the struct
   in this order, and among which EVERY name of the struct occurs (a permutation, e.g. a Row built from keyword
   arguments; or a Row with more fields than the struct) is re-listed under the struct's names, the value of each
   field looked up by name as the verifier does; any other Row is left as it is *)
Fixpoint strs_eqb (a b : list str) : bool :=
  match a, b with
  | [], [] => true
  | x :: a', y :: b' => str_eqb x y && strs_eqb a' b'
  | _, _ => false
  end.
Fixpoint nodupb (l : list str) : bool :=
  match l with [] => true | x :: r => negb (str_mem x r) && nodupb r end.

Definition match_fields_by_name (snames names : list str) (vals : list pyval) : res (list str * list pyval) :=
  if negb (strs_eqb names snames) && nodupb names && forallb (fun n => str_mem n names) snames
  then bind (mapM (row_get names vals) snames) (fun vs => Ok (snames, vs))
  else Ok (names, vals).

Section ToInternal.
  Variable local_offset : Z.      (* the UTC offset of the local zone, what astimezone() converts to *)

  Fixpoint to_internal (t : dtype) (v : pyval) : res pyval :=
    match t with
    | TAtom ATimestamp =>
        match v with
        | PNone => Ok v
        | PDatetime us (Some _) => Ok (PDatetime us (Some local_offset))
        | PDatetime _ None => Ok v
        | _ => Err EAttribute                          (* obj.tzinfo *)
        end
    | TArray e _ =>
        if negb (need_conversion t) then Ok v
        else if py_falsy v then Ok v
        else match v with
             | PList l | PTuple l | PRow _ l => bind (mapM (to_internal e) l) (fun l' => Ok (PList l'))
             | PInt _ | PBool _ | PFloat _ | PDate _ | PDatetime _ _ | PDecimal _ => Err EType
             | _ => Err EUnmodelled
             end
    | TMap k x _ =>
        if negb (need_conversion t) then Ok v
        else if py_falsy v then Ok v
        else match v with
             | PDict kv =>
                 bind (mapM (fun p => bind (to_internal k (fst p)) (fun k' =>
                                      bind (to_internal x (snd p)) (fun x' => Ok (k', x')))) kv)
                      (fun kv' => Ok (PDict kv'))
             | _ => Err EAttribute                     (* obj.items() *)
             end
    | TStruct fs =>
        let any := existsb (fun f => need_conversion (sf_ty f)) fs in
        match v with
        | PNone => Ok PNone
        | PDict kv =>
            bind ((fix go (fs : list (sfield dtype)) : res (list pyval) :=
                     match fs with
                     | SField n ty _ _ :: r =>
                         bind (if need_conversion ty then to_internal ty (dict_get n kv) else Ok (dict_get n kv))
                              (fun y => bind (go r) (fun ys => Ok (y :: ys)))
                     | [] => Ok []
                     end) fs) (fun vals' => Ok (PTuple vals'))
        | PRow names0 vals0 =>
            bind (match_fields_by_name (map sf_name fs) names0 vals0) (fun nv =>
              let names := fst nv in
              let vals := snd nv in
              if any then
                bind ((fix go (fs : list (sfield dtype)) (vals : list pyval) : res (list pyval) :=
                         match fs, vals with
                         | SField _ ty _ _ :: r, x :: vals' =>
                             bind (to_internal ty x) (fun y => bind (go r vals') (fun ys => Ok (y :: ys)))
                         | _, _ => Ok []
                         end) fs vals) (fun vals' => Ok (PRow names vals'))
              else Ok (PRow names vals))
        | PTuple vals | PList vals =>
            if any then
              bind ((fix go (fs : list (sfield dtype)) (vals : list pyval) : res (list pyval) :=
                       match fs, vals with
                       | SField _ ty _ _ :: r, x :: vals' =>
                           bind (if need_conversion ty then to_internal ty x else Ok x)
                                (fun y => bind (go r vals') (fun ys => Ok (y :: ys)))
                       | _, _ => Ok []
                       end) fs vals) (fun vals' => Ok (PTuple vals'))
            else Ok (PTuple vals)
        | _ => Err EValue                              (* "Unexpected tuple ... with StructType" *)
        end
    | _ => Ok v
    end.

  (* DataFrameInternal: rdd.map(partial(create_row, cols)) -- tuple.__new__(Row, values) *)
  Definition make_row (cols : list str) (internal : pyval) : res pyval :=
    match internal with
    | PTuple vals | PList vals | PRow _ vals => Ok (PRow cols vals)
    | PNone | PInt _ | PBool _ | PFloat _ | PDate _ | PDatetime _ _ | PDecimal _ => Err EType
    | _ => Err EUnmodelled
    end.

  Definition schema_names (s : dtype) : list str :=
    match s with TStruct fs => map sf_name fs | _ => [] end.

  (* createDataFrame(rows) without a schema, then collect() *)
  Definition create_inferred (rows : list pyval) : res (list pyval) :=
    bind (infer_schema_from_list rows) (fun s =>
      bind (mapM (fun r => bind (convert s r) (to_internal s)) rows) (fun internal =>
        mapM (make_row (schema_names s)) internal)).

  (* SparkSession._inferSchema(rdd): the first row alone when it determines every type, otherwise merged with
     the following rows (of the first 100) until no NullType is left; for/else: ValueError when they run out *)
  Fixpoint rdd_merge (acc : dtype) (rows : list pyval) : res dtype :=
    match rows with
    | [] => Err EValue
    | r :: rest =>
        bind (infer_schema r) (fun s =>
          bind (merge_type acc s) (fun acc' => if has_nulltype acc' then rdd_merge acc' rest else Ok acc'))
    end.

  Definition infer_schema_rdd (rows : list pyval) : res dtype :=
    match rows with
    | [] => Err EStopIteration                       (* rdd.first() *)
    | first :: rest =>
        if py_falsy first then Err EValue             (* "The first row in RDD is empty" *)
        else match first with
             | PDict _ => Err ENotImplemented
             | _ => bind (infer_schema first) (fun s =>
                      if has_nulltype s then rdd_merge s (firstn 99 rest) else Ok s)
             end
    end.

  (* createDataFrame(sc.parallelize(rows)) without a schema, then collect() *)
  Definition create_inferred_rdd (rows : list pyval) : res (list pyval) :=
    bind (infer_schema_rdd rows) (fun s =>
      bind (mapM (fun r => bind (convert s r) (to_internal s)) rows) (fun internal =>
        mapM (make_row (schema_names s)) internal)).

  (* createDataFrame(rows, schema) with a StructType schema (verifySchema=True), then collect() *)
  Definition create_with_schema (s : dtype) (rows : list pyval) : res (list pyval) :=
    match s with
    | TStruct _ =>
        bind (each (verify s true) rows) (fun _ =>
          bind (mapM (to_internal s) rows) (fun internal =>
            mapM (make_row (schema_names s)) internal))
    | _ => Err EUnmodelled
    end.
  (* ---- createDataFrame(rows, [names]): the schema argument is a list of column names *)
  (* _infer_schema(row, names) on a plain tuple: names.extend(f'_{i}' ...) when there are fewer names than values *)
  Definition extend_names (names : list str) (n : nat) : list str :=
    names ++ map (fun i => field_name_n i) (seq (S (List.length names)) (n - List.length names)).

  (* a plain tuple / list row takes the given names (Rows and namedtuples keep their own) *)
  Definition name_row (names : list str) (row : pyval) : pyval :=
    match row with
    | PTuple vals | PList vals => PRow (extend_names names (List.length vals)) vals
    | _ => row
    end.

  (* the name list after inference: extended by every plain tuple row that was longer *)
  Definition final_names (names : list str) (rows : list pyval) : list str :=
    fold_left (fun ns r => match r with
                           | PTuple vals | PList vals => extend_names ns (List.length vals)
                           | _ => ns
                           end) rows names.

  (* session._values_in_order(own_names): a Row's values in the order of the inferred struct's own names, as a tuple *)
  Definition values_in_order (own : list str) (r : pyval) : res pyval :=
    match r with
    | PRow names vals =>
        if negb (strs_eqb names own) && nodupb names && forallb (fun n => str_mem n names) own
        then bind (mapM (row_get names vals) own) (fun vs => Ok (PTuple vs))
        else Ok (PTuple vals)
    | _ => Ok r
    end.

  (* for i, name in enumerate(schema): struct.fields[i].name = name *)
  Fixpoint rename_fields (fs : list (sfield dtype)) (given : list str) : res (list (sfield dtype)) :=
    match given, fs with
    | [], _ => Ok fs
    | n :: given', SField _ ty nl m :: fs' => bind (rename_fields fs' given') (fun r => Ok (SField n ty nl m :: r))
    | _ :: _, [] => Err EUnmodelled                       (* IndexError: more names than fields *)
    end.

  Definition create_named_with (infer : list pyval -> res dtype) (given : list str) (rows : list pyval)
      : res (dtype * list pyval) :=
    bind (infer (map (name_row given) rows)) (fun s =>
      match s with
      | TStruct fs =>
          bind (rename_fields fs (final_names given rows)) (fun fs' =>
            let own := map sf_name fs in
            let s' := TStruct fs' in
            bind (mapM (fun r => bind (convert s r) (fun r1 => bind (values_in_order own r1) (to_internal s'))) rows)
                 (fun internal => bind (mapM (make_row (map sf_name fs')) internal) (fun out => Ok (s', out))))
      | _ => Err EUnmodelled
      end).

  (* createDataFrame(rows, names).collect() and createDataFrame(sc.parallelize(rows), names).collect() *)
  Definition create_named (given : list str) (rows : list pyval) : res (dtype * list pyval) :=
    create_named_with infer_schema_from_list given rows.
  Definition create_named_rdd (given : list str) (rows : list pyval) : res (dtype * list pyval) :=
    create_named_with infer_schema_rdd given rows.
End ToInternal.

(* what the conversion may change: a timezone-aware datetime is re-expressed in the local zone *)
Fixpoint tz_local (local_offset : Z) (v : pyval) : pyval :=
  match v with
  | PDatetime us (Some _) => PDatetime us (Some local_offset)
  | PList l => PList (map (tz_local local_offset) l)
  | PTuple l => PTuple (map (tz_local local_offset) l)
  | PDict kv => PDict (map (fun p => (tz_local local_offset (fst p), tz_local local_offset (snd p))) kv)
  | PRow names vals => PRow names (map (tz_local local_offset) vals)
  | _ => v
  end.

(* ------------------------------------------------------------------ Row: asDict, __reduce__ / create_row *)
Fixpoint pdict_set (k : str) (v : pyval) (d : list (pyval * pyval)) : list (pyval * pyval) :=
  match d with
  | [] => [(PStr k, v)]
  | (PStr k', v') :: r => if str_eqb k k' then (PStr k', v) :: r else (PStr k', v') :: pdict_set k v r
  | p :: r => p :: pdict_set k v r
  end.

(* dict(zip(names, values)) *)
Fixpoint dict_zip (names : list str) (vals : list pyval) (d : list (pyval * pyval)) : list (pyval * pyval) :=
  match names, vals with
  | n :: names', v :: vals' => dict_zip names' vals' (pdict_set n v d)
  | _, _ => d
  end.

Definition as_dict (r : pyval) : res pyval :=
  match r with PRow names vals => Ok (PDict (dict_zip names vals [])) | _ => Err EUnmodelled end.

(* the conv() of asDict(recursive=True) *)
Fixpoint as_dict_conv (v : pyval) : pyval :=
  match v with
  | PRow names vals => PDict (dict_zip names (map as_dict_conv vals) [])
  | PList l => PList (map as_dict_conv l)
  | PDict kv => PDict (map (fun p => (fst p, as_dict_conv (snd p))) kv)
  | _ => v
  end.

(* pickling: the pickle module is a black box that stores containers element-wise and calls
   __reduce__ on a Row, which answers (create_row, (self.__fields__, tuple(self))) *)
Inductive pickled :=
| KLeaf (v : pyval)
| KList (l : list pickled)
| KTuple (l : list pickled)
| KDict (kv : list (pickled * pickled))
| KCreateRow (fields : pickled) (values : pickled).

Fixpoint pickle_dumps (v : pyval) : pickled :=
  match v with
  | PList l => KList (map pickle_dumps l)
  | PTuple l => KTuple (map pickle_dumps l)
  | PDict kv => KDict (map (fun p => (pickle_dumps (fst p), pickle_dumps (snd p))) kv)
  | PRow names vals => KCreateRow (KTuple (map (fun n => KLeaf (PStr n)) names)) (KTuple (map pickle_dumps vals))
  | _ => KLeaf v
  end.

Fixpoint all_strs (l : list pyval) : option (list str) :=
  match l with
  | [] => Some []
  | PStr s :: r => option_map (cons s) (all_strs r)
  | _ => None
  end.

(* create_row(fields, values): tuple.__new__(Row, values); __fields__ = tuple(fields) *)
Definition create_row (fields values : pyval) : res pyval :=
  match fields, values with
  | (PTuple fs | PList fs), (PTuple vs | PList vs) =>
      match all_strs fs with Some names => Ok (PRow names vs) | None => Err EUnmodelled end
  | _, _ => Err EUnmodelled
  end.

Fixpoint pickle_loads (k : pickled) : res pyval :=
  let loads_list :=
    fix go (l : list pickled) : res (list pyval) :=
      match l with
      | [] => Ok []
      | x :: r => bind (pickle_loads x) (fun y => bind (go r) (fun ys => Ok (y :: ys)))
      end in
  match k with
  | KLeaf v => Ok v
  | KList l => bind (loads_list l) (fun l' => Ok (PList l'))
  | KTuple l => bind (loads_list l) (fun l' => Ok (PTuple l'))
  | KDict kv =>
      bind ((fix go (kv : list (pickled * pickled)) : res (list (pyval * pyval)) :=
               match kv with
               | [] => Ok []
               | p :: r => bind (pickle_loads (fst p)) (fun a => bind (pickle_loads (snd p)) (fun b =>
                             bind (go r) (fun r' => Ok ((a, b) :: r'))))
               end) kv) (fun kv' => Ok (PDict kv'))
  | KCreateRow f v => bind (pickle_loads f) (fun f' => bind (pickle_loads v) (fun v' => create_row f' v'))
  end.
