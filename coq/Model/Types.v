(* Executable model of pysparkling/sql/types.py (type trees and their JSON descriptions, schema
   inference, the type verifier, conversion to the internal representation, Row) together with the
   createDataFrame paths of sql/session.py and infer_schema_from_list of sql/schema_utils.py.

   Part 1 (this section): type trees, JSON values, jsonValue (to_json) and
   _parse_datatype_json_value (of_json).  The constant tables (_atomic_types, _all_complex_types,
   DecimalType defaults, ...) come from PV.Gen.TypeTables, regenerated from the source on every run.

   Python strings are lists of code points ([str]); Python class names are Coq [string]s. *)
From Coq Require Import ZArith NArith List Bool String Ascii.
From Coq Require Import PrimFloat.
Require Import PV.Gen.TypeTables.
Import ListNotations.
Open Scope list_scope.
Open Scope Z_scope.

Definition str := list N.
Definition lit (s : string) : str := map N_of_ascii (list_ascii_of_string s).

Fixpoint str_eqb (a b : str) : bool :=
  match a, b with
  | [], [] => true
  | x :: a', y :: b' => N.eqb x y && str_eqb a' b'
  | _, _ => false
  end.

(* lexicographic order on code points: Python's str comparison *)
Fixpoint str_leb (a b : str) : bool :=
  match a, b with
  | [], _ => true
  | _ :: _, [] => false
  | x :: a', y :: b' => if (x <? y)%N then true else if (y <? x)%N then false else str_leb a' b'
  end.

(* association lists: a Python dict in insertion order; lookup by key *)
Fixpoint slookup {A} (k : string) (l : list (string * A)) : option A :=
  match l with
  | [] => None
  | (k', v) :: r => if String.eqb k k' then Some v else slookup k r
  end.

Fixpoint nlookup {A} (k : str) (l : list (str * A)) : option A :=
  match l with
  | [] => None
  | (k', v) :: r => if str_eqb k k' then Some v else nlookup k r
  end.

Definition smem (k : string) (l : list string) : bool := existsb (String.eqb k) l.

(* results with the exception classes the modelled code can raise *)
Inductive exn := EKey | EValue | EType | EAssertion | EAttribute | ENotImplemented
               | EFuel          (* the model's recursion budget ran out: excluded by the theorems *)
               | EUnmodelled.   (* input outside the modelled fragment: never produced by the generators *)
Inductive res (A : Type) := Ok (a : A) | Err (e : exn).
Arguments Ok {A} a.
Arguments Err {A} e.

Definition bind {A B} (r : res A) (f : A -> res B) : res B :=
  match r with Ok a => f a | Err e => Err e end.

Fixpoint mapM {A B} (f : A -> res B) (l : list A) : res (list B) :=
  match l with
  | [] => Ok []
  | x :: r => bind (f x) (fun y => bind (mapM f r) (fun ys => Ok (y :: ys)))
  end.

(* ------------------------------------------------------------------ type trees *)
Inductive atomic := AString | ABinary | ABoolean | AFloat | ADouble | AByte | AShort | AInteger | ALong
                  | ADate | ATimestamp | ANull.

Definition all_atomics : list atomic :=
  [AString; ABinary; ABoolean; AFloat; ADouble; AByte; AShort; AInteger; ALong; ADate; ATimestamp; ANull].

Definition atomic_class (a : atomic) : string :=
  match a with
  | AString => "StringType" | ABinary => "BinaryType" | ABoolean => "BooleanType" | AFloat => "FloatType"
  | ADouble => "DoubleType" | AByte => "ByteType" | AShort => "ShortType" | AInteger => "IntegerType"
  | ALong => "LongType" | ADate => "DateType" | ATimestamp => "TimestampType" | ANull => "NullType"
  end%string.

Definition atomic_eqb (a b : atomic) : bool := String.eqb (atomic_class a) (atomic_class b).

Definition class_atomic (c : string) : option atomic :=
  find (fun a => String.eqb (atomic_class a) c) all_atomics.

Inductive json :=
| JNull | JBool (b : bool) | JInt (z : Z) | JFloat (f : float) | JStr (s : str)
| JArr (l : list json) | JObj (kv : list (str * json)).

(* StructField(name, dataType, nullable, metadata); metadata is a dict from strings to JSON values *)
Inductive sfield (T : Type) := SField (name : str) (ty : T) (nullable : bool) (meta : list (str * json)).
Arguments SField {T} name ty nullable meta.

Inductive dtype :=
| TAtom (a : atomic)
| TDecimal (p : N) (s : Z)                       (* DecimalType(precision, scale) *)
| TArray (e : dtype) (containsNull : bool)
| TMap (k v : dtype) (valueContainsNull : bool)
| TStruct (fs : list (sfield dtype)).

Definition sf_name {T} (f : sfield T) : str := match f with SField n _ _ _ => n end.
Definition sf_ty {T} (f : sfield T) : T := match f with SField _ t _ _ => t end.
Definition sf_nullable {T} (f : sfield T) : bool := match f with SField _ _ b _ => b end.
Definition sf_meta {T} (f : sfield T) : list (str * json) := match f with SField _ _ _ m => m end.

Definition dtype_class (t : dtype) : string :=
  match t with
  | TAtom a => atomic_class a
  | TDecimal _ _ => "DecimalType"
  | TArray _ _ => "ArrayType"
  | TMap _ _ _ => "MapType"
  | TStruct _ => "StructType"
  end%string.

(* ------------------------------------------------------------------ names and numbers in JSON *)
(* DataType.typeName(): the class name without "Type", lower-cased (table regenerated) *)
Definition class_name (tbl : list (string * str)) (c : string) : str :=
  match slookup c tbl with Some n => n | None => [] end.
Definition atom_name (a : atomic) : str := class_name atomic_type_names (atomic_class a).

(* dict((t.typeName(), t) for t in ...): lookup of a class by its type name, the last entry wins *)
Fixpoint name_class (tbl : list (string * str)) (s : str) : option string :=
  match tbl with
  | [] => None
  | (c, n) :: r => match name_class r s with
                   | Some c' => Some c'
                   | None => if str_eqb s n then Some c else None
                   end
  end.

(* f"{n:d}" *)
Fixpoint uint_codes (d : Decimal.uint) : str :=
  match d with
  | Decimal.Nil => []
  | Decimal.D0 d => 48%N :: uint_codes d | Decimal.D1 d => 49%N :: uint_codes d
  | Decimal.D2 d => 50%N :: uint_codes d | Decimal.D3 d => 51%N :: uint_codes d
  | Decimal.D4 d => 52%N :: uint_codes d | Decimal.D5 d => 53%N :: uint_codes d
  | Decimal.D6 d => 54%N :: uint_codes d | Decimal.D7 d => 55%N :: uint_codes d
  | Decimal.D8 d => 56%N :: uint_codes d | Decimal.D9 d => 57%N :: uint_codes d
  end.
Definition N_str (n : N) : str := uint_codes (N.to_uint n).
Definition Z_str (z : Z) : str :=
  match z with Zneg p => 45%N :: N_str (Npos p) | _ => N_str (Z.to_N z) end.

(* DecimalType.jsonValue: f"decimal({self.precision:d},{self.scale:d})" *)
Definition decimal_str (p : N) (s : Z) : str :=
  lit "decimal(" ++ N_str p ++ [44%N] ++ Z_str s ++ [41%N].

(* the regular expression _FIXED_DECIMAL = decimal\(\s*(\d+)\s*,\s*(-?\d+)\s*\) applied with .match
   (anchored at the start only), for ASCII input: \d = 0-9, \s = \t\n\v\f\r, \x1c-\x1f and space *)
Definition is_digit (c : N) : bool := ((48 <=? c) && (c <=? 57))%N.
Definition is_space (c : N) : bool := (((9 <=? c) && (c <=? 13)) || ((28 <=? c) && (c <=? 32)))%N.

Fixpoint skip_ws (s : str) : str :=
  match s with c :: r => if is_space c then skip_ws r else s | [] => [] end.
Fixpoint span_digits (s : str) : str * str :=
  match s with
  | c :: r => if is_digit c then let (d, rest) := span_digits r in (c :: d, rest) else ([], s)
  | [] => ([], [])
  end.
Definition digits_val (ds : str) : N := fold_left (fun acc c => (acc * 10 + (c - 48))%N) ds 0%N.
Fixpoint strip_prefix (p s : str) : option str :=
  match p, s with
  | [], _ => Some s
  | x :: p', y :: s' => if N.eqb x y then strip_prefix p' s' else None
  | _ :: _, [] => None
  end.

Definition head_is (c : N) (s : str) : bool := match s with x :: _ => N.eqb x c | [] => false end.
Definition tail (s : str) : str := match s with _ :: r => r | [] => [] end.

Definition match_fixed_decimal (s : str) : option (N * Z) :=
  match strip_prefix (lit "decimal(") s with
  | None => None
  | Some s1 =>
      let (d1, s3) := span_digits (skip_ws s1) in
      match d1 with
      | [] => None
      | _ :: _ =>
          let s4 := skip_ws s3 in
          if head_is 44 s4 then
            let s6 := skip_ws (tail s4) in
            let neg := head_is 45 s6 in
            let (d2, s8) := span_digits (if neg then tail s6 else s6) in
            match d2 with
            | [] => None
            | _ :: _ =>
                if head_is 41 (skip_ws s8)
                then Some (digits_val d1, if neg then (- Z.of_N (digits_val d2)) else Z.of_N (digits_val d2))
                else None
            end
          else None
      end
  end.

(* ------------------------------------------------------------------ jsonValue *)
Definition k_type := lit "type".
Definition k_elementType := lit "elementType".
Definition k_containsNull := lit "containsNull".
Definition k_keyType := lit "keyType".
Definition k_valueType := lit "valueType".
Definition k_valueContainsNull := lit "valueContainsNull".
Definition k_fields := lit "fields".
Definition k_name := lit "name".
Definition k_nullable := lit "nullable".
Definition k_metadata := lit "metadata".
Definition k_pyClass := lit "pyClass".
Definition n_udt := lit "udt".

Definition complex_name (c : string) : str := class_name complex_type_names c.

Fixpoint to_json (t : dtype) : json :=
  match t with
  | TAtom a => JStr (atom_name a)
  | TDecimal p s => JStr (decimal_str p s)
  | TArray e cn =>
      JObj [(k_type, JStr (complex_name "ArrayType")); (k_elementType, to_json e); (k_containsNull, JBool cn)]
  | TMap k v b =>
      JObj [(k_type, JStr (complex_name "MapType")); (k_keyType, to_json k); (k_valueType, to_json v);
            (k_valueContainsNull, JBool b)]
  | TStruct fs =>
      JObj [(k_type, JStr (complex_name "StructType"));
            (k_fields, JArr (map (fun f => match f with
                                           | SField n ty nl m =>
                                               JObj [(k_name, JStr n); (k_type, to_json ty);
                                                     (k_nullable, JBool nl); (k_metadata, JObj m)]
                                           end) fs))]
  end.

(* ------------------------------------------------------------------ _parse_datatype_json_value *)
(* the instance a type name denotes: cls() with the constructor defaults *)
Definition dtype_of_class (c : string) : res dtype :=
  if String.eqb c "DecimalType" then Ok (TDecimal (Z.to_N (fst decimal_default)) (snd decimal_default))
  else match class_atomic c with Some a => Ok (TAtom a) | None => Err EUnmodelled end.

Definition parse_type_string (s : str) : res dtype :=
  match name_class atomic_type_names s with
  | Some c => dtype_of_class c
  | None =>
      (* `json_value == 'decimal'` is shadowed by the table lookup above *)
      match match_fixed_decimal s with
      | Some (p, sc) => Ok (TDecimal p sc)
      | None => Err EValue
      end
  end.

(* `metadata or {}` of StructField.__init__ *)
Definition json_falsy (j : json) : bool :=
  match j with
  | JNull | JBool false | JInt 0 | JStr [] | JArr [] | JObj [] => true
  | JFloat f => PrimFloat.eqb f PrimFloat.zero
  | _ => false
  end.

(* StructField.fromJson: json["name"], parse(json["type"]), json["nullable"], json["metadata"], then the
   constructor's assertion that the name is a string *)
Definition field_of_json (rec : json -> res dtype) (f : json) : res (sfield dtype) :=
  match f with
  | JObj kv =>
      match nlookup k_name kv with
      | None => Err EKey
      | Some nm =>
          match nlookup k_type kv with
          | None => Err EKey
          | Some tj =>
              bind (rec tj) (fun ty =>
                match nlookup k_nullable kv with
                | None => Err EKey
                | Some nl =>
                    match nlookup k_metadata kv with
                    | None => Err EKey
                    | Some md =>
                        match nm with
                        | JStr n =>
                            match nl with
                            | JBool b =>
                                if json_falsy md then Ok (SField n ty b [])
                                else match md with
                                     | JObj m => Ok (SField n ty b m)
                                     | _ => Err EUnmodelled
                                     end
                            | _ => Err EUnmodelled
                            end
                        | _ => Err EAssertion
                        end
                    end
                end)
          end
      end
  | _ => Err EType      (* str / list / number [...]["name"] *)
  end.

(* one level of _parse_datatype_json_value; [rec] is the recursive call *)
Definition of_json_step (rec : json -> res dtype) (j : json) : res dtype :=
  match j with
  | JStr s => parse_type_string s
  | JObj kv =>
      match nlookup k_type kv with
      | None => Err EKey
      | Some (JStr tpe) =>
          match name_class complex_type_names tpe with
          | Some c =>
              if String.eqb c "ArrayType" then
                match nlookup k_elementType kv with
                | None => Err EKey
                | Some ej =>
                    bind (rec ej) (fun e =>
                      match nlookup k_containsNull kv with
                      | None => Err EKey
                      | Some (JBool b) => Ok (TArray e b)
                      | Some _ => Err EUnmodelled
                      end)
                end
              else if String.eqb c "MapType" then
                match nlookup k_keyType kv with
                | None => Err EKey
                | Some kj =>
                    bind (rec kj) (fun k =>
                      match nlookup k_valueType kv with
                      | None => Err EKey
                      | Some vj =>
                          bind (rec vj) (fun v =>
                            match nlookup k_valueContainsNull kv with
                            | None => Err EKey
                            | Some (JBool b) => Ok (TMap k v b)
                            | Some _ => Err EUnmodelled
                            end)
                      end)
                end
              else if String.eqb c "StructType" then
                match nlookup k_fields kv with
                | None => Err EKey
                | Some (JArr l) => bind (mapM (field_of_json rec) l) (fun fs => Ok (TStruct fs))
                | Some (JObj []) | Some (JStr []) => Ok (TStruct [])      (* iterating an empty dict / string *)
                | Some _ => Err EType
                end
              else Err EUnmodelled
          | None =>
              if str_eqb tpe n_udt then
                match nlookup k_pyClass kv with None => Err EKey | Some _ => Err EUnmodelled end
              else Err EValue
          end
      | Some (JArr _) | Some (JObj _) => Err EType      (* unhashable *)
      | Some _ => Err EValue
      end
  | _ => Err EType      (* re.match on a non-string; `[] in dict` *)
  end.

Fixpoint of_json (fuel : nat) (j : json) : res dtype :=
  match fuel with
  | O => Err EFuel
  | S fuel' => of_json_step (of_json fuel') j
  end.

Fixpoint jdepth (j : json) : nat :=
  match j with
  | JArr l => S (fold_right (fun x m => Nat.max (jdepth x) m) O l)
  | JObj kv => S (fold_right (fun p m => Nat.max (jdepth (snd p)) m) O kv)
  | _ => O
  end.

(* _parse_datatype_json_value *)
Definition parse_json_value (j : json) : res dtype := of_json (S (jdepth j)) j.

(* json.loads(json.dumps(v, sort_keys=True)) on a value whose dict keys are strings: every object's
   entries sorted by key (the json module itself is a black box; this is its stated effect) *)
Fixpoint ins_kv {A} (k : str) (v : A) (l : list (str * A)) : list (str * A) :=
  match l with
  | [] => [(k, v)]
  | (k', v') :: r => if str_leb k k' then (k, v) :: l else (k', v') :: ins_kv k v r
  end.

Fixpoint jsort (j : json) : json :=
  match j with
  | JArr l => JArr (map jsort l)
  | JObj kv => JObj ((fix go (kv : list (str * json)) : list (str * json) :=
                        match kv with
                        | [] => []
                        | p :: r => ins_kv (fst p) (jsort (snd p)) (go r)
                        end) kv)
  | _ => j
  end.

(* what the sorting does to a type tree: the metadata dicts come back with sorted keys *)
Definition sort_meta (m : list (str * json)) : list (str * json) :=
  match jsort (JObj m) with JObj m' => m' | _ => [] end.

Fixpoint tsort (t : dtype) : dtype :=
  match t with
  | TArray e b => TArray (tsort e) b
  | TMap k v b => TMap (tsort k) (tsort v) b
  | TStruct fs => TStruct (map (fun f => match f with
                                         | SField n ty nl m => SField n (tsort ty) nl (sort_meta m)
                                         end) fs)
  | _ => t
  end.

(* DataType.json() followed by _parse_datatype_json_string *)
Definition parse_json_string_of (t : dtype) : res dtype := parse_json_value (jsort (to_json t)).
