(* C11 -- executable model of the stream stepping code of pysparkling/streaming/dstream.py
   (DStream._step on a queue source, TransformedDStream._step, WindowedDStream._step,
   StatefulDStream._step) and of the tick callback of StreamingContext.start().

   Definitions only.  The arithmetic/tests of the _step methods (guards, slide counter update,
   trimming condition, skip test, initial values) come from the regenerated PV.Gen.Window.

   An RDD is modelled by what the stream code can observe of it:
     RNone      Python None (a stream that has not produced an RDD yet)
     REmpty     EmptyRDD (no partitions; what the queue source yields once the queue is exhausted)
     RData xs   any other RDD whose collect() is xs: Context.parallelize(xs[, n]) with any number of partitions
                (collect, toLocalIterator and groupByKey walk the partitions in order), or a lazily transformed RDD
                (rdd.map / filter / mapValues ...).  The stream code only observes collect() and isinstance(EmptyRDD);
                the number of partitions shows only in count() applied DIRECTLY to an RDD without partitions that is
                not an EmptyRDD (a transformed EmptyRDD), which the model identifies with RData [] -- such programs are
                not generated (count() is always applied to a window's union, which has one partition).
   Tick times are the values of time.time() seen by the callback; only compared, modelled as Z. *)
From Coq Require Import ZArith NArith Bool String List.
Require Import PV.Base.Val PV.Gen.Window.
Import ListNotations.
Open Scope string_scope.
Open Scope Z_scope.

Inductive rdd : Type := RNone | REmpty | RData (xs : list val).

Definition collect (r : rdd) : list val := match r with RData xs => xs | _ => [] end.
Definition is_empty_rdd (r : rdd) : bool := match r with REmpty => true | _ => false end.
Definition is_none_rdd (r : rdd) : bool := match r with RNone => true | _ => false end.

Inductive res (A : Type) : Type := Ok (a : A) | Err (e : string).
Arguments Ok {A} a.
Arguments Err {A} e.

(* Context.union(rdds): EmptyRDD when every member is one, else parallelize of the collected members
   (a None member has no .collect) *)
Definition union (l : list rdd) : res rdd :=
  if forallb is_empty_rdd l then Ok REmpty
  else if existsb is_none_rdd l then Err "AttributeError"
  else Ok (RData (List.concat (map collect l))).

(* ---- keyed data (StatefulDStream): elements are (int key, value) 2-tuples ---- *)
Definition as_kv (v : val) : option (Z * val) :=
  match v with VTup [VInt k; x] => Some (k, x) | _ => None end.
Fixpoint all_kv (l : list val) : option (list (Z * val)) :=
  match l with
  | [] => Some []
  | v :: l' => match as_kv v, all_kv l' with Some p, Some r => Some (p :: r) | _, _ => None end
  end.
Definition enc_kv (p : Z * val) : val := VTup [VInt (fst p); snd p].

(* d[k] of groupByKey: the values of key k in order of occurrence *)
Definition vals {A} (k : Z) (l : list (Z * A)) : list A := map snd (filter (fun p => fst p =? k) l).
(* distinct keys (first occurrences, in order) *)
Fixpoint nodupZ (l : list Z) : list Z :=
  match l with [] => [] | x :: r => x :: filter (fun y => negb (y =? x)) (nodupZ r) end.
(* ascending order (insertion sort) *)
Fixpoint insZ (x : Z) (l : list Z) : list Z :=
  match l with [] => [x] | y :: l' => if x <=? y then x :: l else y :: insZ x l' end.
Definition sortZ (l : list Z) : list Z := fold_right insZ [] l.
(* set(d_self.keys()) | set(d_other.keys()).  The iteration order of a Python set is unspecified; CPython walks the
   hash table, which for the small non-negative int keys of the generated cases (0..7 in a table of 8 slots) is
   ascending order.  The theorems do not depend on the order; consumers of the state stream are compared sorted by
   key, a window over the state stream is compared as emitted (assumption recorded in py/c11.py). *)
Definition cogroup_keys {A B} (b : list (Z * A)) (st : list (Z * B)) : list Z :=
  sortZ (nodupZ (map fst b ++ map fst st)).
(* rdd.cogroup(state_rdd).mapValues(convert_fn): convert_fn takes state_list[-1] if state_list else None *)
Definition state_step (u : list val -> val -> val) (b st : list (Z * val)) : list (Z * val) :=
  map (fun k => (k, u (vals k b) (last (vals k st) VNone))) (cogroup_keys b st).

(* ---- node states ---- *)
Record nstate : Type := mkN {
  ntime : Z;                    (* _current_time *)
  nrdd : rdd;                   (* _current_rdd *)
  nqueue : list (option (list val));  (* queue source: entries not yet popped (None = an explicit idle interval) *)
  nbuf : list rdd;              (* WindowedDStream._window *)
  nctr : Z;                     (* WindowedDStream._slide_counter *)
  nkv : list (Z * val) }.       (* StatefulDStream._state_rdd (initially EmptyRDD) *)

Definition set_time (t : Z) (n : nstate) := mkN t (nrdd n) (nqueue n) (nbuf n) (nctr n) (nkv n).
Definition set_rdd (r : rdd) (n : nstate) := mkN (ntime n) r (nqueue n) (nbuf n) (nctr n) (nkv n).
Definition set_queue (q : list (option (list val))) (n : nstate) := mkN (ntime n) (nrdd n) q (nbuf n) (nctr n) (nkv n).
Definition set_win (b : list rdd) (c : Z) (n : nstate) := mkN (ntime n) (nrdd n) (nqueue n) b c (nkv n).
Definition set_kv (s : list (Z * val)) (n : nstate) := mkN (ntime n) (nrdd n) (nqueue n) (nbuf n) (nctr n) s.

(* functions given to transform()/foreachRDD in the modelled programs *)
Inductive tfun : Type :=
| FCapture (j : Z)    (* foreachRDD(lambda rdd: log.append((j, None if rdd is None else rdd.collect()))) *)
| FCountParts         (* lambda rdd: rdd.mapPartitionsWithIndex(lambda i, p: [sum(1 for _ in p)]) *)
| FSetName            (* lambda rdd: rdd.setName(...) *)
| FReduceAdd          (* lambda rdd: rdd.map((None, i)).reduceByKey(add).map(snd) *)
| FMapInc             (* rdd.map / mapPartitionsWithIndex applying INC to every element (DStream.map, transform) *)
| FFilterEven         (* lambda rdd: rdd.filter(EVEN) *)
| FFlatDup            (* mapPartitionsWithIndex applying lambda x: [x, x] and flattening (DStream.flatMap) *)
| FMapValuesInc.      (* lambda rdd: rdd.mapValues(INC) *)

(* the element functions: INC = lambda x: x + 1 if type(x) is int else x ; EVEN = lambda x: type(x) is int and x % 2 == 0 *)
Definition v_inc (v : val) : val := match v with VInt z => VInt (z + 1) | _ => v end.
Definition v_even (v : val) : bool := match v with VInt z => Z.even z | _ => false end.
Definition v_mapvalue (v : val) : option val :=
  match v with VTup [k; x] => Some (VTup [k; v_inc x]) | _ => None end.
Fixpoint all_mapvalues (l : list val) : option (list val) :=
  match l with
  | [] => Some []
  | v :: l' => match v_mapvalue v, all_mapvalues l' with Some a, Some r => Some (a :: r) | _, _ => None end
  end.

(* ssc.queueStream(entries, oneAtATime=True, default=d).  An entry is a batch (a list, or an RDD: Some of its collect())
   or None (the producer marks an idle interval: QueueStreamDeserializer turns it into an EmptyRDD); the default is handed
   out, converted once, whenever the queue is EMPTY (QueueStream.get tests qsize() == 0, not the entry) -- None: an EmptyRDD. *)
Record source : Type := mkSource { sq : list (option (list val)); sd : option (list val) }.
Definition plain_source (q : list (list val)) : source := mkSource (map Some q) None.
Definition src_tl (q : source) : source := mkSource (tl (sq q)) (sd q).
Definition entry_rdd (e : option (list val)) : rdd := match e with Some b => RData b | None => REmpty end.

Inductive node : Type :=
| Src (q : source)                                 (* ssc.queueStream(sq q, default = sd q) *)
| Trans (f : tfun) (p : nat)                       (* TransformedDStream(prev = node p, f) *)
| Window (w s : Z) (p : nat)                       (* WindowedDStream(prev = node p, w, s), durations in intervals *)
| Stateful (u : list val -> val -> val) (p : nat)  (* StatefulDStream(prev = node p, u) *)
| Union (p1 p2 : nat).                             (* node p1 .union(node p2): TransformedWithDStream(p1, union_rdds, p2) *)

Definition logentry : Type := (Z * Z * option (list val))%type.   (* tick time, consumer, captured *)

Record gstate : Type := mkG { gnodes : list nstate; glog : list logentry }.

Definition n_init : nstate := mkN dstream_time_init RNone [] [] win_counter_init [].
Definition init_node (nd : node) : nstate :=
  match nd with Src q => set_queue (sq q) n_init | _ => n_init end.
Definition init_state (g : list node) : gstate := mkG (map init_node g) [].

Fixpoint upd {A} (i : nat) (f : A -> A) (l : list A) : list A :=
  match l, i with
  | [], _ => []
  | x :: l', O => f x :: l'
  | x :: l', S i' => x :: upd i' f l'
  end.
Definition updn (i : nat) (f : nstate -> nstate) (st : gstate) : gstate := mkG (upd i f (gnodes st)) (glog st).
Definition rdd_of (st : gstate) (p : nat) : rdd :=
  match nth_error (gnodes st) p with Some n => nrdd n | None => RNone end.

Definition sumZ (l : list Z) : Z := fold_left Z.add l 0.

Definition apply_tfun (f : tfun) (t : Z) (r : rdd) : res (rdd * list logentry) :=
  match f with
  | FCapture j => Ok (RNone, [(t, j, match r with RNone => None | _ => Some (collect r) end)])
  | FCountParts =>
      match r with
      | RNone => Err "AttributeError"
      | REmpty => Ok (REmpty, [])
      | RData xs => Ok (RData [VInt (Z.of_nat (length xs))], [])
      end
  | FSetName => match r with RNone => Err "AttributeError" | _ => Ok (r, []) end
  | FReduceAdd =>
      match r with
      | RNone => Err "AttributeError"
      | REmpty => Ok (RData [], [])
      | RData xs =>
          match all_Z xs with
          | Some [] => Ok (RData [], [])
          | Some zs => Ok (RData [VInt (sumZ zs)], [])
          | None => Err "TypeError"
          end
      end
  (* lazily transformed RDDs; a transformed EmptyRDD is not an EmptyRDD any more (see the note on RData) *)
  | FMapInc => match r with RNone => Err "AttributeError" | _ => Ok (RData (map v_inc (collect r)), []) end
  | FFilterEven => match r with RNone => Err "AttributeError" | _ => Ok (RData (filter v_even (collect r)), []) end
  | FFlatDup => match r with RNone => Err "AttributeError"
                | _ => Ok (RData (flat_map (fun x => [x; x]) (collect r)), []) end
  | FMapValuesInc =>
      match r with
      | RNone => Err "AttributeError"
      | _ => match all_mapvalues (collect r) with
             | Some l => Ok (RData l, [])
             | None => Err "TypeError"   (* an element that is not a pair; raised lazily by the real code, not generated *)
             end
      end
  end.

(* QueueStream.get + QueueStreamDeserializer: default None -> EmptyRDD *)
Definition src_pop (d : option (list val)) (n : nstate) : nstate :=
  match nqueue n with
  | [] => set_rdd (entry_rdd d) n                      (* q_size == 0: the default *)
  | e :: q => set_queue q (set_rdd (entry_rdd e) n)    (* queue.get_nowait(), whatever the entry is *)
  end.

(* while len(self._window) > self._window_duration: self._window.pop(0) *)
Fixpoint trim (w : Z) (buf : list rdd) : list rdd :=
  match buf with
  | [] => []
  | _ :: tl => if win_trim_cond (Z.of_nat (length buf)) w then trim w tl else buf
  end.

(* the part of WindowedDStream._step after the parent was stepped; pr = self._prev._current_rdd *)
Definition window_post (w s : Z) (pr : rdd) (n : nstate) : nstate * option string :=
  let buf := trim w (nbuf n ++ [pr]) in
  let c := win_counter_next (nctr n) s in
  let n1 := set_win buf c n in
  if win_skip c then (n1, None)
  else match union buf with
       | Ok r => (set_rdd r n1, None)
       | Err e => (n1, Some e)
       end.

(* the part of StatefulDStream._step after the parent was stepped *)
Definition stateful_post (u : list val -> val -> val) (t : Z) (pr : rdd) (n : nstate) : nstate * option string :=
  let n1 := set_time t n in
  match pr with
  | RNone => (n1, Some "AttributeError")
  | _ => match all_kv (collect pr) with
         | None => (n1, Some "TypeError")
         | Some b => let s' := state_step u b (nkv n) in
                     (set_rdd (RData (map enc_kv s')) (set_kv s' n1), None)
         end
  end.

(* the part of TransformedDStream._step after the parent was stepped: nothing but the guard time changes while
   the parent has not produced an RDD (`if self._prev._current_rdd is None: return`) *)
Definition trans_post (f : tfun) (t : Z) (pr : rdd) (n : nstate) : nstate * list logentry * option string :=
  let n1 := set_time t n in
  if is_none_rdd pr then (n1, [], None)
  else match apply_tfun f t pr with
       | Ok (r, lg) => (set_rdd r n1, lg, None)
       | Err e => (n1, [], Some e)
       end.

(* the part of TransformedWithDStream._step (union) after both parents were stepped *)
Definition union_post (t : Z) (r1 r2 : rdd) (n : nstate) : nstate * option string :=
  let n1 := set_time t n in
  match union [r1; r2] with
  | Ok r => (set_rdd r n1, None)
  | Err e => (n1, Some e)
  end.

Definition put (i : nat) (n : nstate) (st : gstate) : gstate := updn i (fun _ => n) st.
Definition add_log (lg : list logentry) (st : gstate) : gstate := mkG (gnodes st) (glog st ++ lg).

(* node i's _step(t).  A raised exception leaves the mutations done so far in place and is returned as
   Some name; fuel bounds the recursion into parents (node i needs fuel > i when parents have smaller
   indices, which construction order guarantees). *)
Fixpoint step (fuel : nat) (g : list node) (i : nat) (t : Z) (st : gstate) : gstate * option string :=
  match fuel with
  | O => (st, Some "OutOfFuel")
  | S fuel' =>
      match nth_error g i, nth_error (gnodes st) i with
      | Some nd, Some ns =>
          match nd with
          | Src q =>
              if src_guard t (ntime ns) then (st, None)
              else (put i (src_pop (sd q) (set_time t ns)) st, None)
          | Trans f p =>
              if tr_guard t (ntime ns) then (st, None)
              else
                let '(st1, e) := step fuel' g p t st in
                match e with
                | Some _ => (st1, e)
                | None =>
                    match nth_error (gnodes st1) i with
                    | Some ns1 =>
                        let '(n2, lg, e2) := trans_post f t (rdd_of st1 p) ns1 in
                        (add_log lg (put i n2 st1), e2)
                    | None => (st1, Some "BadGraph")
                    end
                end
          | Window w s p =>
              if win_guard t (ntime ns) then (st, None)
              else
                (* the guard time is advanced before the parent is stepped *)
                let st0 := put i (set_time t ns) st in
                let '(st1, e) := step fuel' g p t st0 in
                match e with
                | Some _ => (st1, e)
                | None =>
                    match nth_error (gnodes st1) i with
                    | Some ns1 =>
                        let '(n2, e2) := window_post w s (rdd_of st1 p) ns1 in
                        (put i n2 st1, e2)
                    | None => (st1, Some "BadGraph")
                    end
                end
          | Stateful u p =>
              if st_guard t (ntime ns) then (st, None)
              else
                let '(st1, e) := step fuel' g p t st in
                match e with
                | Some _ => (st1, e)
                | None =>
                    match nth_error (gnodes st1) i with
                    | Some ns1 =>
                        let '(n2, e2) := stateful_post u t (rdd_of st1 p) ns1 in
                        (put i n2 st1, e2)
                    | None => (st1, Some "BadGraph")
                    end
                end
          | Union p1 p2 =>
              if tw_guard t (ntime ns) then (st, None)
              else
                let '(st1, e) := step fuel' g p1 t st in
                match e with
                | Some _ => (st1, e)
                | None =>
                    let '(st2, e') := step fuel' g p2 t st1 in
                    match e' with
                    | Some _ => (st2, e')
                    | None =>
                        match nth_error (gnodes st2) i with
                        | Some ns2 =>
                            let '(n2, e2) := union_post t (rdd_of st2 p1) (rdd_of st2 p2) ns2 in
                            (put i n2 st2, e2)
                        | None => (st2, Some "BadGraph")
                        end
                    end
                end
          end
      | _, _ => (st, Some "BadGraph")
      end
  end.

(* the callback of StreamingContext.start(): step every registered stream, in registration order;
   an exception ends the callback (tornado's PeriodicCallback logs it and fires again next interval) *)
Fixpoint tick_nodes (fuel : nat) (g : list node) (is : list nat) (t : Z) (st : gstate) : gstate * option string :=
  match is with
  | [] => (st, None)
  | i :: is' =>
      let '(st1, e) := step fuel g i t st in
      match e with
      | Some _ => (st1, e)
      | None => tick_nodes fuel g is' t st1
      end
  end.

Definition tick (g : list node) (t : Z) (st : gstate) : gstate * option string :=
  tick_nodes (length g) g (seq 0 (length g)) t st.

(* a history of tick times; returns the final state and the exception (if any) of every tick *)
Fixpoint run_ticks (g : list node) (ts : list Z) (st : gstate) : gstate * list (option string) :=
  match ts with
  | [] => (st, [])
  | t :: ts' =>
      let '(st1, e) := tick g t st in
      let '(st2, es) := run_ticks g ts' st1 in
      (st2, e :: es)
  end.

Definition run_graph (g : list node) (ts : list Z) : gstate * list (option string) :=
  run_ticks g ts (init_state g).
Definition final (g : list node) (ts : list Z) : gstate := fst (run_graph g ts).

(* ---- the programs of the property: a windowed / counted / stateful stream with k capturing consumers ---- *)
Definition consumers_from (p : nat) (j0 k : nat) : list node :=
  map (fun j => Trans (FCapture (Z.of_nat j)) p) (seq j0 k).
Definition consumers (p : nat) (k : nat) : list node := consumers_from p 0 k.

(* q.window(w, s) ; k x foreachRDD *)
Definition prog_window (q : source) (w s : Z) (k : nat) : list node :=
  Src q :: Window w s 0 :: consumers 1 k.
(* q.countByWindow(w, s) = window(w, s).mapPartitionsWithIndex(..).transform(setName).transform(reduce) ; k x foreachRDD *)
Definition prog_count (q : source) (w s : Z) (k : nat) : list node :=
  Src q :: Window w s 0 :: Trans FCountParts 1 :: Trans FSetName 2 :: Trans FReduceAdd 3 :: consumers 4 k.
(* q.updateStateByKey(u) ; k x foreachRDD *)
Definition prog_state (q : source) (u : list val -> val -> val) (k : nat) : list node :=
  Src q :: Stateful u 0 :: consumers 1 k.
(* both on one source: q.window(w, s) with consumers 0..k-1 and q.updateStateByKey(u) with consumers k..2k-1 *)
Definition prog_both (q : source) (w s : Z) (u : list val -> val -> val) (k : nat) : list node :=
  Src q :: Window w s 0 :: consumers 1 k ++ Stateful u 0 :: consumers_from (2 + k) k k.

(* q.countByWindow(w, s) with consumers 0..k-1, then q.updateStateByKey(u) with consumers k..2k-1, on one source *)
Definition prog_count_state (q : source) (w s : Z) (u : list val -> val -> val) (k : nat) : list node :=
  Src q :: Window w s 0 :: Trans FCountParts 1 :: Trans FSetName 2 :: Trans FReduceAdd 3 :: consumers 4 k
  ++ Stateful u 0 :: consumers_from (5 + k) k k.

(* ---- windows over derived streams: the parent of the window is not a source ----
   variant 0 q.map(INC) (three transformed streams)        1 q.filter(EVEN)        2 q.flatMap(dup) (two streams)
           3 q.mapValues(INC)        4 q.updateStateByKey(u)        5 q.union(q2), q2 = queueStream(tail of q's batches)
           6 q.transform(lambda rdd: rdd.map(INC)) *)
Definition derived_parent (pv : Z) (u : list val -> val -> val) (q : source) : option (list node) :=
  match pv with
  | 0 => Some [Src q; Trans FMapInc 0; Trans FSetName 1; Trans FSetName 2]
  | 1 => Some [Src q; Trans FFilterEven 0]
  | 2 => Some [Src q; Trans FFlatDup 0; Trans FSetName 1]
  | 3 => Some [Src q; Trans FMapValuesInc 0]
  | 4 => Some [Src q; Stateful u 0]
  | 5 => Some [Src q; Src (src_tl q); Union 0 1]
  | 6 => Some [Src q; Trans FMapInc 0]
  | _ => None
  end.
(* parent.window(w, s) [.count()] with consumers 0..k-1, and one consumer (k) on the parent itself *)
Definition prog_window_over (count : bool) (pre : list node) (w s : Z) (k : nat) : list node :=
  let p := (length pre - 1)%nat in
  let mid := if count
             then [Window w s p; Trans FCountParts (p + 1); Trans FSetName (p + 2); Trans FReduceAdd (p + 3)]
             else [Window w s p] in
  let out := (p + length mid)%nat in
  pre ++ mid ++ consumers out k ++ [Trans (FCapture (Z.of_nat k)) p].

(* ---- sibling windowed views on one source: for every view (count?, w, s) a window(w, s) [.count()] of stream 0 with one
   capturing consumer (consumer j for the j-th view), registered view after view ---- *)
Fixpoint views_nodes (base : nat) (j : Z) (views : list (bool * Z * Z)) : list node :=
  match views with
  | [] => []
  | (false, w, s) :: vs => Window w s 0 :: Trans (FCapture j) base :: views_nodes (base + 2) (j + 1) vs
  | (true, w, s) :: vs =>
      Window w s 0 :: Trans FCountParts base :: Trans FSetName (base + 1) :: Trans FReduceAdd (base + 2)
      :: Trans (FCapture j) (base + 3) :: views_nodes (base + 5) (j + 1) vs
  end.
Definition prog_views (q : source) (views : list (bool * Z * Z)) : list node := Src q :: views_nodes 1 0 views.

(* ---- the library of update functions (Python twins in py/c11.py) ---- *)
Definition z_of (v : val) : Z := match v with VInt z => z | _ => 0 end.
(* lambda vs, s: (s if s is not None else 0) + sum(v or 0 for v in vs)   (None values count as 0) *)
Definition u_sum (vs : list val) (s : val) : val := VInt (z_of s + sumZ (map z_of vs)).
(* lambda vs, s: s if not vs else vs[-1] *)
Definition u_last (vs : list val) (s : val) : val := match vs with [] => s | _ => last vs VNone end.
(* lambda vs, s: (s or 0) + len(vs) *)
Definition u_count (vs : list val) (s : val) : val := VInt (z_of s + Z.of_nat (length vs)).
(* lambda vs, s: (s or []) + vs *)
Definition u_append (vs : list val) (s : val) : val :=
  VList ((match s with VList l => l | _ => [] end) ++ vs).
(* update functions with u [] s <> s: they show whether the function is called for a key that is absent *)
(* lambda vs, s: (s or []) + [list(vs)]   -- one entry per interval since the key appeared *)
Definition u_history (vs : list val) (s : val) : val :=
  VList ((match s with VList l => l | _ => [] end) ++ [VList vs]).
(* lambda vs, s: 0 if vs else (s or 0) + 1   -- intervals since the key last had data *)
Definition u_idle (vs : list val) (s : val) : val :=
  match vs with [] => VInt (z_of s + 1) | _ => VInt 0 end.
(* lambda vs, s: sum(v or 0 for v in vs) + (s or 0) // 2   -- a sum that halves every interval (floor division) *)
Definition u_decay (vs : list val) (s : val) : val := VInt (sumZ (map z_of vs) + z_of s / 2).
(* update functions that can return None (a None state is still a state: the key stays in the state RDD) *)
(* lambda vs, s: None if not vs else (s or 0) + len(vs)   -- a count that is reset to None when the key is absent *)
Definition u_reset (vs : list val) (s : val) : val :=
  match vs with [] => VNone | _ => VInt (z_of s + Z.of_nat (length vs)) end.
(* the smallest non-None value seen so far, None while there is none *)
Definition ints_of (vs : list val) : list Z := flat_map (fun v => match v with VInt z => [z] | _ => [] end) vs.
Definition u_minopt (vs : list val) (s : val) : val :=
  match ints_of (vs ++ [s]) with [] => VNone | z :: zs => VInt (fold_left Z.min zs z) end.
(* order-sensitive update functions *)
(* lambda vs, s: s if s is not None else (vs[0] if vs else None)   -- the first value ever seen *)
Definition u_first (vs : list val) (s : val) : val := match s with VNone => hd VNone vs | _ => s end.
(* lambda vs, s: (s or '') + ''.join(chr(97 + (v + 5) % 26) for v in vs if v is not None)   -- string concatenation *)
Definition u_concat (vs : list val) (s : val) : val :=
  VStr ((match s with VStr l => l | _ => [] end)
        ++ flat_map (fun v => match v with VInt z => [Z.to_N (97 + (z + 5) mod 26)] | _ => [] end) vs).
