(* Executable model of pysparkling/sql/casts.py: get_caster(from_type, to_type)(value) for the
   atomic types named by property C18.  The arithmetic kernels (modular wrap, range test, width
   constants) are regenerated from the source into PV.Gen.Casts on every run; the dispatch,
   Python's int()/str()/strip()/split() and datetime.date validity are transcribed by hand and
   validated by the correspondence run.  Values are PV.Base.Val.val:
   None -> VNone, int -> VInt, bool -> VBool, float -> VFloat, str -> VStr, date -> VTup [y;m;d]. *)
From Coq Require Import ZArith NArith List Bool String.
From Coq Require Import PrimFloat Uint63 FloatOps SpecFloat.
Require Import PV.Base.Val PV.Base.Num PV.Gen.Casts.
Import ListNotations.
Open Scope Z_scope.

Inductive ty := TByte | TShort | TInt | TLong | TBool | TString | TFloat | TDouble | TDate | TNull.

Definition ty_eqb (a b : ty) : bool :=
  match a, b with
  | TByte, TByte | TShort, TShort | TInt, TInt | TLong, TLong | TBool, TBool | TString, TString
  | TFloat, TFloat | TDouble, TDouble | TDate, TDate | TNull, TNull => true
  | _, _ => false
  end.

Definition is_numeric (t : ty) : bool :=
  match t with TByte | TShort | TInt | TLong | TFloat | TDouble => true | _ => false end.

Definition bounds (t : ty) : option (Z * Z) :=
  match t with
  | TByte => Some (byte_min, byte_max)
  | TShort => Some (short_min, short_max)
  | TInt => Some (int_min, int_max)
  | TLong => Some (long_min, long_max)
  | _ => None
  end.

(* ---------- characters and strings (code points) *)
Definition ch (c : N) : Z := Z.of_N c.
Definition is_space (c : N) : bool :=
  (* str.strip() / int() whitespace, restricted to the characters the generators use *)
  existsb (N.eqb c) [9; 10; 11; 12; 13; 32; 28; 29; 30; 31; 133; 160; 8232; 8233; 12288]%N.
Definition is_digit (c : N) : bool := (48 <=? c)%N && (c <=? 57)%N.

Fixpoint lstrip (s : list N) : list N :=
  match s with c :: s' => if is_space c then lstrip s' else s | [] => [] end.
Definition strip (s : list N) : list N := rev (lstrip (rev (lstrip s))).

(* str.split(sep) for a single-character separator *)
Fixpoint split_on (sep : N) (s : list N) (cur : list N) : list (list N) :=
  match s with
  | [] => [rev cur]
  | c :: s' => if N.eqb c sep then rev cur :: split_on sep s' [] else split_on sep s' (c :: cur)
  end.
Definition split (sep : N) (s : list N) : list (list N) := split_on sep s [].

Definition lower_ascii (c : N) : N := if (65 <=? c)%N && (c <=? 90)%N then (c + 32)%N else c.

Definition str_true : list N := [116; 114; 117; 101]%N.
Definition str_false : list N := [102; 97; 108; 115; 101]%N.

(* Python int(str): optional surrounding whitespace, optional sign, decimal digits with single
   underscores between digits.  None = ValueError. *)
Fixpoint digits_val (s : list N) (acc : Z) (prev_digit : bool) : option Z :=
  match s with
  | [] => if prev_digit then Some acc else None
  | c :: s' =>
      if is_digit c then digits_val s' (acc * 10 + (ch c - 48)) true
      else if N.eqb c 95 then (if prev_digit then
                                 match s' with [] => None | _ => digits_val s' acc false end
                               else None)
      else None
  end.

Definition py_int_of_str (s : list N) : option Z :=
  match strip s with
  | [] => None
  | c :: r =>
      if N.eqb c 45 then option_map Z.opp (digits_val r 0 false)
      else if N.eqb c 43 then digits_val r 0 false
      else digits_val (c :: r) 0 false
  end.

(* str(int) *)
Fixpoint pos_digits (fuel : nat) (z : Z) (acc : list N) : list N :=
  match fuel with
  | O => acc
  | S f => let acc' := Z.to_N (z mod 10 + 48) :: acc in
           if z <? 10 then acc' else pos_digits f (z / 10) acc'
  end.
Definition str_of_int (z : Z) : list N :=
  if z <? 0 then 45%N :: pos_digits (S (Z.to_nat (Z.log2 (- z)))) (- z) []
  else pos_digits (S (Z.to_nat (Z.log2 z))) z [].

(* ---------- floats: int(float) truncates toward zero; inf -> OverflowError, nan -> ValueError *)
Definition float_trunc (f : float) : option Z :=
  match Prim2SF f with
  | S754_zero _ => Some 0
  | S754_finite s m e =>
      let a := if 0 <=? e then Z.pos m * 2 ^ e else Z.pos m / 2 ^ (- e) in
      Some (if s then - a else a)
  | _ => None
  end.

(* ---------- bounded integral types *)
Definition cast_bounded (lo hi : Z) (from : ty) (v : val) : val :=
  match v with
  | VNone => VNone
  | VStr [] => VNone
  | _ =>
      match from with
      | TDate => VNone
      | TString =>
          match v with
          | VStr s => match py_int_of_str s with
                      | Some z => if cast_in_range lo hi z then VInt z else VNone
                      | None => VErr "ValueError"
                      end
          | _ => VBad
          end
      | TByte | TShort | TInt | TLong | TFloat | TDouble | TBool =>
          match v with
          | VInt z => VInt (cast_wrap lo hi z)
          | VBool b => VInt (cast_wrap lo hi (if b then 1 else 0))
          | VFloat f =>
              match float_trunc f with
              | Some z => VInt (cast_wrap lo hi z)
              | None => if PrimFloat.is_nan f then VErr "ValueError" else VErr "OverflowError"
              end
          | _ => VBad
          end
      | TNull => VErr "AnalysisException"
      end
  end.

(* ---------- boolean *)
Definition cast_boolean (from : ty) (v : val) : val :=
  match v with
  | VNone => VNone
  | VStr [] => VNone
  | _ =>
      match from with
      | TString =>
          match v with
          | VStr s => let l := map lower_ascii s in
                      if list_N_eqb l str_true then VBool true
                      else if list_N_eqb l str_false then VBool false else VNone
          | _ => VBad
          end
      | TByte | TShort | TInt | TLong | TFloat | TDouble | TBool =>
          match v with
          | VInt z => VBool (negb (z =? 0))
          | VBool b => VBool b
          | VFloat f => VBool (negb (PrimFloat.eqb f PrimFloat.zero))
          | _ => VBad
          end
      | _ => VErr "AnalysisException"
      end
  end.

(* ---------- string *)
Definition cast_string (from : ty) (v : val) : val :=
  match v with
  | VNone => VNone
  | VBool b => VStr (if b then str_true else str_false)
  | VInt z => VStr (str_of_int z)
  | VStr s => VStr s
  | _ => VBad  (* float -> repr() is not modelled *)
  end.

(* ---------- date *)
Definition is_leap (y : Z) : bool := ((y mod 4 =? 0) && negb (y mod 100 =? 0)) || (y mod 400 =? 0).
Definition days_in_month (y m : Z) : Z :=
  if m =? 2 then (if is_leap y then 29 else 28)
  else if (m =? 4) || (m =? 6) || (m =? 9) || (m =? 11) then 30 else 31.
Definition valid_date (y m d : Z) : bool :=
  (1 <=? y) && (y <=? 9999) && (1 <=? m) && (m <=? 12) && (1 <=? d) && (d <=? days_in_month y m).
Definition c_int_ok (z : Z) : bool := (- 2147483648 <=? z) && (z <=? 2147483647).

Definition date_of_components (cs : list (list N)) : val :=
  match cs with
  | [] => VBad
  | y :: rest =>
      if (3 <? Z.of_nat (List.length cs)) || negb (Z.of_nat (List.length y) =? 4) then VNone
      else
        let ints := map py_int_of_str cs in
        if existsb (fun o => match o with None => true | _ => false end) ints then VNone
        else
          let zs := map (fun o => match o with Some z => z | None => 0 end) ints in
          let yv := nth 0 zs 1 in let mv := nth 1 zs 1 in let dv := nth 2 zs 1 in
          if negb (c_int_ok yv && c_int_ok mv && c_int_ok dv) then VErr "OverflowError"
          else if valid_date yv mv dv then VTup [VInt yv; VInt mv; VInt dv] else VNone
  end.

Definition cast_date (from : ty) (v : val) : val :=
  match v with
  | VStr s =>
      let s1 := if existsb (N.eqb 32) s then hd [] (split 32 (strip s)) else s in
      let s2 := if existsb (N.eqb 84) s1 then hd [] (split 84 s1) else s1 in
      date_of_components (split 45 s2)
  | VTup d => VTup d
  | _ => match from with
         | TDate | TString => VNone
         | _ => VErr "AnalysisException"
         end
  end.

(* ---------- float / double: cast_to_float -> cast_value.  int and bool go through float(value)
   (exact conversion for |z| < 2^53, correctly rounded below 2^62; larger ints are outside the model),
   a date gives null; float(str) is not modelled. *)
Definition cast_fractional (from : ty) (v : val) : val :=
  match v with
  | VNone => VNone
  | VStr [] => VNone
  | VInt z => if (Z.abs z <? 2 ^ 62) then VFloat (float_of_Z z) else VBad
  | VBool b => VFloat (if b then PrimFloat.one else PrimFloat.zero)
  | VFloat f => VFloat f
  | VTup _ => VNone
  | _ => VBad
  end.

(* ---------- dispatch: get_caster(from, to)(value) *)
Definition cast (from to : ty) (v : val) : val :=
  if ty_eqb from to then v
  else match to with
       | TNull => match v with VNone => VNone | _ => VErr "AnalysisException" end
       | TString => cast_string from v
       | TBool => cast_boolean from v
       | TDate => cast_date from v
       | TByte | TShort | TInt | TLong =>
           match bounds to with Some (lo, hi) => cast_bounded lo hi from v | None => VBad end
       | TFloat | TDouble => cast_fractional from v
       end.
