(* C03 -- what the partition tasks of one pysparkling job share, as a small-step interleaving semantics
   at the granularity of the source lines of PersistedRDD.compute and PartitionwiseSampledRDD.compute.

   Modelled code (pysparkling as it is today, after fixes d795e56, 8650242, 62e6812, bb0c0e9):
     context.py   Context.runJob / _runJob_local / _runJob_distributed / runJob_map / DummyPool
     cache_manager.py  CacheManager.has/get/add/get_not_in/join/clone_contains/stored_idents,
                       TimedCacheManager.join (which entries carry a time stamp)
     rdd.py       PersistedRDD.compute, PartitionwiseSampledRDD.compute, MapPartitionsRDD.compute,
                  RDD.compute (source partition), RDD.coalesce (regrouping of the job result)
     samplers.py  BernoulliSampler, PoissonSampler / pysparkling_poisson (numpy absent)
   Definitions only; the proofs are in PV.Proofs.Sched.

   A task is a program (tree of gates, actions and has()-tests) obtained from the dataset lineage by [compile].
   A *gate* is a traced source line: the task is parked in front of it; a grant executes that line and whatever
   follows up to the next gate.  A schedule is an arbitrary list of task numbers; a number that names no task or
   a finished task is skipped.  After the schedule the remaining tasks are completed in task order (drain).

   [variant] selects the program text: [today] is the code in /repo.  The two other switches compile the
   programs of the code *before* the fixes (cache key in a field of the shared dataset object; module-global
   random generator); they exist only to show that the model can exhibit those defects and are not tied to
   the implementation. *)
From Coq Require Import ZArith List Bool PrimFloat.
Require Import PV.Base.PyArith PV.Gen.Layout.
Import ListNotations.
Open Scope Z_scope.

(* ---------------------------------------------------------------------------------------------- *)
(* cache_obj: a Python dict (insertion ordered) from (dataset id, partition index) to the data     *)
Definition key := (Z * Z)%type.
Definition key_eqb (a b : key) : bool := (fst a =? fst b) && (snd a =? snd b).
Definition cache := list (key * list Z).

Fixpoint c_get (c : cache) (k : key) : option (list Z) :=
  match c with
  | [] => None
  | (k', d) :: c' => if key_eqb k' k then Some d else c_get c' k
  end.
Definition c_has (c : cache) (k : key) : bool := match c_get c k with Some _ => true | None => false end.
(* cache_obj[k] = d : in place when the key exists, appended otherwise *)
Fixpoint c_set (c : cache) (k : key) (d : list Z) : cache :=
  match c with
  | [] => [(k, d)]
  | (k', d') :: c' => if key_eqb k' k then (k', d) :: c' else (k', d') :: c_set c' k d
  end.
(* CacheManager.join = dict.update *)
Definition c_update (c delta : cache) : cache := fold_left (fun acc kv => c_set acc (fst kv) (snd kv)) delta c.
Definition c_keys (c : cache) : list key := map fst c.
(* CacheManager.get_not_in(idents) *)
Definition c_not_in (c : cache) (ks : list key) : cache :=
  filter (fun kv => negb (existsb (key_eqb (fst kv)) ks)) c.
(* CacheManager.clone_contains(lambda i: i[1] == partition.index) *)
Definition c_clone (c : cache) (i : Z) : cache := filter (fun kv => snd (fst kv) =? i) c.

(* ---------------------------------------------------------------------------------------------- *)
(* dataset lineage *)
Inductive sampler :=
| SBern (fraction : float)                      (* sample(False, fraction, seed): BernoulliSampler(fraction) *)
| SPoisson (lam : float) (exp_neg_lam : float). (* sample(True, lam, seed): PoissonSampler(lam); exp_neg_lam = math.exp(-lam) *)

Inductive rdd :=
| Src                                           (* RDD.compute: the partition's own list *)
| Map (f : Z -> list Z) (r : rdd)               (* map / filter / flatMap: lazy, element-wise, pure *)
| Persist (id : Z) (r : rdd)                    (* PersistedRDD with _rdd_id = id *)
| Sample (seed : Z) (smp : sampler) (r : rdd).    (* sample(withReplacement, fraction, seed) *)

(* the function applied by a task to the iterator over its partition *)
Inductive tfun :=
| FCollect     (* unit_map: list(elements) *)
| FCount       (* sum(1 for _ in elements) *)
| FSum         (* sum(elements) *)
| FSmuggle.    (* (variant only) coalesce before fix 8650242: stores list(elements) in a container that lives
                  in the driver's closure and returns nothing *)

Definition tfun_pure (tf : tfun) : bool := match tf with FSmuggle => false | _ => true end.

Definition apply_tfun (tf : tfun) (xs : list Z) : list Z :=
  match tf with
  | FCollect => xs
  | FCount => [Z.of_nat (length xs)]
  | FSum => [fold_left Z.add xs 0]
  | FSmuggle => []
  end.

Record variant := { v_shared_key : bool; v_global_rng : bool }.
Definition today : variant := {| v_shared_key := false; v_global_rng := false |}.
Definition old_shared_key : variant := {| v_shared_key := true; v_global_rng := false |}.
Definition old_global_rng : variant := {| v_shared_key := false; v_global_rng := true |}.

Inductive backend :=
| InProcess    (* thread pool / any map() in this process: tasks receive the very same (func, dataset) objects *)
| Copying.     (* process pools, or any pool with a pickling (de)serializer: every task works on its own copy,
                  only the returned value and the cache delta reach the driver *)

(* source-line labels (the harness maps the *text* of the traced line to these numbers) *)
Definition L_if_id : Z := 1.      (* if self._rdd_id is None or split.index is None: *)
Definition L_cid : Z := 2.        (* cid = (self._rdd_id, split.index) *)
Definition L_if_has : Z := 3.     (* if not task_context.cache_manager.has(cid): *)
Definition L_data : Z := 4.       (* data = list(self.prev.compute(split, task_context._create_child())) *)
Definition L_add : Z := 5.        (* task_context.cache_manager.add(cid, data, self.storageLevel) *)
Definition L_cm : Z := 6.         (* self._cache_manager = task_context.cache_manager *)
Definition L_log : Z := 7.        (* log.debug('Using cache of RDD %s partition %s.', *cid) *)
Definition L_get : Z := 8.        (* data = task_context.cache_manager.get(cid) *)
Definition L_ret : Z := 9.        (* return iter(data) *)
Definition L_rng : Z := 11.       (* rng = random.Random(self.seed + split.index) *)
Definition L_nprng : Z := 12.     (* numpy_rng = None *)
Definition L_if_np : Z := 13.     (* if numpy is not None: *)
Definition L_gen : Z := 14.       (* return (        -- reported twice: before and after the iterable is evaluated *)
Definition L_for : Z := 15.       (* for x in self.prev.compute(split, task_context._create_child()) *)

Section WithDraws.
(* the Mersenne twister as an oracle: [draw s n] is the n-th random() of random.Random(s) *)
Variable draw : Z -> nat -> float.

(* pysparkling_poisson(lambda_, rng) after its first two lines:
     while True: prod *= rng.random(); if prod > exp_neg_lambda: n += 1  else: return n
   [fuel] bounds the number of copies of one element in the model; the flag tells whether it sufficed *)
Definition poisson_fuel : nat := 200.
Fixpoint poisson_loop (s : Z) (e : float) (fuel : nat) (prod : float) (n : nat) (cnt : nat) : nat * nat * bool :=
  match fuel with
  | O => (cnt, n, false)
  | S fuel' =>
      let prod' := PrimFloat.mul prod (draw s n) in
      if PrimFloat.ltb e prod' then poisson_loop s e fuel' prod' (S n) (S cnt) else (cnt, S n, true)
  end.
(* sampler(x, rng) on a generator that has already produced n values: (copies of x, values produced afterwards, fuel ok) *)
Definition sample_count (s : Z) (smp : sampler) (n : nat) : nat * nat * bool :=
  match smp with
  | SBern fr => ((if PrimFloat.ltb (draw s n) fr then 1 else 0)%nat, S n, true)
  | SPoisson lam e =>
      if PrimFloat.eqb lam 0 then (0%nat, n, true) else poisson_loop s e poisson_fuel 1 n 0%nat
  end.
(* (x for x in xs for _ in range(sampler(x, rng))) *)
Fixpoint samp_run (s : Z) (smp : sampler) (n : nat) (xs : list Z) : list Z * nat * bool :=
  match xs with
  | [] => ([], n, true)
  | x :: xs' =>
      let '(c, n', ok) := sample_count s smp n in
      let '(ys, n'', ok') := samp_run s smp n' xs' in
      (repeat x c ++ ys, n'', ok && ok')
  end.
Definition samp_from (s : Z) (smp : sampler) (n : nat) (xs : list Z) : list Z := fst (fst (samp_run s smp n xs)).
Definition samp_next (s : Z) (smp : sampler) (n : nat) (xs : list Z) : nat := snd (fst (samp_run s smp n xs)).
Definition samp (s : Z) (smp : sampler) (xs : list Z) : list Z := samp_from s smp 0%nat xs.

(* what the dataset [r] contains in partition [i] whose source list is [p] *)
Fixpoint eval (r : rdd) (i : Z) (p : list Z) : list Z :=
  match r with
  | Src => p
  | Map f r' => flat_map f (eval r' i p)
  | Persist _ r' => eval r' i p
  | Sample s fr r' => samp (s + i) fr (eval r' i p)
  end.

(* ---------------------------------------------------------------------------------------------- *)
(* iterators: a materialised list wrapped in lazy element-wise stages *)
Inductive lop :=
| LMap (f : Z -> list Z)
| LSampOwn (s : Z) (fr : sampler)     (* genexpr that owns random.Random(s) *)
| LSampGlobal (fr : sampler).         (* (variant) genexpr drawing from the module-global generator *)
Record value := { v_base : list Z; v_pend : list lop }.
Definition rng := (Z * nat)%type.     (* module-global generator: (seed, draws taken since seeding) *)

(* list(iterator).  The stages are evaluated one after the other; this equals Python's element-by-element
   pipelining because every stage is pure or owns its generator (exact for the global-generator variant when at
   most one stage draws). *)
Fixpoint force_ops (ops : list lop) (xs : list Z) (g : rng) : list Z * rng :=
  match ops with
  | [] => (xs, g)
  | LMap f :: o => force_ops o (flat_map f xs) g
  | LSampOwn s fr :: o => force_ops o (samp s fr xs) g
  | LSampGlobal fr :: o => force_ops o (samp_from (fst g) fr (snd g) xs) (fst g, samp_next (fst g) fr (snd g) xs)
  end.

(* state reachable by every task of a job when the backend does not copy *)
Record shared := {
  sh_cid : list (Z * key);      (* (variant) PersistedRDD._cid of the dataset object with that id *)
  sh_rng : rng;                 (* (variant) module-global random generator *)
  sh_box : list (Z * list Z)    (* (variant) container in the driver's closure filled by FSmuggle *)
}.
Definition shared0 : shared := {| sh_cid := []; sh_rng := (0, 0%nat); sh_box := [] |}.

Fixpoint assoc_get {B} (l : list (Z * B)) (k : Z) : option B :=
  match l with [] => None | (k', b) :: l' => if k' =? k then Some b else assoc_get l' k end.
Fixpoint assoc_set {B} (l : list (Z * B)) (k : Z) (b : B) : list (Z * B) :=
  match l with
  | [] => [(k, b)]
  | (k', b') :: l' => if k' =? k then (k', b) :: l' else (k', b') :: assoc_set l' k b
  end.

(* task-local state *)
Record lstate := {
  l_cache : cache;              (* task_context.cache_manager.cache_obj (the clone) *)
  l_val : value;                (* the iterator most recently returned by a compute() *)
  l_res : option (list Z);      (* the task's return value *)
  l_crash : bool                (* (variant) the task raised *)
}.

Inductive act :=
| ASource                       (* split.x() *)
| APush (o : lop)               (* MapPartitionsRDD.compute: f(tc, index, iterator) *)
| APushSampOwn (s : Z) (fr : sampler)   (* the genexpr of PartitionwiseSampledRDD.compute, rng = Random(s + index) *)
| AForce                        (* data = list(iterator) *)
| AAdd (id : Z)                 (* cache_manager.add((id, index), data) *)
| AGet (id : Z)                 (* data = cache_manager.get((id, index)) *)
| AFinish (tf : tfun)           (* result = func(task_context, iterator) *)
(* variant programs only *)
| ASetShared (id : Z)           (* self._cid = (self._rdd_id, split.index) *)
| AAddShared (id : Z)           (* cache_manager.add(self._cid, data) *)
| AGetShared (id : Z)           (* data = cache_manager.get(self._cid) *)
| ASeedGlobal (s : Z)           (* random.seed(self.seed + split.index) *)
| APushSampGlobal (fr : sampler).

Inductive cond :=
| CHas (id : Z)                 (* cache_manager.has((id, index)) *)
| CHasShared (id : Z).          (* (variant) cache_manager.has(self._cid) *)

Inductive prog :=
| PDone
| PGate (label : Z) (k : prog)
| PAct (a : act) (k : prog)
| PIf (c : cond) (kmiss khit : prog).

Definition act_local (a : act) : bool :=
  match a with
  | ASource | APush (LMap _) | APush (LSampOwn _ _) | APushSampOwn _ _ | AForce | AAdd _ | AGet _ => true
  | AFinish tf => tfun_pure tf
  | _ => false
  end.
Definition cond_local (c : cond) : bool := match c with CHas _ => true | CHasShared _ => false end.
(* a program that neither reads nor writes the shared state *)
Fixpoint prog_local (p : prog) : bool :=
  match p with
  | PDone => true
  | PGate _ k => prog_local k
  | PAct a k => act_local a && prog_local k
  | PIf c a b => cond_local c && prog_local a && prog_local b
  end.

Definition set_val (l : lstate) (v : value) : lstate :=
  {| l_cache := l_cache l; l_val := v; l_res := l_res l; l_crash := l_crash l |}.
Definition set_cache (l : lstate) (c : cache) : lstate :=
  {| l_cache := c; l_val := l_val l; l_res := l_res l; l_crash := l_crash l |}.
Definition set_res (l : lstate) (r : list Z) : lstate :=
  {| l_cache := l_cache l; l_val := l_val l; l_res := Some r; l_crash := l_crash l |}.
Definition crash (l : lstate) : lstate :=
  {| l_cache := l_cache l; l_val := l_val l; l_res := l_res l; l_crash := true |}.
Definition set_rng (sh : shared) (g : rng) : shared :=
  {| sh_cid := sh_cid sh; sh_rng := g; sh_box := sh_box sh |}.

Definition push (l : lstate) (o : lop) : lstate :=
  set_val l {| v_base := v_base (l_val l); v_pend := v_pend (l_val l) ++ [o] |}.
Definition forced (sh : shared) (l : lstate) : list Z * rng :=
  force_ops (v_pend (l_val l)) (v_base (l_val l)) (sh_rng sh).

(* one action of the task working on partition [idx] with source list [part] *)
Definition do_act (idx : Z) (part : list Z) (a : act) (sh : shared) (l : lstate) : shared * lstate :=
  match a with
  | ASource => (sh, set_val l {| v_base := part; v_pend := [] |})
  | APush o => (sh, push l o)
  | APushSampOwn s fr => (sh, push l (LSampOwn (s + idx) fr))
  | APushSampGlobal fr => (sh, push l (LSampGlobal fr))
  | AForce => let '(xs, g) := forced sh l in (set_rng sh g, set_val l {| v_base := xs; v_pend := [] |})
  | AAdd id => (sh, set_cache l (c_set (l_cache l) (id, idx) (v_base (l_val l))))
  | AGet id =>
      match c_get (l_cache l) (id, idx) with
      | Some d => (sh, set_val l {| v_base := d; v_pend := [] |})
      | None => (sh, crash l)          (* get() returns None, iter(None) raises; unreachable after has() *)
      end
  | AFinish tf =>
      let '(xs, g) := forced sh l in
      let sh1 := set_rng sh g in
      let sh2 := match tf with
                 | FSmuggle => {| sh_cid := sh_cid sh1; sh_rng := sh_rng sh1; sh_box := assoc_set (sh_box sh1) idx xs |}
                 | _ => sh1
                 end in
      (sh2, set_res l (apply_tfun tf xs))
  | ASetShared id => ({| sh_cid := assoc_set (sh_cid sh) id (id, idx); sh_rng := sh_rng sh; sh_box := sh_box sh |}, l)
  | AAddShared id =>
      match assoc_get (sh_cid sh) id with
      | Some k => (sh, set_cache l (c_set (l_cache l) k (v_base (l_val l))))
      | None => (sh, crash l)
      end
  | AGetShared id =>
      match assoc_get (sh_cid sh) id with
      | Some k => match c_get (l_cache l) k with
                  | Some d => (sh, set_val l {| v_base := d; v_pend := [] |})
                  | None => (sh, crash l)
                  end
      | None => (sh, crash l)
      end
  | ASeedGlobal s => (set_rng sh (s + idx, 0%nat), l)
  end.

Definition eval_cond (idx : Z) (c : cond) (sh : shared) (l : lstate) : bool :=
  match c with
  | CHas id => c_has (l_cache l) (id, idx)
  | CHasShared id => match assoc_get (sh_cid sh) id with Some k => c_has (l_cache l) k | None => false end
  end.

(* the program of [r].compute(split, tc) followed by [k] *)
Fixpoint compile (v : variant) (r : rdd) (k : prog) : prog :=
  match r with
  | Src => PAct ASource k
  | Map f r' => compile v r' (PAct (APush (LMap f)) k)
  | Persist id r' =>
      if v_shared_key v
      then PGate L_if_id (PGate L_cid (PAct (ASetShared id) (PGate L_if_has (PIf (CHasShared id)
             (PGate L_data (compile v r' (PAct AForce (PGate L_add (PAct (AAddShared id) (PGate L_cm (PGate L_ret k)))))))
             (PGate L_log (PGate L_get (PAct (AGetShared id) (PGate L_ret k))))))))
      else PGate L_if_id (PGate L_cid (PGate L_if_has (PIf (CHas id)
             (PGate L_data (compile v r' (PAct AForce (PGate L_add (PAct (AAdd id) (PGate L_cm (PGate L_ret k)))))))
             (PGate L_log (PGate L_get (PAct (AGet id) (PGate L_ret k)))))))
  | Sample s fr r' =>
      if v_global_rng v
      then PGate L_rng (PAct (ASeedGlobal s) (PGate L_if_np (PGate L_gen (PGate L_for
             (compile v r' (PGate L_gen (PAct (APushSampGlobal fr) k)))))))
      else PGate L_rng (PGate L_nprng (PGate L_if_np (PGate L_gen (PGate L_for
             (compile v r' (PGate L_gen (PAct (APushSampOwn s fr) k)))))))
  end.

Definition task_prog (v : variant) (r : rdd) (tf : tfun) : prog := compile v r (PAct (AFinish tf) PDone).

(* upper bound of the number of gates on any path *)
Fixpoint plen (p : prog) : nat :=
  match p with
  | PDone => 0
  | PGate _ k => S (plen k)
  | PAct _ k => plen k
  | PIf _ a b => Nat.max (plen a) (plen b)
  end.

(* run up to the next gate (or to the end) *)
Fixpoint settle (idx : Z) (part : list Z) (p : prog) (sh : shared) (l : lstate) : prog * shared * lstate :=
  match p with
  | PDone => (PDone, sh, l)
  | PGate _ _ => (p, sh, l)
  | PAct a k =>
      let '(sh', l') := do_act idx part a sh l in
      if l_crash l' then (PDone, sh', l') else settle idx part k sh' l'
  | PIf c km kh => if eval_cond idx c sh l then settle idx part kh sh l else settle idx part km sh l
  end.

Record task := {
  t_idx : Z;                    (* partition index *)
  t_part : list Z;              (* the partition's source list *)
  t_cm0 : list key;             (* cm_state = stored_idents() of the clone at task start *)
  t_prog : prog;
  t_l : lstate
}.
Definition t_finished (t : task) : bool := match t_prog t with PDone => true | _ => false end.

Record gstate := {
  g_sh : list shared;           (* InProcess: one; Copying: one private copy per task *)
  g_tasks : list task;
  g_events : list (Z * Z)       (* (task number, label) in grant order, newest first *)
}.

Definition slot (b : backend) (tid : nat) : nat := match b with InProcess => 0%nat | Copying => tid end.

Fixpoint upd_nth {B} (l : list B) (n : nat) (b : B) : list B :=
  match l, n with
  | [], _ => []
  | _ :: l', O => b :: l'
  | x :: l', S n' => x :: upd_nth l' n' b
  end.

Definition with_prog (t : task) (p : prog) (l : lstate) : task :=
  {| t_idx := t_idx t; t_part := t_part t; t_cm0 := t_cm0 t; t_prog := p; t_l := l |}.

(* advance task [tid] from its current position (which is not a gate) to its next gate *)
Definition settle_task (b : backend) (tid : nat) (p : prog) (g : gstate) : gstate :=
  match nth_error (g_tasks g) tid, nth_error (g_sh g) (slot b tid) with
  | Some t, Some sh =>
      let '(p', sh', l') := settle (t_idx t) (t_part t) p sh (t_l t) in
      {| g_sh := upd_nth (g_sh g) (slot b tid) sh';
         g_tasks := upd_nth (g_tasks g) tid (with_prog t p' l');
         g_events := g_events g |}
  | _, _ => g
  end.

(* one grant *)
Definition grant (b : backend) (g : gstate) (tid : nat) : gstate :=
  match nth_error (g_tasks g) tid with
  | Some t =>
      match t_prog t with
      | PGate lb k =>
          settle_task b tid k {| g_sh := g_sh g; g_tasks := g_tasks g;
                                 g_events := (Z.of_nat tid, lb) :: g_events g |}
      | _ => g
      end
  | None => g
  end.

Definition run_sched (b : backend) (sched : list nat) (g : gstate) : gstate := fold_left (grant b) sched g.

Fixpoint mapi_from {B C} (f : nat -> B -> C) (n : nat) (l : list B) : list C :=
  match l with [] => [] | x :: l' => f n x :: mapi_from f (S n) l' end.

(* _runJob_distributed.prepare: the task gets a clone of the driver's cache restricted to its partition index *)
Definition init_task (p0 : prog) (driver : cache) (i : nat) (part : list Z) : task :=
  let c := c_clone driver (Z.of_nat i) in
  {| t_idx := Z.of_nat i; t_part := part; t_cm0 := c_keys c; t_prog := p0;
     t_l := {| l_cache := c; l_val := {| v_base := []; v_pend := [] |}; l_res := None; l_crash := false |} |}.

Definition init_state (b : backend) (p0 : prog) (parts : list (list Z)) (driver : cache) (sh : shared) : gstate :=
  {| g_sh := match b with InProcess => [sh] | Copying => map (fun _ => sh) parts end;
     g_tasks := mapi_from (init_task p0 driver) 0 parts;
     g_events := [] |}.

(* every thread runs up to its first traced line, in task order *)
Definition start_all (b : backend) (p0 : prog) (g : gstate) : gstate :=
  fold_left (fun g tid => settle_task b tid p0 g) (seq 0 (length (g_tasks g))) g.

Definition drain_sched (p0 : prog) (n : nat) : list nat := flat_map (fun tid => repeat tid (plen p0)) (seq 0 n).

(* the cache entries a task sends back: get_not_in(cm_state) *)
Definition delta (t : task) : cache := c_not_in (l_cache (t_l t)) (t_cm0 t).

Record outcome := {
  o_results : list (option (list Z));   (* per task, in partition order; None = the task raised *)
  o_driver : cache;                     (* driver cache_obj after the job *)
  o_stamped : list key;                 (* TimedCacheManager: idents stamped by join during this job *)
  o_shared : shared;                    (* the driver's own objects after the job *)
  o_events : list (Z * Z)
}.

(* Context._runJob_distributed with a pool that executes the tasks under [sched] *)
Definition run_job (b : backend) (v : variant) (r : rdd) (tf : tfun) (parts : list (list Z))
           (sched : list nat) (driver : cache) (sh : shared) : outcome :=
  let p0 := task_prog v r tf in
  let g0 := start_all b p0 (init_state b p0 parts driver sh) in
  let g := run_sched b (sched ++ drain_sched p0 (length parts)) g0 in
  {| o_results := map (fun t => if l_crash (t_l t) then None else l_res (t_l t)) (g_tasks g);
     o_driver := fold_left (fun d t => c_update d (delta t)) (g_tasks g) driver;
     o_stamped := flat_map (fun t => c_keys (delta t)) (g_tasks g);
     o_shared := match b with InProcess => nth 0 (g_sh g) sh | Copying => sh end;
     o_events := rev (g_events g) |}.

(* the task program run without interruption *)
Fixpoint exec (idx : Z) (part : list Z) (p : prog) (sh : shared) (l : lstate) : shared * lstate :=
  match p with
  | PDone => (sh, l)
  | PGate _ k => exec idx part k sh l
  | PAct a k =>
      let '(sh', l') := do_act idx part a sh l in
      if l_crash l' then (sh', l') else exec idx part k sh' l'
  | PIf c km kh => if eval_cond idx c sh l then exec idx part kh sh l else exec idx part km sh l
  end.

(* Context._runJob_local (DummyPool, the default executor): the tasks run one after the other, each to its
   end, directly on the driver's cache manager *)
Fixpoint run_local_from (p0 : prog) (i : nat) (parts : list (list Z)) (driver : cache) (sh : shared)
  : list (option (list Z)) * cache * shared :=
  match parts with
  | [] => ([], driver, sh)
  | part :: rest =>
      let '(sh', l) := exec (Z.of_nat i) part p0 sh
                         {| l_cache := driver; l_val := {| v_base := []; v_pend := [] |}; l_res := None; l_crash := false |} in
      let '(rs, d', sh'') := run_local_from p0 (S i) rest (l_cache l) sh' in
      ((if l_crash l then None else l_res l) :: rs, d', sh'')
  end.
Definition run_local (v : variant) (r : rdd) (tf : tfun) (parts : list (list Z)) (driver : cache) (sh : shared) :=
  run_local_from (task_prog v r tf) 0 parts driver sh.

(* RDD.coalesce: the partitions of self.glom().collect() regrouped by the (regenerated) partition mapping *)
Definition regroup (n : Z) (ps : list (list Z)) : list (list Z) :=
  let '(m, mapping) := coalesce_plan n (Z.of_nat (length ps)) in
  map (fun g => concat (map snd (filter (fun ip => fst ip =? g) (combine mapping ps)))) (zrange 0 m).

(* (variant) coalesce before fix 8650242 read the container in the driver's closure after the job *)
Definition regroup_box (n : Z) (np : nat) (box : list (Z * list Z)) : list (list Z) :=
  regroup n (map (fun i => match assoc_get box (Z.of_nat i) with Some d => d | None => [] end) (seq 0 np)).

(* ---------------------------------------------------------------------------------------------- *)
(* vocabulary of the statements in Properties/C03.v *)

(* [lin id] is the dataset below the persist() whose PersistedRDD has _rdd_id = id; a lineage is well formed
   when every Persist node agrees with that registry (ids are unique per dataset object) *)
Fixpoint wf (lin : Z -> rdd) (r : rdd) : Prop :=
  match r with
  | Src => True
  | Map _ r' => wf lin r'
  | Persist id r' => lin id = r' /\ wf lin r'
  | Sample _ _ r' => wf lin r'
  end.

(* every cache entry (id, i) of a dataset in [S] holds the data of partition i of the dataset with that id *)
Definition cache_ok_on (S : Z -> Prop) (lin : Z -> rdd) (parts : list (list Z)) (c : cache) : Prop :=
  forall k d, In (k, d) c -> S (fst k) ->
    exists n p, snd k = Z.of_nat n /\ nth_error parts n = Some p /\ d = eval (lin (fst k)) (snd k) p.
Definition cache_ok (lin : Z -> rdd) (parts : list (list Z)) (c : cache) : Prop :=
  cache_ok_on (fun _ => True) lin parts c.

(* the persisted datasets of a lineage *)
Fixpoint ids (r : rdd) : list Z :=
  match r with Src => [] | Map _ r' => ids r' | Sample _ _ r' => ids r' | Persist id r' => id :: ids r' end.

(* PersistedRDD.unpersist on the driver: cache_manager.delete((id, p.index)) for every partition p *)
Definition c_unpersist (n : nat) (id : Z) (c : cache) : cache :=
  filter (fun kv => negb ((fst (fst kv) =? id) && (0 <=? snd (fst kv)) && (snd (fst kv) <? Z.of_nat n))) c.

(* what the job returns when every partition is evaluated on its own: per partition, in partition order *)
Definition spec_results (r : rdd) (tf : tfun) (parts : list (list Z)) : list (option (list Z)) :=
  map (fun ip => Some (apply_tfun tf (eval r (Z.of_nat (fst ip)) (snd ip)))) (combine (seq 0 (length parts)) parts).

(* a history of jobs on one context: (lineage, task function, schedule) each *)
Definition jobspec := (rdd * tfun * list nat)%type.
Fixpoint run_jobs (b : backend) (v : variant) (js : list jobspec) (parts : list (list Z)) (driver : cache) (sh : shared)
  : list (list (option (list Z))) * cache :=
  match js with
  | [] => ([], driver)
  | (r, tf, sched) :: js' =>
      let o := run_job b v r tf parts sched driver sh in
      let '(rs, d) := run_jobs b v js' parts (o_driver o) (o_shared o) in
      (o_results o :: rs, d)
  end.
Fixpoint run_jobs_local (v : variant) (js : list jobspec) (parts : list (list Z)) (driver : cache) (sh : shared)
  : list (list (option (list Z))) * cache :=
  match js with
  | [] => ([], driver)
  | (r, tf, _) :: js' =>
      let '(res, d, sh') := run_local v r tf parts driver sh in
      let '(rs, d') := run_jobs_local v js' parts d sh' in
      (res :: rs, d')
  end.

(* histories with unpersist() between the jobs *)
Inductive step := SJob (j : jobspec) | SUnpersist (id : Z).
Fixpoint run_steps (b : backend) (v : variant) (ss : list step) (parts : list (list Z)) (driver : cache) (sh : shared)
  : list (list (option (list Z))) * cache :=
  match ss with
  | [] => ([], driver)
  | SJob (r, tf, sched) :: ss' =>
      let o := run_job b v r tf parts sched driver sh in
      let '(rs, d) := run_steps b v ss' parts (o_driver o) (o_shared o) in
      (o_results o :: rs, d)
  | SUnpersist id :: ss' => run_steps b v ss' parts (c_unpersist (length parts) id driver) sh
  end.
Fixpoint run_steps_local (v : variant) (ss : list step) (parts : list (list Z)) (driver : cache) (sh : shared)
  : list (list (option (list Z))) * cache :=
  match ss with
  | [] => ([], driver)
  | SJob (r, tf, _) :: ss' =>
      let '(res, d, sh') := run_local v r tf parts driver sh in
      let '(rs, d') := run_steps_local v ss' parts d sh' in
      (res :: rs, d')
  | SUnpersist id :: ss' => run_steps_local v ss' parts (c_unpersist (length parts) id driver) sh
  end.

End WithDraws.
