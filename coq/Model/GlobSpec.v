(* C20 -- specification vocabulary (definitions only): what "matches" and "names a file"
   mean, independently of the algorithm. *)
From Coq Require Import NArith List Bool.
Require Import PV.Model.Glob.
Import ListNotations.
Open Scope N_scope.

(* the wildcard language of the property: '*' any run of characters, '?' any single one *)
Inductive matches : str -> str -> Prop :=
| M_nil : matches [] []
| M_star : forall p u s, matches p s -> matches (c_star :: p) (u ++ s)
| M_qm : forall p c s, matches p s -> matches (c_qm :: p) (c :: s)
| M_lit : forall p c s, c <> c_star -> c <> c_qm -> matches p s -> matches (c :: p) (c :: s).

(* no wildcard character *)
Definition literal (l : str) : Prop := forall c, In c l -> is_wild c = false.

(* the three canonical ways of writing the path of a file: absolute, './'-relative, bare relative *)
Inductive lead : Type := LAbs | LDot | LBare.
Definition lead_str (l : lead) : str :=
  match l with LAbs => [c_slash] | LDot => dotslash | LBare => [] end.
Definition lead_base (fs : fsys) (l : lead) : list str :=
  match l with LAbs => [] | _ => cwd fs end.

(* [s] is a canonical name of the file with absolute components [f] *)
Definition cname (fs : fsys) (s : str) (f : list str) : Prop :=
  exists l cs, cs <> [] /\ forallb comp_ok cs = true /\
               s = lead_str l ++ join c_slash cs /\ f = lead_base fs l ++ cs.

(* effective expression / walk root of an item (after the scheme prefix is removed) *)
Definition eff_expr (e : str) : str := fst (plan (strip_scheme e)).
Definition walk_root (e : str) : str := snd (plan (strip_scheme e)).

Definition str_le (a b : str) : Prop := str_leb a b = true.
