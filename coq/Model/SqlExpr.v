(* Executable model of pysparkling's SQL column expressions (sql/column.py, sql/expressions/*.py) as
   they are evaluated on one row: Expression.eval(row, schema).

   Values are the Python objects a cell can hold for the four atomic column types of property C12:
   None, int, float, str, bool.  [eval] transcribes, class by class,
     FieldAsExpression / Column(str)       column reference (unique position of the name in the schema)
     Literal, Alias, Negate
     NullSafeBinaryOperation               Add Minus Time Divide Mod  (null in -> null out, class test,
                                           then the Python operator; Divide yields None for a zero divisor)
     TypeSafeBinaryOperation               Equal LessThan ... (null in -> null out, equal classes -> the
                                           Python operator, else the operand whose class comes FIRST in the
                                           regenerated INTERNAL_TYPE_ORDER is cast to the class of the other)
     And, Or                               eval_values overrides (`is False` / `is True` short cuts) on top
                                           of TypeSafeBinaryOperation
     Invert, IsNull, IsNotNull, Coalesce, CaseWhen, Otherwise
   Column.between(lo, hi) is (self >= lo) & (self <= hi) and `!=` is Invert(Equal) exactly as in column.py.

   [None] as a result means "the implementation raises, or the behaviour is outside what is modelled"
   (float %, casts other than int->float / int->bool / float->bool, str arithmetic other than +).
   Python ints are Z, Python floats are PrimFloat (bit-identical).  int -> float conversion is
   [float_of_Z], exact for |z| < 2^53 (assumption of the correspondence run). *)
From Coq Require Import ZArith NArith Bool String List.
From Coq Require Import PrimFloat.
Require Import PV.Base.Num PV.Gen.SqlTables.
Import ListNotations.
Open Scope Z_scope.

Inductive sval := SNull | SInt (z : Z) | SDbl (f : float) | SStr (s : list N) | SBool (b : bool).

Definition name := list N.

Inductive aop := AAdd | ASub | AMul | ADiv | AMod.
Inductive cop := CEq | CLt | CLe | CGt | CGe.

Inductive expr :=
| ECol (n : name)
| ELit (v : sval)
| ENeg (e : expr)
| EArith (o : aop) (a b : expr)
| ECmp (o : cop) (a b : expr)
| EAnd (a b : expr)
| EOr (a b : expr)
| ENot (e : expr)
| EIsNull (e : expr)
| EIsNotNull (e : expr)
| ECoalesce (es : list expr)
| ECase (bs : list (expr * expr)) (d : option expr)
| EAlias (e : expr) (n : name).

(* derived forms, as column.py builds them *)
Definition EBetween (a lo hi : expr) : expr := EAnd (ECmp CGe a lo) (ECmp CLe a hi).
Definition ENe (a b : expr) : expr := ENot (ECmp CEq a b).

(* ---------- names and schema lookup: find_position_in_schema + get_checked_matches *)
Fixpoint name_eqb (a b : name) : bool :=
  match a, b with
  | [], [] => true
  | x :: a', y :: b' => N.eqb x y && name_eqb a' b'
  | _, _ => false
  end.

Fixpoint positions (n : name) (sch : list name) (i : nat) : list nat :=
  match sch with
  | [] => []
  | m :: sch' => if name_eqb n m then i :: positions n sch' (S i) else positions n sch' (S i)
  end.

(* None: AnalysisException (no such column, or ambiguous reference) *)
Definition find_position (sch : list name) (n : name) : option nat :=
  match positions n sch 0%nat with
  | [i] => Some i
  | _ => None
  end.

Definition row := list sval.

Definition lookup (sch : list name) (r : row) (n : name) : option sval :=
  match find_position sch n with
  | Some i => nth_error r i
  | None => None
  end.

(* ---------- Python primitives on values *)
Definition is_null (v : sval) : bool := match v with SNull => true | _ => false end.

(* bool(value) *)
Definition truthy (v : sval) : bool :=
  match v with
  | SNull => false
  | SInt z => negb (z =? 0)
  | SDbl f => negb (PrimFloat.eqb f PrimFloat.zero)
  | SStr s => match s with [] => false | _ => true end
  | SBool b => b
  end.

(* value.__class__ as the dotted name used in INTERNAL_TYPE_ORDER; None for NoneType *)
Definition cls_name (v : sval) : option string :=
  match v with
  | SNull => None
  | SInt _ => Some "int"%string
  | SDbl _ => Some "float"%string
  | SStr _ => Some "str"%string
  | SBool _ => Some "bool"%string
  end.

Fixpoint index_of (s : string) (l : list string) (i : nat) : option nat :=
  match l with
  | [] => None
  | x :: l' => if String.eqb s x then Some i else index_of s l' (S i)
  end.
Definition type_index (c : string) : option nat := index_of c internal_type_order 0%nat.

Fixpoint str_cmp (a b : list N) : comparison :=
  match a, b with
  | [], [] => Eq
  | [], _ => Lt
  | _, [] => Gt
  | x :: a', y :: b' => match N.compare x y with Eq => str_cmp a' b' | c => c end
  end.

Definition bool_cmp (a b : bool) : comparison :=
  match a, b with false, true => Lt | true, false => Gt | _, _ => Eq end.

Definition cmp_of (o : cop) (c : comparison) : bool :=
  match o, c with
  | CEq, Eq => true
  | CLt, Lt => true
  | CLe, Lt | CLe, Eq => true
  | CGt, Gt => true
  | CGe, Gt | CGe, Eq => true
  | _, _ => false
  end.

Definition cmp_float (o : cop) (a b : float) : bool :=
  match o with
  | CEq => PrimFloat.eqb a b
  | CLt => PrimFloat.ltb a b
  | CLe => PrimFloat.leb a b
  | CGt => PrimFloat.ltb b a
  | CGe => PrimFloat.leb b a
  end.

(* the Python comparison operator on two objects of the same class *)
Definition py_cmp (o : cop) (v1 v2 : sval) : option sval :=
  match v1, v2 with
  | SInt a, SInt b => Some (SBool (cmp_of o (a ?= b)))
  | SDbl a, SDbl b => Some (SBool (cmp_float o a b))
  | SStr a, SStr b => Some (SBool (cmp_of o (str_cmp a b)))
  | SBool a, SBool b => Some (SBool (cmp_of o (bool_cmp a b)))
  | _, _ => None
  end.

(* get_caster(python_to_spark_type(class of v), python_to_spark_type(class of w))(v), for the pairs that
   the comparison of the four atomic classes can reach and that are modelled *)
Definition cast_like (w v : sval) : option sval :=
  match w, v with
  | SDbl _, SInt z => Some (SDbl (float_of_Z z))
  | SBool _, SInt z => Some (SBool (negb (z =? 0)))
  | SBool _, SDbl f => Some (SBool (negb (PrimFloat.eqb f PrimFloat.zero)))
  | _, _ => None
  end.

(* TypeSafeBinaryOperation.eval_values *)
Definition typesafe (f : sval -> sval -> option sval) (v1 v2 : sval) : option sval :=
  match cls_name v1, cls_name v2 with
  | None, _ | _, None => Some SNull
  | Some c1, Some c2 =>
      if String.eqb c1 c2 then f v1 v2
      else
        match type_index c1, type_index c2 with
        | Some o1, Some o2 =>
            if (o2 <? o1)%nat then
              match cast_like v1 v2 with Some v2' => f v1 v2' | None => None end
            else if (o1 <? o2)%nat then
              match cast_like v2 v1 with Some v1' => f v1' v2 | None => None end
            else f v1 v2
        | _, _ => None
        end
  end.

(* And.eval_values / Or.eval_values (repaired: three-valued) *)
Definition is_False (v : sval) : bool := match v with SBool false => true | _ => false end.
Definition is_True (v : sval) : bool := match v with SBool true => true | _ => false end.
Definition py_and (v1 v2 : sval) : option sval := Some (if truthy v1 then v2 else v1).
Definition py_or (v1 v2 : sval) : option sval := Some (if truthy v1 then v1 else v2).

Definition eval_and (v1 v2 : sval) : option sval :=
  if is_False v1 || is_False v2 then Some (SBool false) else typesafe py_and v1 v2.
Definition eval_or (v1 v2 : sval) : option sval :=
  if is_True v1 || is_True v2 then Some (SBool true) else typesafe py_or v1 v2.

(* numbers as Python sees them in arithmetic: bool is a subclass of int *)
Inductive num := NI (z : Z) | ND (f : float).
Definition as_pynum (v : sval) : option num :=
  match v with
  | SInt z => Some (NI z)
  | SBool b => Some (NI (if b then 1 else 0))
  | SDbl f => Some (ND f)
  | _ => None
  end.
Definition num_dbl (n : num) : float := match n with NI z => float_of_Z z | ND f => f end.

Definition arith_float (o : aop) (a b : float) : option sval :=
  match o with
  | AAdd => Some (SDbl (PrimFloat.add a b))
  | ASub => Some (SDbl (PrimFloat.sub a b))
  | AMul => Some (SDbl (PrimFloat.mul a b))
  | ADiv => Some (if PrimFloat.eqb b PrimFloat.zero then SNull else SDbl (PrimFloat.div a b))
  | AMod => None                       (* float % : not modelled *)
  end.

(* unsafe_operation of Add/Minus/Time/Divide/Mod on two numbers *)
Definition py_arith_num (o : aop) (x y : num) : option sval :=
  match x, y with
  | NI a, NI b =>
      match o with
      | AAdd => Some (SInt (a + b))
      | ASub => Some (SInt (a - b))
      | AMul => Some (SInt (a * b))
      | ADiv => Some (if b =? 0 then SNull else SDbl (PrimFloat.div (float_of_Z a) (float_of_Z b)))
      | AMod => if b =? 0 then None (* ZeroDivisionError *) else Some (SInt (a mod b))
      end
  | _, _ => arith_float o (num_dbl x) (num_dbl y)
  end.

(* NullSafeBinaryOperation.eval after the operands are known *)
Definition eval_arith (o : aop) (v1 v2 : sval) : option sval :=
  if is_null v1 || is_null v2 then Some SNull
  else
    match as_pynum v1, as_pynum v2 with
    | Some x, Some y => py_arith_num o x y
    | _, _ =>
        match v1, v2, o with
        | SStr a, SStr b, AAdd => Some (SStr (a ++ b))
        | _, _, _ => None               (* AnalysisException / TypeError / str formatting: not modelled *)
        end
    end.

Definition eval_neg (v : sval) : option sval :=
  match v with
  | SNull => Some SNull
  | SInt z => Some (SInt (- z))
  | SDbl f => Some (SDbl (PrimFloat.opp f))
  | SBool b => Some (SInt (if b then -1 else 0))
  | SStr _ => None
  end.

Definition eval_not (v : sval) : sval :=
  match v with SNull => SNull | _ => SBool (negb (truthy v)) end.

(* ---------- Expression.eval(row, schema) *)
Fixpoint eval (sch : list name) (r : row) (e : expr) {struct e} : option sval :=
  match e with
  | ECol n => lookup sch r n
  | ELit v => Some v
  | EAlias e' _ => eval sch r e'
  | ENeg e' => match eval sch r e' with Some v => eval_neg v | None => None end
  | EArith o a b =>
      match eval sch r a with
      | Some v1 => match eval sch r b with Some v2 => eval_arith o v1 v2 | None => None end
      | None => None
      end
  | ECmp o a b =>
      match eval sch r a with
      | Some v1 => match eval sch r b with Some v2 => typesafe (py_cmp o) v1 v2 | None => None end
      | None => None
      end
  | EAnd a b =>
      match eval sch r a with
      | Some v1 => match eval sch r b with Some v2 => eval_and v1 v2 | None => None end
      | None => None
      end
  | EOr a b =>
      match eval sch r a with
      | Some v1 => match eval sch r b with Some v2 => eval_or v1 v2 | None => None end
      | None => None
      end
  | ENot e' => match eval sch r e' with Some v => Some (eval_not v) | None => None end
  | EIsNull e' => match eval sch r e' with Some v => Some (SBool (is_null v)) | None => None end
  | EIsNotNull e' => match eval sch r e' with Some v => Some (SBool (negb (is_null v))) | None => None end
  | ECoalesce es =>
      (fix go (l : list expr) : option sval :=
         match l with
         | [] => Some SNull
         | x :: l' =>
             match eval sch r x with
             | None => None
             | Some SNull => go l'
             | Some v => Some v
             end
         end) es
  | ECase bs d =>
      (fix go (l : list (expr * expr)) : option sval :=
         match l with
         | [] => match d with None => Some SNull | Some x => eval sch r x end
         | (c, v) :: l' =>
             match eval sch r c with
             | None => None
             | Some cv => if truthy cv then eval sch r v else go l'
             end
         end) bs
  end.

(* ---------- static types (what the property calls "typed nullable columns") *)
Inductive ty := TInt | TDbl | TStr | TBool.

Definition ty_eqb (a b : ty) : bool :=
  match a, b with
  | TInt, TInt | TDbl, TDbl | TStr, TStr | TBool, TBool => true
  | _, _ => false
  end.

Definition numeric (t : ty) : bool := match t with TInt | TDbl => true | _ => false end.
Definition all_ty : list ty := [TInt; TDbl; TStr; TBool].

(* a nullable value of type t *)
Definition v_has_ty (v : sval) (t : ty) : bool :=
  match v, t with
  | SNull, _ => true
  | SInt _, TInt | SDbl _, TDbl | SStr _, TStr | SBool _, TBool => true
  | _, _ => false
  end.

Definition tenv := list (name * ty).

Definition lookup_ty (G : tenv) (n : name) : option ty :=
  match find_position (map fst G) n with
  | Some i => option_map snd (nth_error G i)
  | None => None
  end.

(* result type of an arithmetic operator; [allow_mod] selects whether % is part of the typed fragment
   (Python's % differs from SQL's on negative operands and raises on 0, see Properties/C12.v) *)
Definition ty_arith (allow_mod : bool) (o : aop) (t1 t2 : ty) : option ty :=
  if numeric t1 && numeric t2 then
    match o with
    | ADiv => Some TDbl
    | AMod => if allow_mod then match t1, t2 with TInt, TInt => Some TInt | _, _ => None end else None
    | _ => match t1, t2 with TInt, TInt => Some TInt | _, _ => Some TDbl end
    end
  else None.

Definition comparable (t1 t2 : ty) : bool := ty_eqb t1 t2 || (numeric t1 && numeric t2).

Definition opt_ty_eqb (a : option ty) (b : ty) : bool :=
  match a with Some x => ty_eqb x b | None => false end.

(* wt am G e t : e is a well-typed expression of type t over columns G *)
Fixpoint wt (am : bool) (G : tenv) (e : expr) (t : ty) {struct e} : bool :=
  match e with
  | ECol n => opt_ty_eqb (lookup_ty G n) t
  | ELit v => v_has_ty v t
  | EAlias e' _ => wt am G e' t
  | ENeg e' => numeric t && wt am G e' t
  | EArith o a b =>
      existsb (fun t1 => existsb (fun t2 =>
        wt am G a t1 && wt am G b t2 && opt_ty_eqb (ty_arith am o t1 t2) t) all_ty) all_ty
  | ECmp _ a b =>
      ty_eqb t TBool &&
      existsb (fun t1 => existsb (fun t2 => wt am G a t1 && wt am G b t2 && comparable t1 t2) all_ty) all_ty
  | EAnd a b | EOr a b => ty_eqb t TBool && wt am G a TBool && wt am G b TBool
  | ENot e' => ty_eqb t TBool && wt am G e' TBool
  | EIsNull e' | EIsNotNull e' => ty_eqb t TBool && existsb (fun t1 => wt am G e' t1) all_ty
  | ECoalesce es =>
      (fix go (l : list expr) : bool :=
         match l with [] => true | x :: l' => wt am G x t && go l' end) es
  | ECase bs d =>
      (fix go (l : list (expr * expr)) : bool :=
         match l with
         | [] => match d with None => true | Some x => wt am G x t end
         | (c, v) :: l' => wt am G c TBool && wt am G v t && go l'
         end) bs
  end.

(* a row whose cells have the declared types *)
Fixpoint row_ok (G : tenv) (r : row) : bool :=
  match G, r with
  | [], [] => true
  | (_, t) :: G', v :: r' => v_has_ty v t && row_ok G' r'
  | _, _ => false
  end.

(* ---------- the reference: a small SQL interpreter (three-valued logic, numeric promotion,
   null propagation, x / 0 = NULL), written against typed values, independently of the class
   dispatch above *)
Inductive tv := TT | FF | UU.
Definition tv_of (v : sval) : tv := match v with SBool true => TT | SBool false => FF | _ => UU end.
Definition tv_val (t : tv) : sval := match t with TT => SBool true | FF => SBool false | UU => SNull end.
Definition tv_and (a b : tv) : tv :=
  match a, b with FF, _ | _, FF => FF | TT, TT => TT | _, _ => UU end.
Definition tv_or (a b : tv) : tv :=
  match a, b with TT, _ | _, TT => TT | FF, FF => FF | _, _ => UU end.
Definition tv_not (a : tv) : tv := match a with TT => FF | FF => TT | UU => UU end.

Definition sql_num (v : sval) : option num :=
  match v with SInt z => Some (NI z) | SDbl f => Some (ND f) | _ => None end.

Definition sql_arith (o : aop) (v1 v2 : sval) : sval :=
  match sql_num v1, sql_num v2 with
  | Some (NI a), Some (NI b) =>
      match o with
      | AAdd => SInt (a + b)
      | ASub => SInt (a - b)
      | AMul => SInt (a * b)
      | ADiv => if b =? 0 then SNull else SDbl (PrimFloat.div (float_of_Z a) (float_of_Z b))
      | AMod => if b =? 0 then SNull else SInt (Z.rem a b)        (* SQL: sign of the dividend *)
      end
  | Some x, Some y =>
      let a := num_dbl x in let b := num_dbl y in                  (* promotion int -> double *)
      match o with
      | AAdd => SDbl (PrimFloat.add a b)
      | ASub => SDbl (PrimFloat.sub a b)
      | AMul => SDbl (PrimFloat.mul a b)
      | ADiv => if PrimFloat.eqb b PrimFloat.zero then SNull else SDbl (PrimFloat.div a b)
      | AMod => SNull
      end
  | _, _ => SNull                                                  (* NULL operand *)
  end.

Definition sql_cmp (o : cop) (v1 v2 : sval) : sval :=
  match v1, v2 with
  | SNull, _ | _, SNull => SNull
  | SInt a, SInt b => SBool (cmp_of o (a ?= b))
  | SInt a, SDbl b => SBool (cmp_float o (float_of_Z a) b)
  | SDbl a, SInt b => SBool (cmp_float o a (float_of_Z b))
  | SDbl a, SDbl b => SBool (cmp_float o a b)
  | SStr a, SStr b => SBool (cmp_of o (str_cmp a b))
  | SBool a, SBool b => SBool (cmp_of o (bool_cmp a b))
  | _, _ => SNull
  end.

Definition sql_neg (v : sval) : sval :=
  match v with SInt z => SInt (- z) | SDbl f => SDbl (PrimFloat.opp f) | _ => SNull end.

Fixpoint first_non_null (l : list sval) : sval :=
  match l with [] => SNull | SNull :: l' => first_non_null l' | v :: _ => v end.

Fixpoint sql_eval (sch : list name) (r : row) (e : expr) {struct e} : sval :=
  match e with
  | ECol n => match lookup sch r n with Some v => v | None => SNull end
  | ELit v => v
  | EAlias e' _ => sql_eval sch r e'
  | ENeg e' => sql_neg (sql_eval sch r e')
  | EArith o a b => sql_arith o (sql_eval sch r a) (sql_eval sch r b)
  | ECmp o a b => sql_cmp o (sql_eval sch r a) (sql_eval sch r b)
  | EAnd a b => tv_val (tv_and (tv_of (sql_eval sch r a)) (tv_of (sql_eval sch r b)))
  | EOr a b => tv_val (tv_or (tv_of (sql_eval sch r a)) (tv_of (sql_eval sch r b)))
  | ENot e' => tv_val (tv_not (tv_of (sql_eval sch r e')))
  | EIsNull e' => SBool (is_null (sql_eval sch r e'))
  | EIsNotNull e' => SBool (negb (is_null (sql_eval sch r e')))
  | ECoalesce es => first_non_null (map (sql_eval sch r) es)
  | ECase bs d =>
      (fix go (l : list (expr * expr)) : sval :=
         match l with
         | [] => match d with None => SNull | Some x => sql_eval sch r x end
         | (c, v) :: l' =>
             match tv_of (sql_eval sch r c) with
             | TT => sql_eval sch r v
             | _ => go l'
             end
         end) bs
  end.

(* WHERE keeps a row iff the predicate is TRUE (not FALSE, not NULL) *)
Definition sql_true (v : sval) : bool := match tv_of v with TT => true | _ => false end.
