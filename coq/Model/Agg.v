(* Model of grouped aggregation in pysparkling.sql (C14).  Definitions only.

   What is transcribed (from /repo as it is today, i.e. with fixes 7c7940c, f6ad087 and cee87a5):
     sql/internals.py   GroupedStats.merge / mergeStats (first-seen group order, adopt-or-merge per key, pivot
                        slots), InternalGroupedDataFrame.agg / add_subtotals / get_subtotal_keys / pivot,
                        DataFrameInternal.describe / summary through RowStatHelper
     rdd.py             RDD.aggregate: one partial per partition (fold of seqOp from a copy of the zero), then a
                        left fold of combOp over the partials from another copy of the zero
     stat_counter.py    ColumnStatHelper.merge / update_counters / mergeStats and the read-out properties; the
                        arithmetic of update_moments / merge_moments / mean / variance / skewness / kurtosis is NOT
                        written here: it is regenerated from the source into PV.Gen.AggMoments on every run
     sql/expressions/aggregate/*.py   Count, Sum, Avg, Min, Max, VarSamp, VarPop, StddevSamp, StddevPop, Skewness,
                        Kurtosis, CollectList, CollectSet, CountDistinct, SumDistinct, First, Last
   Not modelled: the percentile sketch of ColumnStatHelper (sampled / compress), column naming of the output.

   Everything is generic in the numeric class (PV.Base.Num.NumOps + PV.Base.NumSqrt): the PrimFloat instance is
   executed by the correspondence run (bit-exact with CPython), the R instance is what the theorems are about. *)
From Coq Require Import ZArith NArith List Bool.
Require Import PV.Base.Num PV.Base.NumSqrt PV.Gen.AggMoments.
Import ListNotations.
Open Scope Z_scope.

Set Implicit Arguments.

(* ------------------------------------------------------------------------------------------------------------ *)
(** * 1. Generic aggregator and the partition driver *)

Record aggregator (Row S O : Type) : Type := mkAgg {
  a_init : S;                    (* a fresh copy of the aggregation object *)
  a_step : S -> Row -> S;        (* Aggregation.merge(row, schema) *)
  a_merge : S -> S -> S;         (* Aggregation.mergeStats(other, schema) *)
  a_out : S -> O;                (* Aggregation.eval(...) on the finished object *)
}.

Definition a_fold {Row S O} (A : aggregator Row S O) (rows : list Row) : S :=
  fold_left (a_step A) rows (a_init A).

Section Grouped.
  Variables (Row K S O : Type).
  Variable keqb : K -> K -> bool.
  Variable key : Row -> K.
  Variable A : aggregator Row S O.

  (* GroupedStats.groups + group_keys: association list in first-seen order *)
  Definition groups := list (K * S).

  Fixpoint g_find (k : K) (gs : groups) : option S :=
    match gs with
    | [] => None
    | (k', s) :: gs' => if keqb k k' then Some s else g_find k gs'
    end.

  Fixpoint g_set (k : K) (s : S) (gs : groups) : groups :=
    match gs with
    | [] => []
    | (k', s') :: gs' => if keqb k k' then (k', s) :: gs' else (k', s') :: g_set k s gs'
    end.

  (* "if key not in groups: adopt, else: combine with what is there" *)
  Definition g_absorb {X} (adopt : X -> S) (comb : S -> X -> S) (acc : groups) (k : K) (x : X) : groups :=
    match g_find k acc with
    | None => acc ++ [(k, adopt x)]
    | Some s => g_set k (comb s x) acc
    end.

  (* GroupedStats.merge(row): a new group gets fresh copies of the stats, then the row is merged into it *)
  Definition g_merge_row (gs : groups) (r : Row) : groups :=
    g_absorb (fun r => a_step A (a_init A) r) (a_step A) gs (key r) r.

  (* GroupedStats.mergeStats(other): for every group of other, in other's order: adopt or mergeStats *)
  Definition g_merge_stats (gs other : groups) : groups :=
    fold_left (fun acc ks => g_absorb (fun s => s) (a_merge A) acc (fst ks) (snd ks)) other gs.

  (* RDD.aggregate: fold each partition from a copy of the (empty) zero, then fold the partials *)
  Definition g_partial (p : list Row) : groups := fold_left g_merge_row p [].
  Definition g_aggregate (ps : list (list Row)) : groups := fold_left g_merge_stats (map g_partial ps) [].

  (* add_subtotals: every group is merged into each of its subtotal keys (first one adopts a copy) *)
  Definition g_subtotals (subkeys : K -> list K) (gs : groups) : groups :=
    fold_left (fun acc ks =>
                 fold_left (fun acc sk => g_absorb (fun s => s) (a_merge A) acc sk (snd ks)) (subkeys (fst ks)) acc)
              gs [].

  Definition g_result (gs : groups) : list (K * O) := map (fun ks => (fst ks, a_out A (snd ks))) gs.

  (* the reference: distinct keys in first-seen order, each with the fold over its own rows *)
  Definition key_mem (k : K) (ks : list K) : bool := existsb (keqb k) ks.
  Definition add_key (acc : list K) (k : K) : list K := if key_mem k acc then acc else acc ++ [k].
  Definition first_keys (ks : list K) : list K := fold_left add_key ks [].
  Definition rows_of (k : K) (rows : list Row) : list Row := filter (fun r => keqb k (key r)) rows.
  Definition g_spec (rows : list Row) : list (K * S) :=
    map (fun k => (k, a_fold A (rows_of k rows))) (first_keys (map key rows)).
End Grouped.

(* ------------------------------------------------------------------------------------------------------------ *)
(** * 2. Combinators: several aggregates per group, pivot slots, output mapping *)

Definition agg_map_out {Row S O O'} (f : O -> O') (A : aggregator Row S O) : aggregator Row S O' :=
  mkAgg (a_init A) (a_step A) (a_merge A) (fun s => f (a_out A s)).

Definition agg_pair {Row S1 S2 O} (A : aggregator Row S1 O) (B : aggregator Row S2 (list O))
  : aggregator Row (S1 * S2) (list O) :=
  mkAgg (a_init A, a_init B)
        (fun s r => (a_step A (fst s) r, a_step B (snd s) r))
        (fun s t => (a_merge A (fst s) (fst t), a_merge B (snd s) (snd t)))
        (fun s => a_out A (fst s) :: a_out B (snd s)).

Definition agg_nil {Row O} : aggregator Row unit (list O) :=
  mkAgg tt (fun _ _ => tt) (fun _ _ => tt) (fun _ => []).

(* an aggregator together with its state type *)
Record packed (Row O : Type) : Type := Pack { p_S : Type; p_agg : aggregator Row p_S O }.

Fixpoint all_S {Row O} (l : list (packed Row O)) : Type :=
  match l with [] => unit | p :: l' => (p_S p * all_S l')%type end.

(* the list of stats kept per group: [deepcopy(stat) for stat in self.stats], merged / evaluated position-wise *)
Fixpoint agg_all {Row O} (l : list (packed Row O)) : aggregator Row (all_S l) (list O) :=
  match l with
  | [] => agg_nil
  | p :: l' => agg_pair (p_agg p) (agg_all l')
  end.

(* pivot: one slot (a copy of the stats) per pivot value; a row only feeds the slot of its own pivot value *)
Section Pivot.
  Variables (Row P S O : Type).
  Variable peqb : P -> P -> bool.
  Variable pv_of : Row -> P.
  Variable pvs : list P.
  Variable A : aggregator Row S O.

  Fixpoint pv_step (ps : list P) (ss : list S) (r : Row) : list S :=
    match ps, ss with
    | p :: ps', s :: ss' => (if peqb (pv_of r) p then a_step A s r else s) :: pv_step ps' ss' r
    | _, _ => []
    end.

  Fixpoint pv_merge (ss ts : list S) : list S :=
    match ss, ts with
    | s :: ss', t :: ts' => a_merge A s t :: pv_merge ss' ts'
    | _, _ => []
    end.

  Definition agg_pivot : aggregator Row (list S) (list O) :=
    mkAgg (map (fun _ => a_init A) pvs) (pv_step pvs) pv_merge (map (a_out A)).
End Pivot.

(* ------------------------------------------------------------------------------------------------------------ *)
(** * 3. Values, ColumnStatHelper, and the aggregate classes *)

Fixpoint str_eqb (a b : list N) : bool :=
  match a, b with
  | [], [] => true
  | x :: a', y :: b' => N.eqb x y && str_eqb a' b'
  | _, _ => false
  end.

(* Python's < on str: lexicographic by code point *)
Fixpoint str_ltb (a b : list N) : bool :=
  match a, b with
  | _, [] => false
  | [], _ :: _ => true
  | x :: a', y :: b' => if N.ltb x y then true else if N.eqb x y then str_ltb a' b' else false
  end.

Section Values.
  Context {Ops : NumOps} {Q : NumSqrt Ops}.

  (* a Python number: int or float *)
  Inductive num := NI (z : Z) | NF (f : F).
  Definition num_F (a : num) : F := match a with NI z => fofZ z | NF f => f end.
  Definition num_add (a b : num) : num :=
    match a, b with
    | NI x, NI y => NI (x + y)
    | _, _ => NF (fadd (num_F a) (num_F b))
    end.
  Definition num_ltb (a b : num) : bool :=
    match a, b with
    | NI x, NI y => x <? y
    | _, _ => fltb (num_F a) (num_F b)
    end.
  Definition num_eqb (a b : num) : bool :=
    match a, b with
    | NI x, NI y => x =? y
    | NF x, NF y => feqb x y
    | _, _ => false       (* columns are homogeneous: an int never meets a float *)
    end.

  (* a cell of a row *)
  Inductive cell := CNull | CNum (n : num) | CStr (s : list N).
  Definition is_null (c : cell) : bool := match c with CNull => true | _ => false end.
  Definition cell_eqb (a b : cell) : bool :=
    match a, b with
    | CNull, CNull => true
    | CNum x, CNum y => num_eqb x y
    | CStr x, CStr y => str_eqb x y
    | _, _ => false
    end.
  Definition cell_ltb (a b : cell) : bool :=
    match a, b with
    | CNum x, CNum y => num_ltb x y
    | CStr x, CStr y => str_ltb x y
    | _, _ => false
    end.
  (* Python: min(a, b) is b if b < a else a;  max(a, b) is b if b > a else a *)
  Definition cell_min (a b : cell) : cell := if cell_ltb b a then b else a.
  Definition cell_max (a b : cell) : cell := if cell_ltb a b then b else a.

  Definition row := list cell.
  Definition col (i : nat) (r : row) : cell := nth i r CNull.

  Fixpoint list_eqb {X} (e : X -> X -> bool) (a b : list X) : bool :=
    match a, b with
    | [], [] => true
    | x :: a', y :: b' => e x y && list_eqb e a' b'
    | _, _ => false
    end.

  (** ** ColumnStatHelper (without the percentile sketch) *)
  Record csh := mkCsh {
    c_count : Z;
    c_ok : bool;        (* false = sum_of_values / m2 / m3 / m4 are None (a TypeError happened: string values) *)
    c_sum : num;
    c_m2 : F; c_m3 : F; c_m4 : F;
    c_min : cell; c_max : cell;
  }.
  Definition csh_init : csh := mkCsh 0 true (NI 0) (fofZ 0) (fofZ 0) (fofZ 0) CNull CNull.

  (* the `mean` property on a state with count <> 0 and sum_of_values not None *)
  Definition c_mean (s : csh) : F := csh_mean (num_F (c_sum s)) (c_count s).

  (* update_counters(value), value not None *)
  Definition csh_update (s : csh) (v : cell) : csh :=
    let mn := if negb (c_count s =? 0) then cell_min (c_min s) v else v in
    let mx := if negb (c_count s =? 0) then cell_max (c_max s) v else v in
    match v with
    | CNum x =>
        if c_ok s then
          let '(m2, m3, m4) := csh_update_moments (c_count s) (c_mean s) (c_m2 s) (c_m3 s) (c_m4 s) (num_F x) in
          mkCsh (c_count s + 1) true (num_add (c_sum s) x) m2 m3 m4 mn mx
        else mkCsh (c_count s + 1) false (c_sum s) (c_m2 s) (c_m3 s) (c_m4 s) mn mx
    | _ => (* str - float / int + str: TypeError, everything numeric becomes None *)
        mkCsh (c_count s + 1) false (c_sum s) (c_m2 s) (c_m3 s) (c_m4 s) mn mx
    end.

  (* ColumnStatHelper.merge(row): nulls are skipped *)
  Definition csh_step (s : csh) (v : cell) : csh := if is_null v then s else csh_update s v.

  (* ColumnStatHelper.mergeStats(other) *)
  Definition csh_merge (a b : csh) : csh :=
    let mx := if c_count a =? 0 then c_max b
              else if negb (c_count b =? 0) then cell_max (c_max a) (c_max b) else c_max a in
    let mn := if c_count a =? 0 then c_min b
              else if negb (c_count b =? 0) then cell_min (c_min a) (c_min b) else c_min a in
    if (c_count a =? 0) || (c_count b =? 0) then
      if c_count a =? 0
      then mkCsh (c_count a + c_count b) (c_ok b) (c_sum b) (c_m2 b) (c_m3 b) (c_m4 b) mn mx
      else mkCsh (c_count a + c_count b) (c_ok a) (c_sum a) (c_m2 a) (c_m3 a) (c_m4 a) mn mx
    else if c_ok a && c_ok b then
      let '(m2, m3, m4) := csh_merge_moments (c_count a) (c_mean a) (c_m2 a) (c_m3 a) (c_m4 a)
                                             (c_count b) (c_mean b) (c_m2 b) (c_m3 b) (c_m4 b) in
      mkCsh (c_count a + c_count b) true (num_add (c_sum a) (c_sum b)) m2 m3 m4 mn mx
    else mkCsh (c_count a + c_count b) false (c_sum a) (c_m2 a) (c_m3 a) (c_m4 a) mn mx.

  (* the read-out properties; CNull = None *)
  Definition cf (f : F) : cell := CNum (NF f).
  Definition csh_count (s : csh) : cell := CNum (NI (c_count s)).
  Definition csh_sum (s : csh) : cell :=
    if c_count s =? 0 then CNull else if c_ok s then CNum (c_sum s) else CNull.
  Definition csh_avg (s : csh) : cell :=
    if (c_count s =? 0) || negb (c_ok s) then CNull else cf (c_mean s).
  Definition csh_min (s : csh) : cell := if c_count s =? 0 then CNull else c_min s.
  Definition csh_max (s : csh) : cell := if c_count s =? 0 then CNull else c_max s.
  Definition csh_var_pop (s : csh) : cell :=
    if (c_count s =? 0) || negb (c_ok s) then CNull else cf (csh_variance_pop (c_m2 s) (c_count s)).
  Definition csh_var_samp (s : csh) : cell :=
    if (c_count s <=? 1) || negb (c_ok s) then CNull else cf (csh_variance_samp (c_m2 s) (c_count s)).
  Definition csh_std_pop (s : csh) : cell :=
    if (c_count s =? 0) || negb (c_ok s) then CNull
    else cf (csh_stddev_pop (csh_variance_pop (c_m2 s) (c_count s))).
  Definition csh_std_samp (s : csh) : cell :=
    if (c_count s <=? 1) || negb (c_ok s) then CNull
    else cf (csh_stddev_samp (csh_variance_samp (c_m2 s) (c_count s))).
  (* skewness / kurtosis of a string column raise TypeError in the implementation; not generated, CNull here *)
  Definition csh_skew (s : csh) : cell :=
    if c_count s =? 0 then CNull else if negb (c_ok s) then CNull
    else if feqb (c_m2 s) (fofZ 0) then cf fnan else cf (csh_skewness (c_count s) (c_m2 s) (c_m3 s)).
  Definition csh_kurt (s : csh) : cell :=
    if c_count s =? 0 then CNull else if negb (c_ok s) then CNull
    else if feqb (c_m2 s) (fofZ 0) then cf fnan else cf (csh_kurtosis (c_count s) (c_m2 s) (c_m4 s)).

  (* SimpleStatAggregation over a column expression [get] with read-out [outf] *)
  Definition stat_agg {Row O} (get : Row -> cell) (outf : csh -> O) : aggregator Row csh O :=
    mkAgg csh_init (fun s r => csh_step s (get r)) csh_merge outf.

  (** ** collectors, generic in the element type *)
  Section Collectors.
    Variables (Row E : Type).
    Variable eqb : E -> E -> bool.
    Variable get : Row -> option E.       (* None = the column evaluates to null for this row *)

    Definition set_add (l : list E) (x : E) : list E := if existsb (eqb x) l then l else l ++ [x].
    Definition set_union (a b : list E) : list E := fold_left set_add b a.

    (* CollectList: items.append(value) if not None; items += other.items *)
    Definition collect_list_agg : aggregator Row (list E) (list E) :=
      mkAgg [] (fun s r => match get r with Some x => s ++ [x] | None => s end) (fun a b => a ++ b) (fun s => s).

    (* CollectSet / CountDistinct / SumDistinct / ApproxCountDistinct: a Python set, here a duplicate-free list *)
    Definition set_agg {O} (outf : list E -> O) : aggregator Row (list E) O :=
      mkAgg [] (fun s r => match get r with Some x => set_add s x | None => s end) set_union outf.
  End Collectors.

  Section FirstLast.
    Variable Row : Type.
    Variable get : Row -> cell.
    Variable ign : bool.      (* ignore_nulls *)

    (* First: state None = the _NoValue sentinel *)
    Definition first_step (s : option cell) (r : Row) : option cell :=
      match s with
      | None => Some (get r)
      | Some v => if ign && is_null v then Some (get r) else s
      end.
    Definition first_merge (a b : option cell) : option cell :=
      match b with
      | None => a
      | Some _ => match a with
                  | None => b
                  | Some v => if ign && is_null v then b else a
                  end
      end.
    Definition first_agg : aggregator Row (option cell) cell :=
      mkAgg None first_step first_merge (fun s => match s with Some v => v | None => CNull end).

    (* Last (as repaired by cee87a5): state None = the _NoValue sentinel; merge(row) keeps the row's value unless
       (ignore_nulls and it is None); mergeStats ignores a partial that saw no row, otherwise takes other.value
       unless (ignore_nulls and it is None) *)
    Definition last_step (s : option cell) (r : Row) : option cell :=
      let v := get r in if ign && is_null v then s else Some v.
    Definition last_merge (a b : option cell) : option cell :=
      match b with
      | None => a
      | Some v => if ign && is_null v then a else b
      end.
    Definition last_agg : aggregator Row (option cell) cell :=
      mkAgg None last_step last_merge (fun s => match s with Some v => v | None => CNull end).
  End FirstLast.

  (** ** the aggregate functions of sql.functions over rows = lists of cells *)
  Inductive aggname :=
  | ACount | ACountStar | ASum | AAvg | AMin | AMax | AVarSamp | AVarPop | AStdSamp | AStdPop | ASkew | AKurt
  | ACollectList | ACollectSet | ACountDistinct | ASumDistinct | AFirst | AFirstIgn | ALast | ALastIgn.

  (* output of one aggregate: a cell or, for the collect aggregates, a list of cells *)
  Inductive oval := OCell (c : cell) | OList (l : list cell).

  Definition opt_cell (c : cell) : option cell := if is_null c then None else Some c.
  (* CountDistinct: the tuple of the columns, skipped if any of them is null *)
  Definition tuple_of (cols : list nat) (r : row) : option (list cell) :=
    let vs := map (fun i => col i r) cols in
    if existsb is_null vs then None else Some vs.
  Definition cell_num (c : cell) : num := match c with CNum n => n | _ => NI 0 end.
  (* sum(self.items) if self.items else None *)
  Definition sum_cells (l : list cell) : cell :=
    match l with [] => CNull | _ => CNum (fold_left (fun a c => num_add a (cell_num c)) l (NI 0)) end.

  Definition agg_of (a : aggname) (cols : list nat) : packed row oval :=
    let c := hd 0%nat cols in
    let stat outf := Pack (agg_map_out OCell (stat_agg (col c) outf)) in
    match a with
    | ACount => stat csh_count
    | ACountStar => Pack (agg_map_out OCell (stat_agg (fun _ : row => CNum (NI 1)) csh_count))
    | ASum => stat csh_sum
    | AAvg => stat csh_avg
    | AMin => stat csh_min
    | AMax => stat csh_max
    | AVarSamp => stat csh_var_samp
    | AVarPop => stat csh_var_pop
    | AStdSamp => stat csh_std_samp
    | AStdPop => stat csh_std_pop
    | ASkew => stat csh_skew
    | AKurt => stat csh_kurt
    | ACollectList => Pack (agg_map_out OList (collect_list_agg (fun r => opt_cell (col c r))))
    | ACollectSet => Pack (set_agg cell_eqb (fun r => opt_cell (col c r)) OList)
    | ACountDistinct =>
        Pack (set_agg (list_eqb cell_eqb) (tuple_of cols) (fun l => OCell (CNum (NI (Z.of_nat (length l))))))
    | ASumDistinct => Pack (set_agg cell_eqb (fun r => opt_cell (col c r)) (fun l => OCell (sum_cells l)))
    | AFirst => Pack (agg_map_out OCell (first_agg (col c) false))
    | AFirstIgn => Pack (agg_map_out OCell (first_agg (col c) true))
    | ALast => Pack (agg_map_out OCell (last_agg (col c) false))
    | ALastIgn => Pack (agg_map_out OCell (last_agg (col c) true))
    end.

  (** ** groupBy / rollup / cube / pivot *)
  (* a key position: Some c = the value (CNull for a null key), None = the GROUPED subtotal marker *)
  Definition gkey := list (option cell).
  Definition ocell_eqb (a b : option cell) : bool :=
    match a, b with
    | None, None => true
    | Some x, Some y => cell_eqb x y
    | _, _ => false
    end.
  Definition gkey_eqb : gkey -> gkey -> bool := list_eqb ocell_eqb.
  Definition key_of (keycols : list nat) (r : row) : gkey := map (fun i => Some (col i r)) keycols.

  Inductive gmode := GroupBy | Rollup | Cube.

  (* get_subtotal_keys *)
  Fixpoint rollup_keys (k : gkey) : list gkey :=
    (* [k[:i] + [GROUPED]*(n-i) for i in range(n+1)] *)
    match k with
    | [] => [[]]
    | x :: k' => (None :: map (fun _ => None) k') :: map (cons x) (rollup_keys k')
    end.
  Fixpoint cube_keys (k : gkey) : list gkey :=
    (* itertools.product([True, False], repeat=n): the first position varies slowest, True (GROUPED) first *)
    match k with
    | [] => [[]]
    | x :: k' => map (cons None) (cube_keys k') ++ map (cons x) (cube_keys k')
    end.
  Definition subkeys (m : gmode) (k : gkey) : list gkey :=
    match m with GroupBy => [k] | Rollup => rollup_keys k | Cube => cube_keys k end.

  (* sorted(collect_set(pivot_col)): insertion sort of the distinct non-null values *)
  Fixpoint insert_cell (x : cell) (l : list cell) : list cell :=
    match l with
    | [] => [x]
    | y :: l' => if cell_ltb y x then y :: insert_cell x l' else x :: l
    end.
  Definition sort_cells (l : list cell) : list cell := fold_right insert_cell [] l.
  Definition auto_pivot_values (pcol : nat) (rows : list row) : list cell :=
    sort_cells (fold_left (fun s r => match opt_cell (col pcol r) with Some x => set_add cell_eqb s x | None => s end)
                          rows []).

  (* the whole agg(): grouped states, subtotals, evaluation; result rows = (marked key, cells) *)
  Definition run_agg (m : gmode) (keycols : list nat) (pivot : option (nat * option (list cell)))
             (specs : list (aggname * list nat)) (parts : list (list row)) : list (gkey * list oval) :=
    let stats := agg_all (map (fun s => agg_of (fst s) (snd s)) specs) in
    match pivot with
    | None =>
        g_result stats (g_subtotals gkey_eqb stats (subkeys m) (g_aggregate gkey_eqb (key_of keycols) stats parts))
    | Some (pcol, vals) =>
        let pvs := match vals with Some l => l | None => auto_pivot_values pcol (concat parts) end in
        let A := agg_map_out (@concat oval) (agg_pivot cell_eqb (col pcol) pvs stats) in
        g_result A (g_subtotals gkey_eqb A (subkeys m) (g_aggregate gkey_eqb (key_of keycols) A parts))
    end.

  (** ** describe / summary(count, mean, stddev, min, max): RowStatHelper keeps one ColumnStatHelper per column,
      created when the first row is seen, adopted-or-merged per column name: the same driver with a constant key *)
  Definition describe_stats (cols : list nat) : aggregator row (all_S (map (fun c => Pack (stat_agg (col c) (fun s => s))) cols)) (list csh) :=
    agg_all (map (fun c => Pack (stat_agg (col c) (fun s => s))) cols).
  Definition csh_stddev (s : csh) : cell := if c_count s =? 0 then CNull else csh_std_samp s.
  Definition run_describe (cols : list nat) (parts : list (list row)) : list (list cell) :=
    let gs := g_result (describe_stats cols)
                       (g_aggregate (fun _ _ : unit => true) (fun _ => tt) (describe_stats cols) parts) in
    let hs := match gs with (_, l) :: _ => l | [] => [] end in
    map (fun outf => map outf hs) [csh_count; csh_avg; csh_stddev; csh_min; csh_max].
End Values.
