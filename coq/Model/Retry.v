(* Model of task retry, error surfacing and the job lock (property C04).

   What is modelled (pysparkling/context.py, rdd.py, task_context.py, as they are today):

   - [_run_task]: the attempt counter is incremented, the partition is computed from scratch,
     on an exception the counter is compared with max_retries ([retry_stop], regenerated from
     the source) and either the task's own exception is re-raised or the task is run again.
     The model recurses on a fuel; the job level supplies max_retries as fuel, which is enough
     for max_retries >= 1 (theorem) -- for max_retries <= 0 a permanently failing task makes
     the Python code recurse without bound and the model runs out of fuel.
   - fault plan of a partition: outcome of attempt 1, 2, ... ([None] = the user code does not
     raise, [Some f] = it raises exception class [f_exc f] at position [f_pos f]); attempts
     beyond the plan succeed.
   - operations a task performs on its own context while it runs (creating a dataset, running
     an action), evaluated against the context's lock flag with the regenerated tests of
     [RDD.__init__] and [Context.runJob]; an uncaught refusal is an ordinary task failure.
   - [Context.runJob]: refusal test, acquire, tasks + result handler inside try, release in
     finally ([lock_after_ok], [lock_after_error] regenerated from the finally body); local
     execution evaluates the partitions one after the other and stops at the first task that
     gives up, a pool evaluates all of them and reports the first failure in partition order.
   - a sequence of jobs on one context (the lock flag is the only state that survives a job).

   Definitions only; lemmas are in PV.Proofs.Retry. *)
From Coq Require Import String ZArith List Bool.
Require Import PV.Base.Val PV.Gen.Retry.
Import ListNotations.
Open Scope Z_scope.

(* exception classes: 0 ValueError, 1 KeyError, 2 TaskFault (the injected ones), 3 ContextIsLockedException *)
Definition E_LOCKED : Z := 3.

Record fault := mkFault { f_exc : Z; f_pos : Z }.   (* f_pos: 0 before the first element, 1 mid-partition, 2 after the last *)
Definition plan := list (option fault).

Inductive nkind := NCreate | NAction.
Record nop := mkNop { n_kind : nkind; n_caught : bool }.

(* one entry of the attempt log kept by the injected task function *)
Record arec := mkRec {
  a_no : Z;                (* attempt number, from 1 *)
  a_nest : list Z;         (* outcome of each nested operation performed: 0 refused, 1 accepted *)
  a_seen : list Z;         (* elements pulled from upstream during this attempt *)
  a_out : option Z         (* None = the attempt succeeded, Some e = it raised class e *)
}.

(* ---------- operations performed from inside a running task *)

(* accepted?, lock flag afterwards.  A refused operation leaves the flag alone (the refusal is
   raised before runJob's try/finally); an accepted nested action acquires and releases. *)
Definition nested_step (lk : bool) (n : nop) : bool * bool :=
  match n_kind n with
  | NCreate => if rdd_init_refused lk then (false, lk) else (true, lk)
  | NAction => if job_refused lk then (false, lk) else (true, lock_after_ok)
  end.

(* outcomes, "an uncaught ContextIsLockedException left the task function", lock flag afterwards *)
Fixpoint run_nested (lk : bool) (ns : list nop) : list Z * bool * bool :=
  match ns with
  | [] => ([], false, lk)
  | n :: rest =>
      let '(acc, lk1) := nested_step lk n in
      if acc then let '(o, r, lk2) := run_nested lk1 rest in (1 :: o, r, lk2)
      else if n_caught n then let '(o, r, lk2) := run_nested lk1 rest in (0 :: o, r, lk2)
      else ([0], true, lk1)
  end.

(* ---------- one attempt *)

Definition seen_of (pos : Z) (xs : list Z) : list Z :=
  if pos =? 0 then [] else if pos =? 1 then firstn (Nat.div2 (length xs)) xs else xs.

Definition attempt (lk : bool) (ns : list nop) (xs : list Z) (f : option fault) (a : Z) : arec * bool :=
  let '(o, raised, lk1) := run_nested lk ns in
  if raised then (mkRec a o [] (Some E_LOCKED), lk1)
  else match f with
       | None => (mkRec a o xs None, lk1)
       | Some ft => (mkRec a o (seen_of (f_pos ft) xs) (Some (f_exc ft)), lk1)
       end.

(* ---------- _run_task *)

(* TOk ys: the successful attempt handed [ys] downstream (the partial output of a failed attempt is
   dropped together with the consumer that was collecting it) *)
Inductive tres := TOk (ys : list Z) | TErr (exc : Z) (attempts : Z) | TFuel.

Fixpoint run_task (fuel : nat) (maxr : Z) (lk : bool) (ns : list nop) (xs : list Z) (pl : plan)
         (attempt_number : Z) : tres * list arec * bool :=
  match fuel with
  | O => (TFuel, [], lk)
  | S fuel' =>
      let a := attempt_next attempt_number in
      let '(r, lk1) := attempt lk ns xs (hd None pl) a in
      match a_out r with
      | None => (TOk (a_seen r), [r], lk1)
      | Some e =>
          if retry_stop a maxr && retry_reraise false      (* catch_exceptions = False *)
          then (TErr e a, [r], lk1)
          else let '(t, log, lk2) := run_task fuel' maxr lk1 ns xs (tl pl) a in (t, r :: log, lk2)
      end
  end.

Definition is_some {A} (o : option A) : bool := match o with Some _ => true | None => false end.

(* ---------- lineage ops (twin of OPS in py/c04.py): partition-wise functions on the elements *)

Definition op_apply (c : Z) (xs : list Z) : list Z :=
  match c with
  | 1 => map (fun x => x + 1) xs
  | 2 => map (fun x => x * 2) xs
  | 3 => map Z.opp xs
  | 4 => filter (fun x => x mod 2 =? 0) xs
  | 5 => flat_map (fun x => [x; x + 10]) xs
  | 10 => map (fun x => x + 1) xs
  | _ => xs            (* 6 mapPartitions(list), 7 glom+flatten, 8 persist, 9 cache, 11 sample(1.0), 12 identity *)
  end.
Definition apply_ops (ops : list Z) (xs : list Z) : list Z := fold_left (fun acc c => op_apply c acc) ops xs.
Definition op_persist (c : Z) : bool := (c =? 8) || (c =? 9).
(* ops that pull their whole input while the partition is computed (inside _run_task's try) *)
Definition op_materialises (c : Z) : bool := (c =? 6) || (c =? 7) || (c =? 8) || (c =? 9).

(* ---------- jobs *)

(* p_cache: what the cache manager holds for this partition of the persisted dataset(s) above the injected
   stage (recorded as the output of the injected stage from which it was computed);
   p_calls: how often the injected function was called on this partition by earlier jobs (numbering only) *)
Record part := mkPart { p_data : list Z; p_plan : plan; p_nest : list nop;
                        p_cache : option (list Z); p_calls : nat }.
(* j_eager: the injected task function computes its whole output when the partition is computed
   (True) or is a generator that runs when it is consumed (False); irrelevant to actions that evaluate
   whole partitions, decisive for take/first/isEmpty *)
Record job := mkJob { j_action : Z; j_eager : bool; j_pre : list Z; j_post : list Z; j_parts : list part }.

(* classes of job-triggering methods (twin of ACTIONS in py/c04.py):
   0 whole partitions, tasks run while runJob holds the lock;
   1 whole partitions through toLocalIterator(): tasks run when the returned generator is consumed;
   2 lazy: take(n), first(), isEmpty() *)
Definition act_class (a : Z) : Z :=
  if (9 <=? a) && (a <=? 16) then 2
  else if (a =? 32) || ((39 <=? a) && (a <=? 52)) then 1 else 0.

Definition act_kind (a : Z) : Z :=
  match a with
  | 0 => 0 | 1 => 1 | 2 => 2 | 3 => 2 | 4 => 2 | 5 => 3 | 6 => 4 | 7 => 4 | 8 => 5 | 17 => 2 | 18 => 2 | 19 => 1
  | 20 => 2 | 21 => 8 | 22 => 9 | 23 => 15 | 24 => 5 | 25 => 6 | 26 => 1 | 27 => 7 | 28 => 11 | 29 => 12 | 30 => 13
  | 31 => 14 | 32 => 14 | 33 => 0 | 34 => 0 | 35 => 0 | 36 => 7 | 37 => 17 | 38 => 7 | 39 => 0 | 40 => 8 | 41 => 19
  | 42 => 16 | 43 => 0 | 44 => 0 | 45 => 10 | 46 => 8 | 47 => 0 | 48 => 19 | 49 => 7 | 50 => 0 | 51 => 18 | 52 => 7
  | _ => -1
  end.

Definition zsum (xs : list Z) : Z := fold_left Z.add xs 0.
Fixpoint zinsert (x : Z) (l : list Z) : list Z :=
  match l with [] => [x] | y :: r => if x <=? y then x :: l else y :: zinsert x r end.
Definition zsort (l : list Z) : list Z := fold_right zinsert [] l.
Fixpoint zdedup (l : list Z) : list Z :=      (* adjacent duplicates of a sorted list *)
  match l with
  | x :: ((y :: _) as r) => if x =? y then zdedup r else x :: zdedup r
  | _ => l
  end.
Definition zcount (v : Z) (l : list Z) : Z := Z.of_nat (length (filter (Z.eqb v) l)).
Fixpoint indexed (i : Z) (l : list Z) : list val :=
  match l with [] => [] | x :: r => VTup [VInt x; VInt i] :: indexed (i + 1) r end.
Definition by_mod3 (f : list Z -> val) (xs : list Z) : val :=
  VList (flat_map (fun k => match filter (fun x => x mod 3 =? k) xs with
                            | [] => []
                            | g => [VTup [VInt k; f g]]
                            end) [0; 1; 2]).

(* the canonical value of a whole-partition method on fault-free partition outputs (twin of KIND) *)
Definition kind_result (k : Z) (pss : list (list Z)) : val :=
  let xs := concat pss in
  match k with
  | 0 => vints xs
  | 1 => VInt (Z.of_nat (length xs))
  | 2 => VInt (zsum xs)
  | 3 => VTup [VInt (zsum xs); VInt (Z.of_nat (length xs))]
  | 4 => VNone
  | 5 => match xs with [] => VBad | x :: r => VInt (fold_left Z.max r x) end
  | 6 => match xs with [] => VBad | x :: r => VInt (fold_left Z.min r x) end
  | 7 => vints (zsort xs)
  | 8 => vints (zdedup (zsort xs))
  | 9 => VList (map (fun v => VTup [VInt v; VInt (zcount v xs)]) (zdedup (zsort xs)))
  | 10 => VInt (Z.of_nat (length (zdedup (zsort xs))))
  | 11 => vints (firstn 2 (rev (zsort xs)))
  | 12 => vints (firstn 2 (zsort xs))
  | 13 => vints (filter (fun x => x mod 3 =? 1) xs)
  | 14 => by_mod3 (fun g => VInt (zsum g)) xs
  | 15 => by_mod3 (fun g => VInt (Z.of_nat (length g))) xs
  | 16 => by_mod3 vints xs
  | 17 => VList (map vints pss)
  | 18 => vints [Z.of_nat (length (filter (fun x => x <? 0) xs)); Z.of_nat (length (filter (fun x => 0 <=? x) xs))]
  | 19 => VList (indexed 0 xs)
  | _ => VBad
  end.
Definition act_result (a : Z) (pss : list (list Z)) : val := kind_result (act_kind a) pss.

(* input of the injected stage / output of the whole pipeline for one partition, without faults *)
Definition stage_in (j : job) (p : part) : list Z := apply_ops (j_pre j) (p_data p).
Definition plain_parts (j : job) : list (list Z) :=
  map (fun p => apply_ops (j_post j) (stage_in j p)) (j_parts j).
Definition plain_result (j : job) : val := act_result (j_action j) (plain_parts j).

(* a persisted dataset above the injected stage serves the partition from the cache *)
Definition persist_above (j : job) : bool := existsb op_persist (j_post j).
Definition cached (j : job) (p : part) : option (list Z) := if persist_above j then p_cache p else None.

(* the task of one partition: PersistedRDD.compute returns the cached list without computing anything
   below it; otherwise _run_task *)
Definition part_task (fuel : nat) (maxr : Z) (lk : bool) (j : job) (p : part) : tres * list arec * bool :=
  match cached j p with
  | Some c => (TOk c, [], lk)
  | None => run_task fuel maxr lk (p_nest p) (stage_in j p) (p_plan p) 0
  end.

Inductive jres :=
| JOk (v : val)                        (* the action returns v *)
| JErr (exc : Z) (idx : Z) (attempts : Z)   (* the caller receives the exception raised by partition idx *)
| JRefused                             (* ContextIsLockedException at the driver *)
| JFuel.

(* what the result handler sees *)
Inductive kres := KOk (outs : list (list Z)) | KErr (exc : Z) (idx : Z) (attempts : Z) | KFuel.

Definition no_logs (ps : list part) : list (list arec) := map (fun _ => []) ps.

(* DummyPool: a generator over the partitions, consumed by the result handler; the first task that
   gives up aborts the job and the remaining partitions are never started *)
Fixpoint tasks_local (fuel : nat) (maxr : Z) (lk : bool) (j : job) (idx : Z) (ps : list part)
  : kres * list (list arec) * bool :=
  match ps with
  | [] => (KOk [], [], lk)
  | p :: rest =>
      let '(t, log, lk1) := part_task fuel maxr lk j p in
      match t with
      | TOk ys =>
          let '(r, logs, lk2) := tasks_local fuel maxr lk1 j (idx + 1) rest in
          (match r with KOk outs => KOk (ys :: outs) | _ => r end, log :: logs, lk2)
      | TErr e a => (KErr e idx a, log :: no_logs rest, lk1)
      | TFuel => (KFuel, log :: no_logs rest, lk1)
      end
  end.

(* pool.map: every task runs to its own conclusion; results are consumed in partition order, so the
   caller sees the failure of the first failing partition *)
Fixpoint tasks_pooled (fuel : nat) (maxr : Z) (lk : bool) (j : job) (idx : Z) (ps : list part)
  : kres * list (list arec) * bool :=
  match ps with
  | [] => (KOk [], [], lk)
  | p :: rest =>
      let '(t, log, lk1) := part_task fuel maxr lk j p in
      let '(r, logs, lk2) := tasks_pooled fuel maxr lk1 j (idx + 1) rest in
      (match t with
       | TOk ys => match r with KOk outs => KOk (ys :: outs) | _ => r end
       | TErr e a => KErr e idx a
       | TFuel => KFuel
       end, log :: logs, lk2)
  end.

Definition tasks_of (mode : Z) := if mode =? 0 then tasks_local else tasks_pooled.

Record outcome := mkOut { o_res : jres; o_logs : list (list arec) }.

(* the rest of the pipeline and the action, applied to what the tasks returned *)
Definition finish (j : job) (r : kres) : jres :=
  match r with
  | KOk outs => JOk (act_result (j_action j) (map (apply_ops (j_post j)) outs))
  | KErr e i a => JErr e i a
  | KFuel => JFuel
  end.

(* the lock flag that the tasks of a whole-partition job see.  If toLocalIterator() handed the caller a
   generator over the task results ([tli_deferred], regenerated from its source), runJob would have returned
   and released the lock before the first task starts; since /repo e07529e it evaluates the partitions inside
   runJob and [tli_deferred] is false *)
Definition held_of (a : Z) : bool :=
  if (act_class a =? 1) && tli_deferred then lock_after_ok else lock_on_entry.

(* one driver-level job on a context whose lock flag is [lk]: create the datasets (RDD.__init__),
   then the action (Context.runJob).  mode 0 = DummyPool, otherwise a pool. *)
Definition run_job (mode : Z) (maxr : Z) (lk : bool) (j : job) : outcome * bool :=
  if rdd_init_refused lk then (mkOut JRefused (no_logs (j_parts j)), lk)
  else if job_refused lk then (mkOut JRefused (no_logs (j_parts j)), lk)
  else
    let '(r, logs, lk2) :=
      tasks_of mode (Z.to_nat maxr) maxr (held_of (j_action j)) j 0 (j_parts j) in
    (mkOut (finish j r) logs,
     if (act_class (j_action j) =? 1) && tli_deferred then lk2     (* nothing holds or releases the lock any more *)
     else match r with KOk _ => lock_after_ok | _ => lock_after_error end).

(* ---------- the lazily evaluated actions take(n), first(), isEmpty()

   runJob(..., lambda tc, i: i, allowLocal=True, resultHandler = islice(chain(...), n)): always the local
   path; a partition is computed only when the result handler asks for its first element, and its
   elements are pulled one by one.  If the task function is a generator, nothing of it runs inside
   _run_task's try: its first error reaches the caller directly, without retry.  If it is eager, the
   error happens while the partition is computed and the ordinary retry applies. *)
Definition E_STOP : Z := 5.          (* StopIteration: first() of an empty dataset *)
Definition E_SUSPENDED : Z := -2.    (* log entry of a generator that was neither finished nor failed *)

Definition is_lazy (a : Z) : bool := act_class a =? 2.
Definition lazy_need (a : Z) : nat := if a <=? 14 then Z.to_nat (a - 9) else 1%nat.
(* the injected stage runs while the partition is computed (inside _run_task's try) when it is eager itself
   or something above it pulls the whole partition at once *)
Definition lazy_eager (j : job) : bool := j_eager j || existsb op_materialises (j_post j).

Inductive lres := LOk (got : list Z) | LErr (exc : Z) (idx : Z) (attempts : Z) | LFuel.

Definition lcons (ys : list Z) (r : lres) : lres := match r with LOk got => LOk (ys ++ got) | _ => r end.

Fixpoint lazy_tasks (fuel : nat) (maxr : Z) (lk : bool) (j : job) (idx : Z) (need : nat) (ps : list part)
  : lres * list (list arec) * bool :=
  match ps with
  | [] => (LOk [], [], lk)
  | p :: rest =>
      match need with
      | O => (LOk [], no_logs ps, lk)
      | S _ =>
          let xs := stage_in j p in
          if lazy_eager j then
            let '(t, log, lk1) := part_task fuel maxr lk j p in
            match t with
            | TOk ys =>
                if (need <=? length ys)%nat then (LOk (firstn need ys), log :: no_logs rest, lk1)
                else let '(r, logs, lk2) := lazy_tasks fuel maxr lk1 j (idx + 1) (need - length ys) rest in
                     (lcons ys r, log :: logs, lk2)
            | TErr e a => (LErr e idx a, log :: no_logs rest, lk1)
            | TFuel => (LFuel, log :: no_logs rest, lk1)
            end
          else
            let '(o, raised, lk1) := run_nested lk (p_nest p) in
            if raised then (LErr E_LOCKED idx 1, [mkRec 1 o [] (Some E_LOCKED)] :: no_logs rest, lk1)
            else
              let f := hd None (p_plan p) in
              let avail := match f with None => xs | Some ft => seen_of (f_pos ft) xs end in
              if (need <=? length avail)%nat
              then (LOk (firstn need avail), [mkRec 1 o (firstn need avail) (Some E_SUSPENDED)] :: no_logs rest, lk1)
              else match f with
                   | Some ft => (LErr (f_exc ft) idx 1, [mkRec 1 o avail (Some (f_exc ft))] :: no_logs rest, lk1)
                   | None =>
                       let '(r, logs, lk2) := lazy_tasks fuel maxr lk1 j (idx + 1) (need - length xs) rest in
                       (lcons xs r, [mkRec 1 o xs None] :: logs, lk2)
                   end
      end
  end.

Definition lazy_finish (j : job) (r : lres) : jres :=
  match r with
  | LOk got =>
      let out := apply_ops (j_post j) got in
      if j_action j <=? 14 then JOk (vints out)
      else if j_action j =? 15 then match out with x :: _ => JOk (VInt x) | [] => JErr E_STOP 0 0 end
      else JOk (VBool (match out with [] => true | _ => false end))
  | LErr e i a => JErr e i a
  | LFuel => JFuel
  end.

Definition run_lazy_job (maxr : Z) (lk : bool) (j : job) : outcome * bool :=
  if rdd_init_refused lk then (mkOut JRefused (no_logs (j_parts j)), lk)
  else if job_refused lk then (mkOut JRefused (no_logs (j_parts j)), lk)
  else
    let '(r, logs, _) := lazy_tasks (Z.to_nat maxr) maxr lock_on_entry j 0 (lazy_need (j_action j)) (j_parts j) in
    let res := lazy_finish j r in
    (mkOut res logs, match res with JOk _ => lock_after_ok | _ => lock_after_error end).

(* any job *)
Definition run_any (mode : Z) (maxr : Z) (lk : bool) (j : job) : outcome * bool :=
  if is_lazy (j_action j) then run_lazy_job maxr lk j else run_job mode maxr lk j.

(* ---------- what a job leaves behind in its dataset: the calls of the injected function that were used up
   and, for persisted datasets above the injected stage, the partitions that were materialised by a
   successful attempt and handed to the driver (all partitions before the first failing one) *)
Definition last_rec (log : list arec) : option arec := match rev log with r :: _ => Some r | [] => None end.
Definition task_success (log : list arec) : option (list Z) :=
  match last_rec log with
  | Some r => match a_out r with None => Some (a_seen r) | Some _ => None end
  | None => None
  end.
Definition log_failed (log : list arec) : bool :=
  match last_rec log with
  | Some r => match a_out r with Some e => negb (e =? E_SUSPENDED) | None => false end
  | None => false
  end.

Fixpoint after_parts (j : job) (failed_before : bool) (ps : list part) (logs : list (list arec)) : list part :=
  match ps, logs with
  | p :: ps', log :: logs' =>
      mkPart (p_data p) (skipn (length log) (p_plan p)) (p_nest p)
             (match task_success log with
              | Some ys => if persist_above j && negb failed_before then Some ys else p_cache p
              | None => p_cache p
              end)
             (p_calls p + length log)
        :: after_parts j (failed_before || log_failed log) ps' logs'
  | _, _ => []
  end.

Definition after_job (j : job) (o : outcome) : job :=
  mkJob (j_action j) (j_eager j) (j_pre j) (j_post j) (after_parts j false (j_parts j) (o_logs o)).

(* a request: a job description and whether it runs on the dataset object of the previous job (then only its
   action and its ops, appended above the previous ones, count) *)
Record jobreq := mkReq { r_job : job; r_reuse : bool }.

Definition resolve (prev : option (Z * job)) (idx : Z) (rq : jobreq) : Z * job :=
  match r_reuse rq, prev with
  | true, Some (origin, pj) =>
      (origin, mkJob (j_action (r_job rq)) (j_eager pj) (j_pre pj) (j_post pj ++ j_post (r_job rq)) (j_parts pj))
  | _, _ => (idx, r_job rq)
  end.

(* a sequence of jobs on one context: (index of the job that created the dataset, the job as run, outcome) *)
Fixpoint run_jobs (mode : Z) (maxr : Z) (lk : bool) (prev : option (Z * job)) (idx : Z) (rqs : list jobreq)
  : list (Z * job * outcome) * bool :=
  match rqs with
  | [] => ([], lk)
  | rq :: rest =>
      let '(origin, j) := resolve prev idx rq in
      let '(o, lk1) := run_any mode maxr lk j in
      let '(os, lk2) := run_jobs mode maxr lk1 (Some (origin, after_job j o)) (idx + 1) rest in
      ((origin, j, o) :: os, lk2)
  end.

(* ---------- vocabulary of the statements in Properties/C04.v *)

(* some nested operation lets its ContextIsLockedException escape *)
Definition uncaught (ns : list nop) : bool := existsb (fun n => negb (n_caught n)) ns.

(* the exception class with which attempt i+1 (i from 0) of a task ends; [held] = the job lock is held
   while the task runs *)
Definition att_exc (held : bool) (ns : list nop) (pl : plan) (i : nat) : option Z :=
  if held && uncaught ns then Some E_LOCKED else option_map f_exc (nth i pl None).

(* the first max_retries attempts of the partition all fail (a partition served from the cache never does) *)
Definition exhausts (held : bool) (maxr : Z) (j : job) (p : part) : bool :=
  match cached j p with
  | Some _ => false
  | None => forallb (fun i => is_some (att_exc held (p_nest p) (p_plan p) i)) (seq 0 (Z.to_nat maxr))
  end.

(* the log entry of attempt i+1 of a task: computed from the same input [xs] whatever happened in the
   earlier attempts *)
Definition rec_of (held : bool) (ns : list nop) (xs : list Z) (pl : plan) (i : nat) : arec :=
  fst (attempt held ns xs (nth i pl None) (Z.of_nat i + 1)).

(* what the attempt log records for the nested operations of one attempt under the lock: a refusal
   for every operation up to and including the first one whose exception is not caught *)
Fixpoint refusals (ns : list nop) : list Z :=
  match ns with
  | [] => []
  | n :: rest => 0 :: (if n_caught n then refusals rest else [])
  end.
(* ... and while the lock is free: every operation is accepted *)
Definition nest_outcomes (held : bool) (ns : list nop) : list Z :=
  if held then refusals ns else map (fun _ => 1) ns.

(* the log of attempts 1..n *)
Definition task_log (held : bool) (ns : list nop) (xs : list Z) (pl : plan) (n : nat) : list arec :=
  map (rec_of held ns xs pl) (seq 0 n).

(* the complete attempt log of one task: nothing for a partition served from the cache; otherwise attempts
   1..n, each computed from scratch; all but the last failed; the last one succeeded or was the
   max_retries-th *)
Definition task_log_ok (held : bool) (maxr : Z) (j : job) (p : part) (log : list arec) : Prop :=
  match cached j p with
  | Some _ => log = []
  | None =>
      exists n, log = task_log held (p_nest p) (stage_in j p) (p_plan p) n /\ (1 <= n)%nat /\ Z.of_nat n <= maxr /\
                (forall i, (i < n - 1)%nat -> att_exc held (p_nest p) (p_plan p) i <> None) /\
                (att_exc held (p_nest p) (p_plan p) (n - 1) = None \/ Z.of_nat n = maxr)
  end.

(* every partition has a successful attempt among its first max_retries attempts *)
Definition all_ok (held : bool) (maxr : Z) (j : job) (ps : list part) : bool :=
  forallb (fun p => negb (exhausts held maxr j p)) ps.

(* logs of a failing job whose first exhausting partition is p (parts = pre ++ p :: post): locally the
   partitions after p are never started; on a pool every partition runs to its own conclusion *)
Definition logs_ok (mode : Z) (held : bool) (maxr : Z) (j : job) (pre : list part) (p : part) (post : list part)
           (logs : list (list arec)) : Prop :=
  if mode =? 0
  then exists lpre, logs = lpre ++ task_log held (p_nest p) (stage_in j p) (p_plan p) (Z.to_nat maxr) :: no_logs post
                    /\ Forall2 (task_log_ok held maxr j) pre lpre
  else Forall2 (task_log_ok held maxr j) (pre ++ p :: post) logs
       /\ nth (length pre) logs [] = task_log held (p_nest p) (stage_in j p) (p_plan p) (Z.to_nat maxr).

(* every nested operation recorded in the logs was refused *)
Definition nested_all_refused (logs : list (list arec)) : Prop :=
  Forall (Forall (fun r => Forall (fun o => o = 0) (a_nest r))) logs.

(* what the cache manager holds for a partition is the fault-free output of the injected stage *)
Definition cache_sound (j : job) : Prop :=
  Forall (fun p => forall c, p_cache p = Some c -> c = stage_in j p) (j_parts j).

(* the property, clause by clause, for one whole-partition job and its outcome: the fault-free result when
   every partition succeeds within the budget; otherwise the exception of the first exhausting partition,
   raised by its attempt number max_retries, with the logs described by [logs_ok]; every nested operation
   refused -- when the tasks run while the lock is held *)
Definition job_spec (mode maxr : Z) (j : job) (o : outcome) : Prop :=
  let held := held_of (j_action j) in
  (all_ok held maxr j (j_parts j) = true -> o_res o = JOk (plain_result j)) /\
  (forall pre p post e, j_parts j = pre ++ p :: post -> all_ok held maxr j pre = true -> exhausts held maxr j p = true ->
     att_exc held (p_nest p) (p_plan p) (Z.to_nat maxr - 1) = Some e ->
     o_res o = JErr e (Z.of_nat (length pre)) maxr /\ logs_ok mode held maxr j pre p post (o_logs o)) /\
  (held = true -> nested_all_refused (o_logs o)).
