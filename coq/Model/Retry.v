(* Model of task retry, error surfacing and the job lock (property C04).

   What is modelled (pysparkling/context.py, rdd.py, task_context.py, as they are today):

   - [_run_task]: the attempt counter is incremented, the partition is computed from scratch,
     on an exception the counter is compared with max_retries ([retry_stop], regenerated from
     the source) and either the task's own exception is re-raised or the task is run again.
     The model recurses on a fuel; the job level supplies max_retries as fuel, which is enough
     for max_retries >= 1 (theorem) -- for max_retries <= 0 a permanently failing task makes
     the Python code recurse without bound and the model runs out of fuel.
   - fault plan of a partition: outcome of attempt 1, 2, ... ([None] = the user code does not
     raise, [Some f] = it raises exception class [f_exc f] at position [f_pos f]); attempts
     beyond the plan succeed.
   - operations a task performs on its own context while it runs (creating a dataset, running
     an action), evaluated against the context's lock flag with the regenerated tests of
     [RDD.__init__] and [Context.runJob]; an uncaught refusal is an ordinary task failure.
   - [Context.runJob]: refusal test, acquire, tasks + result handler inside try, release in
     finally ([lock_after_ok], [lock_after_error] regenerated from the finally body); local
     execution evaluates the partitions one after the other and stops at the first task that
     gives up, a pool evaluates all of them and reports the first failure in partition order.
   - a sequence of jobs on one context (the lock flag is the only state that survives a job).

   Definitions only; lemmas are in PV.Proofs.Retry. *)
From Coq Require Import String ZArith List Bool.
Require Import PV.Base.Val PV.Gen.Retry.
Import ListNotations.
Open Scope Z_scope.

(* exception classes: 0 ValueError, 1 KeyError, 2 TaskFault (the injected ones), 3 ContextIsLockedException *)
Definition E_LOCKED : Z := 3.

Record fault := mkFault { f_exc : Z; f_pos : Z }.   (* f_pos: 0 before the first element, 1 mid-partition, 2 after the last *)
Definition plan := list (option fault).

Inductive nkind := NCreate | NAction.
Record nop := mkNop { n_kind : nkind; n_caught : bool }.

(* one entry of the attempt log kept by the injected task function *)
Record arec := mkRec {
  a_no : Z;                (* attempt number, from 1 *)
  a_nest : list Z;         (* outcome of each nested operation performed: 0 refused, 1 accepted *)
  a_seen : list Z;         (* elements pulled from upstream during this attempt *)
  a_out : option Z         (* None = the attempt succeeded, Some e = it raised class e *)
}.

(* ---------- operations performed from inside a running task *)

(* accepted?, lock flag afterwards.  A refused operation leaves the flag alone (the refusal is
   raised before runJob's try/finally); an accepted nested action acquires and releases. *)
Definition nested_step (lk : bool) (n : nop) : bool * bool :=
  match n_kind n with
  | NCreate => if rdd_init_refused lk then (false, lk) else (true, lk)
  | NAction => if job_refused lk then (false, lk) else (true, lock_after_ok)
  end.

(* outcomes, "an uncaught ContextIsLockedException left the task function", lock flag afterwards *)
Fixpoint run_nested (lk : bool) (ns : list nop) : list Z * bool * bool :=
  match ns with
  | [] => ([], false, lk)
  | n :: rest =>
      let '(acc, lk1) := nested_step lk n in
      if acc then let '(o, r, lk2) := run_nested lk1 rest in (1 :: o, r, lk2)
      else if n_caught n then let '(o, r, lk2) := run_nested lk1 rest in (0 :: o, r, lk2)
      else ([0], true, lk1)
  end.

(* ---------- one attempt *)

Definition seen_of (pos : Z) (xs : list Z) : list Z :=
  if pos =? 0 then [] else if pos =? 1 then firstn (Nat.div2 (length xs)) xs else xs.

Definition attempt (lk : bool) (ns : list nop) (xs : list Z) (f : option fault) (a : Z) : arec * bool :=
  let '(o, raised, lk1) := run_nested lk ns in
  if raised then (mkRec a o [] (Some E_LOCKED), lk1)
  else match f with
       | None => (mkRec a o xs None, lk1)
       | Some ft => (mkRec a o (seen_of (f_pos ft) xs) (Some (f_exc ft)), lk1)
       end.

(* ---------- _run_task *)

(* TOk ys: the successful attempt handed [ys] downstream (the partial output of a failed attempt is
   dropped together with the consumer that was collecting it) *)
Inductive tres := TOk (ys : list Z) | TErr (exc : Z) (attempts : Z) | TFuel.

Fixpoint run_task (fuel : nat) (maxr : Z) (lk : bool) (ns : list nop) (xs : list Z) (pl : plan)
         (attempt_number : Z) : tres * list arec * bool :=
  match fuel with
  | O => (TFuel, [], lk)
  | S fuel' =>
      let a := attempt_next attempt_number in
      let '(r, lk1) := attempt lk ns xs (hd None pl) a in
      match a_out r with
      | None => (TOk (a_seen r), [r], lk1)
      | Some e =>
          if retry_stop a maxr && retry_reraise false      (* catch_exceptions = False *)
          then (TErr e a, [r], lk1)
          else let '(t, log, lk2) := run_task fuel' maxr lk1 ns xs (tl pl) a in (t, r :: log, lk2)
      end
  end.

(* ---------- jobs *)

Record part := mkPart { p_data : list Z; p_plan : plan; p_nest : list nop }.
(* j_eager: the injected task function computes its whole output when the partition is computed
   (True) or is a generator that runs when it is consumed (False); irrelevant to actions that evaluate
   whole partitions, decisive for take/first/isEmpty *)
Record job := mkJob { j_action : Z; j_eager : bool; j_pre : Z; j_post : Z; j_parts : list part }.

(* the function library of the harness (py/c04.py FUNCS) *)
Definition fn (c : Z) (x : Z) : Z :=
  match c with 1 => x + 1 | 2 => x * 2 | 3 => - x | _ => x end.

Definition zsum (xs : list Z) : Z := fold_left Z.add xs 0.
Definition zmax (xs : list Z) : val :=
  match xs with [] => VErr "ValueError" | x :: r => VInt (fold_left Z.max r x) end.

(* the result of an action on fault-free partition outputs (py/c04.py do_action) *)
Definition act_result (a : Z) (pss : list (list Z)) : val :=
  let xs := concat pss in
  match a with
  | 0 => vints xs
  | 1 => VInt (Z.of_nat (length xs))
  | 2 => VInt (zsum xs)
  | 3 => match xs with [] => VErr "ValueError" | _ => VInt (zsum xs) end
  | 4 => VInt (zsum xs)
  | 5 => VTup [VInt (zsum xs); VInt (Z.of_nat (length xs))]
  | 6 => VNone
  | 7 => VNone
  | 8 => zmax xs
  | _ => VBad
  end.

(* input of the injected stage / output of the whole pipeline for one partition, without faults *)
Definition stage_in (j : job) (p : part) : list Z := map (fn (j_pre j)) (p_data p).
Definition plain_parts (j : job) : list (list Z) :=
  map (fun p => map (fn (j_post j)) (stage_in j p)) (j_parts j).
Definition plain_result (j : job) : val := act_result (j_action j) (plain_parts j).

Inductive jres :=
| JOk (v : val)                        (* the action returns v *)
| JErr (exc : Z) (idx : Z) (attempts : Z)   (* the caller receives the exception raised by partition idx *)
| JRefused                             (* ContextIsLockedException at the driver *)
| JFuel.

(* what the result handler sees *)
Inductive kres := KOk (outs : list (list Z)) | KErr (exc : Z) (idx : Z) (attempts : Z) | KFuel.

Definition no_logs (ps : list part) : list (list arec) := map (fun _ => []) ps.

(* DummyPool: a generator over the partitions, consumed by the result handler; the first task that
   gives up aborts the job and the remaining partitions are never started *)
Fixpoint tasks_local (fuel : nat) (maxr : Z) (lk : bool) (j : job) (idx : Z) (ps : list part)
  : kres * list (list arec) * bool :=
  match ps with
  | [] => (KOk [], [], lk)
  | p :: rest =>
      let '(t, log, lk1) := run_task fuel maxr lk (p_nest p) (stage_in j p) (p_plan p) 0 in
      match t with
      | TOk ys =>
          let '(r, logs, lk2) := tasks_local fuel maxr lk1 j (idx + 1) rest in
          (match r with KOk outs => KOk (ys :: outs) | _ => r end, log :: logs, lk2)
      | TErr e a => (KErr e idx a, log :: no_logs rest, lk1)
      | TFuel => (KFuel, log :: no_logs rest, lk1)
      end
  end.

(* pool.map: every task runs to its own conclusion; results are consumed in partition order, so the
   caller sees the failure of the first failing partition *)
Fixpoint tasks_pooled (fuel : nat) (maxr : Z) (lk : bool) (j : job) (idx : Z) (ps : list part)
  : kres * list (list arec) * bool :=
  match ps with
  | [] => (KOk [], [], lk)
  | p :: rest =>
      let '(t, log, lk1) := run_task fuel maxr lk (p_nest p) (stage_in j p) (p_plan p) 0 in
      let '(r, logs, lk2) := tasks_pooled fuel maxr lk1 j (idx + 1) rest in
      (match t with
       | TOk ys => match r with KOk outs => KOk (ys :: outs) | _ => r end
       | TErr e a => KErr e idx a
       | TFuel => KFuel
       end, log :: logs, lk2)
  end.

Definition tasks_of (mode : Z) := if mode =? 0 then tasks_local else tasks_pooled.

Record outcome := mkOut { o_res : jres; o_logs : list (list arec) }.

(* the rest of the pipeline and the action, applied to what the tasks returned *)
Definition finish (j : job) (r : kres) : jres :=
  match r with
  | KOk outs => JOk (act_result (j_action j) (map (map (fn (j_post j))) outs))
  | KErr e i a => JErr e i a
  | KFuel => JFuel
  end.

(* one driver-level job on a context whose lock flag is [lk]: create the datasets (RDD.__init__),
   then the action (Context.runJob).  mode 0 = DummyPool, otherwise a pool. *)
Definition run_job (mode : Z) (maxr : Z) (lk : bool) (j : job) : outcome * bool :=
  if rdd_init_refused lk then (mkOut JRefused (no_logs (j_parts j)), lk)
  else if job_refused lk then (mkOut JRefused (no_logs (j_parts j)), lk)
  else
    let '(r, logs, _) :=
      tasks_of mode (Z.to_nat maxr) maxr lock_on_entry j 0 (j_parts j) in
    (mkOut (finish j r) logs, match r with KOk _ => lock_after_ok | _ => lock_after_error end).

(* ---------- the lazily evaluated actions take(n), first(), isEmpty()

   runJob(..., lambda tc, i: i, allowLocal=True, resultHandler = islice(chain(...), n)): always the local
   path; a partition is computed only when the result handler asks for its first element, and its
   elements are pulled one by one.  If the task function is a generator, nothing of it runs inside
   _run_task's try: its first error reaches the caller directly, without retry.  If it is eager, the
   error happens while the partition is computed and the ordinary retry applies. *)
Definition E_STOP : Z := 5.          (* StopIteration: first() of an empty dataset *)
Definition E_SUSPENDED : Z := -2.    (* log entry of a generator that was neither finished nor failed *)

Definition is_lazy (a : Z) : bool := 9 <=? a.
Definition lazy_need (a : Z) : nat := if a <=? 14 then Z.to_nat (a - 9) else 1%nat.

Inductive lres := LOk (got : list Z) | LErr (exc : Z) (idx : Z) (attempts : Z) | LFuel.

Definition lcons (ys : list Z) (r : lres) : lres := match r with LOk got => LOk (ys ++ got) | _ => r end.

Fixpoint lazy_tasks (fuel : nat) (maxr : Z) (lk : bool) (j : job) (idx : Z) (need : nat) (ps : list part)
  : lres * list (list arec) * bool :=
  match ps with
  | [] => (LOk [], [], lk)
  | p :: rest =>
      match need with
      | O => (LOk [], no_logs ps, lk)
      | S _ =>
          let xs := stage_in j p in
          if j_eager j then
            let '(t, log, lk1) := run_task fuel maxr lk (p_nest p) xs (p_plan p) 0 in
            match t with
            | TOk ys =>
                if (need <=? length ys)%nat then (LOk (firstn need ys), log :: no_logs rest, lk1)
                else let '(r, logs, lk2) := lazy_tasks fuel maxr lk1 j (idx + 1) (need - length ys) rest in
                     (lcons ys r, log :: logs, lk2)
            | TErr e a => (LErr e idx a, log :: no_logs rest, lk1)
            | TFuel => (LFuel, log :: no_logs rest, lk1)
            end
          else
            let '(o, raised, lk1) := run_nested lk (p_nest p) in
            if raised then (LErr E_LOCKED idx 1, [mkRec 1 o [] (Some E_LOCKED)] :: no_logs rest, lk1)
            else
              let f := hd None (p_plan p) in
              let avail := match f with None => xs | Some ft => seen_of (f_pos ft) xs end in
              if (need <=? length avail)%nat
              then (LOk (firstn need avail), [mkRec 1 o (firstn need avail) (Some E_SUSPENDED)] :: no_logs rest, lk1)
              else match f with
                   | Some ft => (LErr (f_exc ft) idx 1, [mkRec 1 o avail (Some (f_exc ft))] :: no_logs rest, lk1)
                   | None =>
                       let '(r, logs, lk2) := lazy_tasks fuel maxr lk1 j (idx + 1) (need - length xs) rest in
                       (lcons xs r, [mkRec 1 o xs None] :: logs, lk2)
                   end
      end
  end.

Definition lazy_finish (j : job) (r : lres) : jres :=
  match r with
  | LOk got =>
      let out := map (fn (j_post j)) got in
      if j_action j <=? 14 then JOk (vints out)
      else if j_action j =? 15 then match out with x :: _ => JOk (VInt x) | [] => JErr E_STOP 0 0 end
      else JOk (VBool (match out with [] => true | _ => false end))
  | LErr e i a => JErr e i a
  | LFuel => JFuel
  end.

Definition run_lazy_job (maxr : Z) (lk : bool) (j : job) : outcome * bool :=
  if rdd_init_refused lk then (mkOut JRefused (no_logs (j_parts j)), lk)
  else if job_refused lk then (mkOut JRefused (no_logs (j_parts j)), lk)
  else
    let '(r, logs, _) := lazy_tasks (Z.to_nat maxr) maxr lock_on_entry j 0 (lazy_need (j_action j)) (j_parts j) in
    let res := lazy_finish j r in
    (mkOut res logs, match res with JOk _ => lock_after_ok | _ => lock_after_error end).

(* any job *)
Definition run_any (mode : Z) (maxr : Z) (lk : bool) (j : job) : outcome * bool :=
  if is_lazy (j_action j) then run_lazy_job maxr lk j else run_job mode maxr lk j.

Fixpoint run_jobs (mode : Z) (maxr : Z) (lk : bool) (js : list job) : list outcome * bool :=
  match js with
  | [] => ([], lk)
  | j :: rest =>
      let '(o, lk1) := run_any mode maxr lk j in
      let '(os, lk2) := run_jobs mode maxr lk1 rest in
      (o :: os, lk2)
  end.

(* ---------- vocabulary of the statements in Properties/C04.v *)

(* some nested operation lets its ContextIsLockedException escape *)
Definition uncaught (ns : list nop) : bool := existsb (fun n => negb (n_caught n)) ns.

(* the exception class with which attempt i+1 (i from 0) of a task ends while the job lock is held *)
Definition att_exc (ns : list nop) (pl : plan) (i : nat) : option Z :=
  if uncaught ns then Some E_LOCKED else option_map f_exc (nth i pl None).

Definition is_some {A} (o : option A) : bool := match o with Some _ => true | None => false end.

(* the first max_retries attempts of the partition all fail *)
Definition exhausts (maxr : Z) (p : part) : bool :=
  forallb (fun i => is_some (att_exc (p_nest p) (p_plan p) i)) (seq 0 (Z.to_nat maxr)).

(* the log entry of attempt i+1 of a task that runs under the job lock: computed from the same
   input [xs] whatever happened in the earlier attempts *)
Definition rec_of (ns : list nop) (xs : list Z) (pl : plan) (i : nat) : arec :=
  fst (attempt true ns xs (nth i pl None) (Z.of_nat i + 1)).

(* what the attempt log records for the nested operations of one attempt under the lock: a refusal
   for every operation up to and including the first one whose exception is not caught *)
Fixpoint refusals (ns : list nop) : list Z :=
  match ns with
  | [] => []
  | n :: rest => 0 :: (if n_caught n then refusals rest else [])
  end.

(* the log of attempts 1..n *)
Definition task_log (ns : list nop) (xs : list Z) (pl : plan) (n : nat) : list arec :=
  map (rec_of ns xs pl) (seq 0 n).

(* the complete attempt log of one task: attempts 1..n, each computed from scratch; all but the
   last failed; the last one succeeded or was the max_retries-th *)
Definition task_log_ok (maxr : Z) (j : job) (p : part) (log : list arec) : Prop :=
  exists n, log = task_log (p_nest p) (stage_in j p) (p_plan p) n /\ (1 <= n)%nat /\ Z.of_nat n <= maxr /\
            (forall i, (i < n - 1)%nat -> att_exc (p_nest p) (p_plan p) i <> None) /\
            (att_exc (p_nest p) (p_plan p) (n - 1) = None \/ Z.of_nat n = maxr).

(* every partition has a successful attempt among its first max_retries attempts *)
Definition all_ok (maxr : Z) (ps : list part) : bool := forallb (fun p => negb (exhausts maxr p)) ps.

(* logs of a failing job whose first exhausting partition is p (parts = pre ++ p :: post): locally the
   partitions after p are never started; on a pool every partition runs to its own conclusion *)
Definition logs_ok (mode : Z) (maxr : Z) (j : job) (pre : list part) (p : part) (post : list part)
           (logs : list (list arec)) : Prop :=
  if mode =? 0
  then exists lpre, logs = lpre ++ task_log (p_nest p) (stage_in j p) (p_plan p) (Z.to_nat maxr) :: no_logs post
                    /\ Forall2 (task_log_ok maxr j) pre lpre
  else Forall2 (task_log_ok maxr j) (pre ++ p :: post) logs
       /\ nth (length pre) logs [] = task_log (p_nest p) (stage_in j p) (p_plan p) (Z.to_nat maxr).

(* every nested operation recorded in the logs was refused *)
Definition nested_all_refused (logs : list (list arec)) : Prop :=
  Forall (Forall (fun r => Forall (fun o => o = 0) (a_nest r))) logs.

(* the property, clause by clause, for one job and its outcome: the fault-free result when every partition
   succeeds within the budget; otherwise the exception of the first exhausting partition, raised by its
   attempt number max_retries, with the logs described by [logs_ok]; every nested operation refused *)
Definition job_spec (mode maxr : Z) (j : job) (o : outcome) : Prop :=
  (all_ok maxr (j_parts j) = true -> o_res o = JOk (plain_result j)) /\
  (forall pre p post e, j_parts j = pre ++ p :: post -> all_ok maxr pre = true -> exhausts maxr p = true ->
     att_exc (p_nest p) (p_plan p) (Z.to_nat maxr - 1) = Some e ->
     o_res o = JErr e (Z.of_nat (length pre)) maxr /\ logs_ok mode maxr j pre p post (o_logs o)) /\
  nested_all_refused (o_logs o).
