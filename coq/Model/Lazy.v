(* C06 -- demand semantics of pysparkling's generator-based compute chain, with an explicit event log.

   What is modelled (pysparkling/rdd.py, pysparkling/context.py, local execution):
   * MapPartitionsRDD.compute = f(tc, index, prev.compute(...)): the computation of one partition is a chain of
     Python generators.  A chain of generators over a finite list is represented by its complete unfolding, a
     [trace]: the sequence of things that happen, in order, when the chain is drained -- [Ev e] "a user function is
     called" and [Out v] "the last generator yields v".  Pulling k elements from the chain executes exactly the
     prefix of the trace up to and including the k-th [Out]; detecting exhaustion executes the whole trace.
   * map / filter / flatMap / sample are generator expressions: each replaces [Out a] by
     [Ev (call on a); Out b1; ...; Out bk] (lazy_stage).
   * PersistedRDD.compute and a mapPartitions function that returns a list consume their input when the task of
     the partition is created (rdd.compute(partition) is called by _run_task): their events move to [created].
   * Context._runJob_local is a generator over partitions: a task is created only when the result handler asks
     for the next partition.  Single-pass actions drain every task (inside func) one partition after the other;
     take(n) is islice(chain.from_iterable(tasks), n): nothing at all for n = 0, otherwise it pulls until the n-th
     element has been yielded and then stops without asking for anything more (take_trace / take_parts).
   * Defining a lineage only builds objects (define).

   An event is (stage, partition, index, value): stage 0 is the hidden tagging stage of the harness
   (mapPartitionsWithIndex), stages 1..k the pipeline, k+1 (and k+2) the functions passed to the action.
   Definitions only; the proofs are in PV.Proofs.Lazy. *)
From Coq Require Import ZArith List Bool.
From Coq Require String.
Import String.StringSyntax.
Local Open Scope string_scope.
Local Open Scope Z_scope.
Import ListNotations.
Open Scope Z_scope.

Definition event : Type := (Z * Z * Z * Z)%type.

Inductive item : Type := Ev (e : event) | Out (v : Z).
Definition trace := list item.

Fixpoint events (t : trace) : list event :=
  match t with
  | [] => []
  | Ev e :: t' => e :: events t'
  | Out _ :: t' => events t'
  end.

Fixpoint outs (t : trace) : list Z :=
  match t with
  | [] => []
  | Ev _ :: t' => outs t'
  | Out v :: t' => v :: outs t'
  end.

(* the task of one partition: what happens when the task is created, and the lazy rest *)
Record ptrace : Type := PT { created : list event; body : trace }.

Definition all_events (pt : ptrace) : list event := created pt ++ events (body pt).
Definition all_outs (pt : ptrace) : list Z := outs (body pt).

Inductive stage : Type :=
| SMap (f : Z -> Z)
| SFilter (p : Z -> bool)
| SFlatMap (g : Z -> list Z)
| SSample (m : Z -> Z)                               (* multiplicity chosen by the sampler for an element *)
| SPersist                                           (* persist() / cache(), nothing cached yet *)
| SEager (withidx : bool) (h : list Z -> list Z)     (* mapPartitions[WithIndex] with a list-returning function *)
| SGenSum                                            (* mapPartitionsWithIndex(lambda i, it: (yield sum(it))) *)
| SSilentMap (f : Z -> Z).                           (* keys() / values(): a map with a library lambda, no user function *)

(* what an element-wise stage yields for one input element *)
Definition kernel (st : stage) : option (Z -> list Z) :=
  match st with
  | SMap f => Some (fun a => [f a])
  | SFilter p => Some (fun a => if p a then [a] else [])
  | SFlatMap g => Some g
  | SSample m => Some (fun a => repeat a (Z.to_nat (m a)))
  | _ => None
  end.

(* a generator expression around the trace [t]: the j-th pulled element a is passed to the user function of
   stage s (event), its outputs are yielded one by one *)
Fixpoint lazy_stage (s p : Z) (k : Z -> list Z) (j : Z) (t : trace) : trace :=
  match t with
  | [] => []
  | Ev e :: t' => Ev e :: lazy_stage s p k j t'
  | Out a :: t' => Ev (s, p, j, a) :: map Out (k a) ++ lazy_stage s p k (j + 1) t'
  end.

(* a generator expression that applies a NON-user function: one output per pulled element, no event *)
Fixpoint silent_stage (f : Z -> Z) (t : trace) : trace :=
  match t with
  | [] => []
  | Ev e :: t' => Ev e :: silent_stage f t'
  | Out a :: t' => Out (f a) :: silent_stage f t'
  end.

Definition zsum (l : list Z) : Z := fold_left Z.add l 0.

(* the call of a partition-level function: with the partition index, or (plain mapPartitions) counted *)
Definition call_event (s p : Z) (withidx : bool) : event :=
  if withidx then (s, p, 0, 0) else (s, -1, p, 0).

Definition run_stage (s p : Z) (st : stage) (pt : ptrace) : ptrace :=
  match st with
  | SPersist =>
      PT (created pt ++ events (body pt)) (map Out (outs (body pt)))
  | SEager wi h =>
      PT (created pt ++ call_event s p wi :: events (body pt)) (map Out (h (outs (body pt))))
  | SGenSum =>
      PT (created pt) (Ev (s, p, 0, 0) :: map Ev (events (body pt)) ++ [Out (zsum (outs (body pt)))])
  | SSilentMap f => PT (created pt) (silent_stage f (body pt))
  | _ =>
      match kernel st with
      | Some k => PT (created pt) (lazy_stage s p k 0 (body pt))
      | None => pt
      end
  end.

Fixpoint run_from (s p : Z) (stages : list stage) (pt : ptrace) : ptrace :=
  match stages with
  | [] => pt
  | st :: rest => run_from (s + 1) p rest (run_stage s p st pt)
  end.

(* stage 0: the harness' tagging generator reads the partition's list *)
Definition source (p : Z) (xs : list Z) : ptrace :=
  PT [] (lazy_stage 0 p (fun a => [a]) 0 (map Out xs)).

Definition run_part (p : Z) (stages : list stage) (xs : list Z) : ptrace :=
  run_from 1 p stages (source p xs).

Fixpoint indexed {A : Type} (i : Z) (l : list A) : list (Z * A) :=
  match l with
  | [] => []
  | x :: r => (i, x) :: indexed (i + 1) r
  end.

Definition tasks (stages : list stage) (parts : list (list Z)) : list (Z * ptrace) :=
  map (fun px => (fst px, run_part (fst px) stages (snd px))) (indexed 0 parts).

(* ---- single-pass actions ------------------------------------------------------------------------------- *)
Inductive action : Type :=
| ACollect | ACount | ASum
| AReduce (op : Z -> Z -> Z)
| AFold (z : Z) (op : Z -> Z -> Z)
| AAggregate (z : Z) (seqop combop : Z -> Z -> Z)
| AForeach | ACountByValue | AStats | ASaveText.

(* functools.reduce(f_without_empty, values, _empty): f is called for every element but the first *)
Fixpoint skip_stage (s p : Z) (j : Z) (first : bool) (t : trace) : trace :=
  match t with
  | [] => []
  | Ev e :: t' => Ev e :: skip_stage s p j first t'
  | Out a :: t' =>
      if first then Out a :: skip_stage s p j false t'
      else Ev (s, p, j, a) :: Out a :: skip_stage s p (j + 1) false t'
  end.

(* the per-partition function of the action pulls the task's chain and calls the user's function *)
Definition act_body (a : action) (sa p : Z) (t : trace) : trace :=
  match a with
  | AForeach | AFold _ _ | AAggregate _ _ _ => lazy_stage sa p (fun x => [x]) 0 t
  | AReduce _ => skip_stage sa p 0 true t
  | _ => t
  end.

(* combining the partition results, in partition order; state = (accumulator of reduce, number of calls of
   reduce's function on a plain (untagged) partial result) *)
Definition comb_step (a : action) (sa p : Z) (st : option Z * Z) (o : list Z) : list event * (option Z * Z) :=
  match a with
  | AFold z op => ([(sa, -1, p, fold_left op o z)], st)
  | AAggregate z sq _ => ([(sa + 1, -1, p, fold_left sq o z)], st)
  | AReduce op =>
      match o with
      | [] => ([], st)
      | a0 :: rest =>
          let r := fold_left op rest a0 in
          match fst st with
          | None => ([], (Some r, snd st))
          | Some acc =>
              match rest with
              | [] => ([(sa, p, 0, a0)], (Some (op acc r), snd st))      (* the partial result IS the tagged element *)
              | _ => ([(sa, -1, snd st, r)], (Some (op acc r), snd st + 1))
              end
          end
      end
  | _ => ([], st)
  end.

(* reduce() collects the partial results of all partitions first and combines them afterwards (each task returns
   [] or [value]); fold/aggregate combine inside the result handler as the partial results arrive *)
Definition deferred (a : action) : bool := match a with AReduce _ => true | _ => false end.

Fixpoint job_loop (a : action) (sa : Z) (st : option Z * Z) (ts : list (Z * ptrace)) : list event :=
  match ts with
  | [] => []
  | (p, pt) :: rest =>
      let b := act_body a sa p (body pt) in
      let ce := comb_step a sa p st (outs b) in
      (created pt ++ events b) ++ (if deferred a then [] else fst ce) ++ job_loop a sa (snd ce) rest
  end.

(* the combine calls alone, over the outputs of all partitions *)
Fixpoint comb_loop (a : action) (sa : Z) (st : option Z * Z) (os : list (Z * list Z)) : list event :=
  match os with
  | [] => []
  | (p, o) :: rest =>
      let ce := comb_step a sa p st o in
      fst ce ++ comb_loop a sa (snd ce) rest
  end.

Definition job_log (a : action) (stages : list stage) (parts : list (list Z)) : list event :=
  let sa := Z.of_nat (length stages) + 1 in
  let ts := tasks stages parts in
  job_loop a sa (None, 0) ts ++
  (if deferred a then comb_loop a sa (None, 0) (map (fun t => (fst t, all_outs (snd t))) ts) else []).

(* ---- plain-list semantics (what the pipeline computes, independent of evaluation order) ------------------- *)
Definition sem_stage (st : stage) (xs : list Z) : list Z :=
  match st with
  | SPersist => xs
  | SEager _ h => h xs
  | SGenSum => [zsum xs]
  | SSilentMap f => map f xs
  | _ => match kernel st with Some k => flat_map k xs | None => xs end
  end.

Fixpoint sem_pipe (stages : list stage) (xs : list Z) : list Z :=
  match stages with
  | [] => xs
  | st :: rest => sem_pipe rest (sem_stage st xs)
  end.

(* results *)
Inductive result : Type :=
| RList (l : list Z) | RInt (z : Z) | RNone | RBool (b : bool) | RPairs (l : list (Z * Z)) | RErr (name : String.string).

Fixpoint zinsert (x : Z) (l : list Z) : list Z :=
  match l with
  | [] => [x]
  | y :: r => if x <=? y then x :: l else y :: zinsert x r
  end.
Definition zsort (l : list Z) : list Z := fold_right zinsert [] l.

Fixpoint rle (l : list Z) : list (Z * Z) :=
  match l with
  | [] => []
  | x :: r =>
      match rle r with
      | (y, c) :: q => if x =? y then (y, c + 1) :: q else (x, 1) :: (y, c) :: q
      | [] => [(x, 1)]
      end
  end.

Definition reduce_parts (op : Z -> Z -> Z) (acc : option Z) (o : list Z) : option Z :=
  match o with
  | [] => acc
  | a0 :: rest =>
      let r := fold_left op rest a0 in
      match acc with None => Some r | Some x => Some (op x r) end
  end.

Definition job_result (a : action) (os : list (list Z)) : result :=
  match a with
  | ACollect | ASaveText => RList (concat os)
  | ACount | AStats => RInt (Z.of_nat (length (concat os)))
  | ASum => RInt (zsum (map zsum os))
  | AReduce op =>
      match fold_left (reduce_parts op) os None with
      | Some r => RInt r
      | None => RErr "ValueError"
      end
  | AFold z op => RInt (fold_left op (map (fun o => fold_left op o z) os) z)
  | AAggregate z sq cb => RInt (fold_left cb (map (fun o => fold_left sq o z) os) z)
  | AForeach => RNone
  | ACountByValue => RPairs (rle (zsort (concat os)))
  end.

(* ---- take / first / isEmpty ------------------------------------------------------------------------------ *)
(* islice over one task's chain: (events executed, elements obtained, how many are still wanted) *)
Fixpoint take_trace (n : nat) (t : trace) {struct t} : list event * list Z * nat :=
  match n with
  | O => ([], [], O)
  | S n' =>
      match t with
      | [] => ([], [], n)
      | Ev e :: t' => let '(l, o, r) := take_trace n t' in (e :: l, o, r)
      | Out a :: t' => let '(l, o, r) := take_trace n' t' in (l, a :: o, r)
      end
  end.

(* chain.from_iterable over the generator of tasks: the next task is created only when one more element is wanted *)
Fixpoint take_parts (n : nat) (ts : list (Z * ptrace)) {struct ts} : list event * list Z :=
  match n with
  | O => ([], [])
  | S _ =>
      match ts with
      | [] => ([], [])
      | (_, pt) :: rest =>
          let '(l, o, r) := take_trace n (body pt) in
          let '(l2, o2) := take_parts r rest in
          (created pt ++ l ++ l2, o ++ o2)
      end
  end.

Definition take_log (n : nat) (stages : list stage) (parts : list (list Z)) : list event :=
  fst (take_parts n (tasks stages parts)).
Definition take_result (n : nat) (stages : list stage) (parts : list (list Z)) : list Z :=
  snd (take_parts n (tasks stages parts)).

Inductive query : Type := QAction (a : action) | QTake (n : nat) | QFirst | QIsEmpty.

Definition run_query (q : query) (stages : list stage) (parts : list (list Z)) : list event * result :=
  match q with
  | QAction a => (job_log a stages parts, job_result a (map (fun pt => all_outs (snd pt)) (tasks stages parts)))
  | QTake n => (take_log n stages parts, RList (take_result n stages parts))
  | QFirst =>
      (take_log 1 stages parts,
       match take_result 1 stages parts with a :: _ => RInt a | [] => RErr "StopIteration" end)
  | QIsEmpty =>
      match parts with
      | [] => ([], RBool true)
      | _ => (take_log 1 stages parts, RBool (match take_result 1 stages parts with [] => true | _ => false end))
      end
  end.

(* ---- histories: several queries, one after the other, on the SAME dataset object ----------------------------- *)
(* A dataset object keeps no state between actions unless it is persisted: each action creates its tasks anew from
   the lineage, so each is evaluated independently of what ran before.  (With a persist()/cache() stage the second
   action would read the cache -- that is C05's model; histories are only claimed for [uncached] lineages.) *)
Definition is_persist (st : stage) : bool := match st with SPersist => true | _ => false end.
Definition uncached (stages : list stage) : bool := forallb (fun st => negb (is_persist st)) stages.

Definition run_history (stages : list stage) (qs : list query) (parts : list (list Z)) : list (list event * result) :=
  map (fun q => run_query q stages parts) qs.

(* ---- programs: define a lineage, then run one query -------------------------------------------------------- *)
(* state of the driver while the lineage is being defined: (lineage, log of user-function calls so far, length of
   that log observed after each definition) *)
Definition dstate : Type := (list stage * list event * list nat)%type.

Definition define (st : dstate) (s : stage) : dstate :=
  match st with (lin, log, seen) => (lin ++ [s], log, seen ++ [length log]) end.

Definition define_all (stages : list stage) : dstate :=
  fold_left define stages ([], [], [0%nat]).   (* [0]: after parallelize + the tagging stage *)

Definition run_program (stages : list stage) (q : query) (parts : list (list Z))
  : list nat * (list event * result) :=
  match define_all stages with
  | (lin, _, seen) => (seen, run_query q lin parts)
  end.

Definition run_program_history (stages : list stage) (qs : list query) (parts : list (list Z))
  : list nat * list (list event * result) :=
  match define_all stages with
  | (lin, _, seen) => (seen, run_history lin qs parts)
  end.

(* ---- local model of Context.parallelize (sizes (i+1)L/n - iL/n, the last slice takes what is left) --------- *)
Fixpoint split_sizes (sizes : list nat) (xs : list Z) : list (list Z) :=
  match sizes with
  | [] => []
  | [_] => [xs]
  | s :: r => firstn s xs :: split_sizes r (skipn s xs)
  end.

Definition parallelize (xs : list Z) (n : Z) : list (list Z) :=
  if n <=? 1 then [xs]
  else
    let L := Z.of_nat (length xs) in
    split_sizes (map (fun i => Z.to_nat ((Z.of_nat i + 1) * L / n - Z.of_nat i * L / n)) (seq 0 (Z.to_nat n))) xs.

(* ---- specification side: which events are expected -------------------------------------------------------- *)
(* (s, p, j, a_0), (s, p, j+1, a_1), ... : the function of stage s applied once to each element of [l] *)
Fixpoint enum_events (s p j : Z) (l : list Z) : list event :=
  match l with
  | [] => []
  | a :: r => (s, p, j, a) :: enum_events s p (j + 1) r
  end.

(* the calls stage [st] makes when its input in partition p is the list xs *)
Definition own_events (s p : Z) (st : stage) (xs : list Z) : list event :=
  match st with
  | SPersist => []
  | SEager wi _ => [call_event s p wi]
  | SGenSum => [(s, p, 0, 0)]
  | SSilentMap _ => []
  | _ => enum_events s p 0 xs
  end.

Fixpoint exp_from (s p : Z) (stages : list stage) (xs : list Z) : list event :=
  match stages with
  | [] => []
  | st :: rest => own_events s p st xs ++ exp_from (s + 1) p rest (sem_stage st xs)
  end.

(* all calls of pipeline functions (incl. the tagging stage 0) on partition p holding xs *)
Definition part_events (p : Z) (stages : list stage) (xs : list Z) : list event :=
  enum_events 0 p 0 xs ++ exp_from 1 p stages xs.

Definition pipeline_events (stages : list stage) (parts : list (list Z)) : list event :=
  concat (map (fun px => part_events (fst px) stages (snd px)) (indexed 0 parts)).

(* calls of the action's own function(s) on the pipeline output o of partition p *)
Definition act_events (a : action) (sa p : Z) (o : list Z) : list event :=
  match a with
  | AForeach | AFold _ _ | AAggregate _ _ _ => enum_events sa p 0 o
  | AReduce _ => enum_events sa p 0 (tl o)
  | _ => []
  end.

Fixpoint action_loop (a : action) (sa : Z) (st : option Z * Z) (os : list (Z * list Z)) : list event :=
  match os with
  | [] => []
  | (p, o) :: rest =>
      let ce := comb_step a sa p st o in
      act_events a sa p o ++ fst ce ++ action_loop a sa (snd ce) rest
  end.

Definition action_events (a : action) (stages : list stage) (parts : list (list Z)) : list event :=
  action_loop a (Z.of_nat (length stages) + 1) (None, 0) (indexed 0 (map (sem_pipe stages) parts)).

(* everything a full pass over all partitions does, in order: creating the task of a partition, then its chain *)
Definition global_trace (stages : list stage) (parts : list (list Z)) : trace :=
  concat (map (fun t => map Ev (created (snd t)) ++ body (snd t)) (tasks stages parts)).

(* the partition an event belongs to (index-less mapPartitions calls are counted, the count is the position) *)
Definition epart (e : event) : Z :=
  match e with (_, p, j, _) => if p =? -1 then j else p end.
Definition estage (e : event) : Z := match e with (s, _, _, _) => s end.
