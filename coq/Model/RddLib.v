(* The finite library of user functions that generated pipelines draw from.  Every member exists twice:
   here as a Gallina term and in py/c01.py as a Python callable with the same name (the Python versions of
   op_extend / op_append mutate their first argument in place; these are pure).  The pairs are validated by
   the same correspondence run that validates the model.  [*_of_code] decode the small integers used in cases. *)
From Coq Require Import String ZArith NArith List Bool.
Require Import PV.Base.Val PV.Base.PyArith PV.Model.Rdd.
Import ListNotations.
Open Scope Z_scope.

Definition terr {A} : res A := Err "TypeError".

(* ---- element functions *)
Definition f_id : fn1 := fun x => Ok x.
Definition f_inc : fn1 := fun x => match x with VInt z => Ok (VInt (z + 1)) | _ => terr end.        (* x + 1 *)
Definition f_neg : fn1 := fun x => match x with VInt z => Ok (VInt (- z)) | _ => terr end.          (* -x *)
Definition f_dbl : fn1 := fun x =>                                                                    (* x * 2 *)
  match x with
  | VInt z => Ok (VInt (z * 2)) | VStr s => Ok (VStr (s ++ s))
  | VTup l => Ok (VTup (l ++ l)) | VList l => Ok (VList (l ++ l)) | _ => terr
  end.
Definition f_pair : fn1 := fun x => Ok (VTup [x; x]).
Definition f_wrap : fn1 := fun x => Ok (VList [x]).
Definition f_swap : fn1 := fun x => b <- py_getitem x 1 ;; a <- py_getitem x 0 ;; Ok (VTup [b; a]).  (* (x[1], x[0]) *)
Definition f_zero : fn1 := fun _ => Ok (VInt 0).
Definition py_len (x : val) : res Z :=
  match x with VStr s => Ok (len s) | VTup l | VList l => Ok (len l) | _ => terr end.
Definition f_len : fn1 := fun x => rmap VInt (py_len x).
Definition f_mod3 : fn1 := fun x => match x with VInt z => Ok (VInt (z mod 3)) | _ => terr end.      (* x % 3 *)
Definition f_none : fn1 := fun _ => Ok VNone.
Definition f_fst : fn1 := fun x => py_getitem x 0.

Definition fn_of_code (c : Z) : option fn1 :=
  match c with
  | 0 => Some f_id | 1 => Some f_inc | 2 => Some f_neg | 3 => Some f_dbl | 4 => Some f_pair
  | 5 => Some f_wrap | 6 => Some f_swap | 7 => Some f_zero | 8 => Some f_len | 9 => Some f_mod3
  | 10 => Some f_none | 11 => Some f_fst
  | _ => None
  end.

(* ---- predicates *)
Definition p_true : predf := fun _ => Ok true.
Definition p_false : predf := fun _ => Ok false.
Definition p_even : predf := fun x => match x with VInt z => Ok (z mod 2 =? 0) | _ => terr end.      (* x % 2 == 0 *)
Definition p_pos : predf := fun x => match x with VInt z => Ok (0 <? z) | _ => terr end.              (* x > 0 *)
Definition p_isint : predf := fun x => match x with VInt _ => Ok true | _ => Ok false end.
Definition p_truthy : predf := fun x =>                                                                (* bool(x) *)
  match x with
  | VInt z => Ok (negb (z =? 0)) | VStr [] | VTup [] | VList [] | VNone => Ok false | _ => Ok true
  end.
Definition p_notnone : predf := fun x => match x with VNone => Ok false | _ => Ok true end.

Definition p_edges : predf := fun x =>                                                               (* x < 23 or x >= 44 *)
  match x with VInt z => Ok ((z <? 23) || (44 <=? z)) | _ => terr end.

Definition pred_of_code (c : Z) : option predf :=
  match c with
  | 0 => Some p_true | 1 => Some p_false | 2 => Some p_even | 3 => Some p_pos | 4 => Some p_isint
  | 5 => Some p_truthy | 6 => Some p_notnone | 7 => Some p_edges
  | _ => None
  end.

(* ---- functions returning an iterable *)
Definition g_none : genf := fun _ => Ok [].
Definition g_one : genf := fun x => Ok [x].
Definition g_dup : genf := fun x => Ok [x; x].
Definition g_upto : genf := fun x => match x with VInt z => Ok (map VInt (zrange 0 z)) | _ => terr end.   (* range(x) *)
Definition g_iter : genf := fun x =>                                                                       (* iter(x) *)
  match x with
  | VStr s => Ok (map (fun c => VStr [c]) s) | VTup l | VList l => Ok l | _ => terr
  end.

Definition gen_of_code (c : Z) : option genf :=
  match c with
  | 0 => Some g_none | 1 => Some g_one | 2 => Some g_dup | 3 => Some g_upto | 4 => Some g_iter
  | _ => None
  end.

(* ---- sort keys (integers) *)
Definition k_id : keyf := int_of.
Definition k_neg : keyf := fun x => rmap Z.opp (int_of x).
Definition k_mod3 : keyf := fun x => rmap (fun z => z mod 3) (int_of x).
Definition k_size : keyf := py_len.
Definition k_zero : keyf := fun _ => Ok 0.
Definition k_fst : keyf := fun x => v <- py_getitem x 0 ;; int_of v.

Definition key_of_code (c : Z) : option keyf :=
  match c with
  | -1 => Some k_id      (* the default key of top / takeOrdered (elements compared directly; integer data) *)
  | 0 => Some k_id | 1 => Some k_neg | 2 => Some k_mod3 | 3 => Some k_size | 4 => Some k_zero | 5 => Some k_fst
  | _ => None
  end.

(* ---- binary operators for reduce / fold / aggregate *)
Definition op_add : op2 := fun a b =>                                                                  (* a + b *)
  match a, b with
  | VInt x, VInt y => Ok (VInt (x + y)) | VStr x, VStr y => Ok (VStr (x ++ y))
  | VTup x, VTup y => Ok (VTup (x ++ y)) | VList x, VList y => Ok (VList (x ++ y)) | _, _ => terr
  end.
Definition op_max : op2 := fun a b =>
  match a, b with VInt x, VInt y => Ok (VInt (if x <? y then y else x)) | _, _ => terr end.          (* max(a, b) *)
Definition op_mul : op2 := fun a b => match a, b with VInt x, VInt y => Ok (VInt (x * y)) | _, _ => terr end.
Definition op_sub : op2 := fun a b => match a, b with VInt x, VInt y => Ok (VInt (x - y)) | _, _ => terr end.
Definition op_first : op2 := fun a _ => Ok a.
Definition op_last : op2 := fun _ b => Ok b.
Definition op_extend : op2 := fun a b =>                                  (* a.extend(b); return a   (in place) *)
  match a, b with VList x, VList y => Ok (VList (x ++ y)) | _, _ => terr end.
Definition op_append : op2 := fun a x =>                                  (* a.append(x); return a   (in place) *)
  match a with VList l => Ok (VList (l ++ [x])) | _ => terr end.
Definition op_count : op2 := fun a _ => match a with VInt c => Ok (VInt (c + 1)) | _ => terr end.   (* acc + 1 *)
Definition op_sumcount : op2 := fun a x =>                                (* (acc[0] + x, acc[1] + 1) *)
  match a, x with VTup [VInt s; VInt c], VInt z => Ok (VTup [VInt (s + z); VInt (c + 1)]) | _, _ => terr end.
Definition op_pairadd : op2 := fun a b =>
  match a, b with
  | VTup [VInt s; VInt c], VTup [VInt s'; VInt c'] => Ok (VTup [VInt (s + s'); VInt (c + c')])
  | _, _ => terr
  end.

(* operators that mutate the INNER container of a nested accumulator ([[..], ..] or ([..], ..)) in place *)
Definition inner_list (a : val) : option (list val) :=
  match a with VList (VList l :: _) | VTup (VList l :: _) => Some l | _ => None end.
Definition set_inner (a : val) (l : list val) : val :=
  match a with
  | VList (_ :: r) => VList (VList l :: r)
  | VTup (_ :: r) => VTup (VList l :: r)
  | _ => a
  end.
Definition op_inner_append : op2 := fun a x =>                            (* a[0].append(x); return a *)
  match inner_list a with Some l => Ok (set_inner a (l ++ [x])) | None => terr end.
Definition op_inner_extend : op2 := fun a b =>                            (* a[0].extend(b[0]); return a *)
  match inner_list a, inner_list b with Some l, Some m => Ok (set_inner a (l ++ m)) | _, _ => terr end.

Definition op_of_code (c : Z) : option op2 :=
  match c with
  | 0 => Some op_add | 1 => Some op_max | 2 => Some op_mul | 3 => Some op_sub | 4 => Some op_first
  | 5 => Some op_last | 6 => Some op_extend | 7 => Some op_append | 8 => Some op_count
  | 9 => Some op_sumcount | 10 => Some op_pairadd | 11 => Some op_inner_append | 12 => Some op_inner_extend
  | _ => None
  end.

(* ---- functions on a whole partition (mapPartitions) *)
Definition mp_id : partf := fun p => Ok p.
Definition mp_inc : partf := mapM f_inc.                                   (* (x + 1 for x in it) *)
Definition mp_dup : partf := fun p => Ok (flat_map (fun x => [x; x]) p).
Definition mp_evens : partf := fun p => flat_mapM (fun x => b <- p_even x ;; Ok (if b : bool then [x] else [])) p.
Definition mp_rev : partf := fun p => Ok (rev p).                          (* not a homomorphism *)
Definition mp_sum : partf := fun p => s <- sum_ints p ;; Ok [VInt s].      (* not a homomorphism *)
Definition mp_count : partf := fun p => Ok [VInt (len p)].                 (* not a homomorphism *)
Definition mp_head : partf := fun p => Ok (firstn 1 p).                    (* not a homomorphism *)

Definition partf_of_code (c : Z) : option partf :=
  match c with
  | 0 => Some mp_id | 1 => Some mp_inc | 2 => Some mp_dup | 3 => Some mp_evens
  | 4 => Some mp_rev | 5 => Some mp_sum | 6 => Some mp_count | 7 => Some mp_head
  | _ => None
  end.

(* ---- decoding of pipeline stages and actions: VTup (VInt opcode :: arguments) *)
Definition opt_bind {A B} (o : option A) (f : A -> option B) : option B :=
  match o with Some a => f a | None => None end.

Definition decode_tr (v : val) : option tr :=
  match v with
  | VTup [VInt 0; VInt c] => opt_bind (fn_of_code c) (fun f => Some (TMap f))
  | VTup [VInt 1; VInt c] => opt_bind (pred_of_code c) (fun p => Some (TFilter p))
  | VTup [VInt 2; VInt c] => opt_bind (gen_of_code c) (fun g => Some (TFlatMap g))
  | VTup [VInt 3; VInt c] => opt_bind (fn_of_code c) (fun f => Some (TMapValues f))
  | VTup [VInt 4; VInt c] => opt_bind (gen_of_code c) (fun g => Some (TFlatMapValues g))
  | VTup [VInt 5; VInt c] => opt_bind (fn_of_code c) (fun f => Some (TKeyBy f))
  | VTup [VInt 6] => Some TKeys
  | VTup [VInt 7] => Some TValues
  | VTup [VInt 8; VInt c] => opt_bind (partf_of_code c) (fun h => Some (TMapPartitions h))
  | VTup [VInt 9] => Some TGlom
  | VTup [VInt 10; VList ys; VInt m] => Some (TUnion ys m)
  | VTup [VInt 11; VList ys; VInt m] => Some (TZip ys m)
  | VTup [VInt 12] => Some TZipWithIndex
  | VTup [VInt 13; VInt c; VBool asc; VNone] => opt_bind (key_of_code c) (fun k => Some (TSortBy k asc None))
  | VTup [VInt 13; VInt c; VBool asc; VInt n] => opt_bind (key_of_code c) (fun k => Some (TSortBy k asc (Some n)))
  | VTup [VInt 14; VInt k] => Some (TCoalesce k)
  | VTup [VInt 15; VInt k] => Some (TRepartition k)
  | VTup [VInt 16] => Some TPersist
  | _ => None
  end.

Fixpoint decode_trs (l : list val) : option (list tr) :=
  match l with
  | [] => Some []
  | v :: l' => opt_bind (decode_tr v) (fun t => opt_bind (decode_trs l') (fun ts => Some (t :: ts)))
  end.

Definition decode_act (v : val) : option act :=
  match v with
  | VTup [VInt 0] => Some ACollect
  | VTup [VInt 1] => Some ACount
  | VTup [VInt 2] => Some AFirst
  | VTup [VInt 3; VInt n] => Some (ATake n)
  | VTup [VInt 4] => Some ASum
  | VTup [VInt 5; VInt c] => opt_bind (op_of_code c) (fun f => Some (AReduce f))
  | VTup [VInt 6; z; VInt c] => opt_bind (op_of_code c) (fun f => Some (AFold z f))
  | VTup [VInt 7; z; VInt c; VInt d] =>
      opt_bind (op_of_code c) (fun s => opt_bind (op_of_code d) (fun m => Some (AAggregate z s m)))
  | VTup [VInt 8] => Some ACountByValue
  | VTup [VInt 9; VInt n; VInt c] => opt_bind (key_of_code c) (fun k => Some (ATop n k))
  | VTup [VInt 10; VInt n; VInt c] => opt_bind (key_of_code c) (fun k => Some (ATakeOrdered n k))
  | VTup [VInt 11; key] => Some (ALookup key)
  | VTup [VInt 12] => Some ACollectAsMap
  | VTup [VInt 13] => Some AToLocalIterator
  | VTup [VInt 14] => Some AMin
  | VTup [VInt 15] => Some AMax
  | VTup [VInt 16] => Some AMean
  | _ => None
  end.
