(* Executable model of the relational operators of pysparkling/sql/internals.py (DataFrameInternal)
   reached from DataFrame.select / withColumn / filter / where / drop / withColumnRenamed / toDF /
   union / unionByName / distinct / dropDuplicates / orderBy / limit.

   A data frame is its list of column names and its list of partitions (each a list of rows); the
   operators transcribe how the implementation treats the partitions:
     select, filter, drop, withColumnRenamed, toDF     partition-wise (mapPartitionsWithIndex / map)
     union, unionByName                               Context.union: all rows of both sides, re-sliced
     sort                                             one pass per key, LAST key first; each pass is
                                                      sorted(collect(), key, reverse) re-sliced
     distinct                                         set(toLocalIterator()) re-sliced
     dropDuplicates                                   first row seen per key (partitionBy(200) sends equal
                                                      keys to the same partition and keeps encounter order)
     limit                                            parallelize(take(n))
   How a collected list is cut into partitions again (Context.parallelize) is a parameter [split] of the
   model: nothing below depends on it beyond [concat (split h l) = l] (Proofs/SqlRel.v), and the
   correspondence run instantiates it with a single partition.  The row ORDER after distinct and
   dropDuplicates is unspecified in the implementation (set / hash-partition order); the model lists the
   survivors in encounter order and the correspondence compares such results as multisets.

   [None] = the implementation raises or the behaviour is not modelled. *)
From Coq Require Import ZArith NArith Bool String List.
From Coq Require Import PrimFloat.
Require Import PV.Base.Num PV.Gen.SqlTables PV.Model.SqlExpr.
Import ListNotations.
Open Scope Z_scope.

Record df := mkdf { cols : list name; parts : list (list row) }.

Definition collect (d : df) : list row := concat (parts d).

(* ---------- helpers *)
Fixpoint map_opt {A B} (f : A -> option B) (l : list A) : option (list B) :=
  match l with
  | [] => Some []
  | x :: l' =>
      match f x with
      | Some y => match map_opt f l' with Some r => Some (y :: r) | None => None end
      | None => None
      end
  end.

Definition mem_name (n : name) (l : list name) : bool := existsb (name_eqb n) l.

Fixpoint nodup_names (l : list name) : bool :=
  match l with [] => true | n :: l' => negb (mem_name n l') && nodup_names l' end.

(* ---------- select *)
(* the output column name: str(col) -- modelled for column references and aliases *)
Definition out_name (e : expr) : option name :=
  match e with ECol n => Some n | EAlias _ n => Some n | _ => None end.

Definition select_row (sch : list name) (es : list expr) (r : row) : option row :=
  map_opt (eval sch r) es.

Definition select (es : list expr) (d : df) : option df :=
  match map_opt out_name es with
  | None => None
  | Some ns =>
      match map_opt (fun p => map_opt (select_row (cols d) es) p) (parts d) with
      | Some ps => Some (mkdf ns ps)
      | None => None
      end
  end.

(* ---------- filter: keep the rows for which bool(condition.eval(row)) *)
Fixpoint filter_rows (sch : list name) (c : expr) (p : list row) : option (list row) :=
  match p with
  | [] => Some []
  | r :: p' =>
      match eval sch r c, filter_rows sch c p' with
      | Some v, Some rest => Some (if truthy v then r :: rest else rest)
      | _, _ => None
      end
  end.

Definition filter_df (c : expr) (d : df) : option df :=
  match map_opt (filter_rows (cols d) c) (parts d) with
  | Some ps => Some (mkdf (cols d) ps)
  | None => None
  end.

(* ---------- withColumn (repaired: replaces an existing column in place) *)
Definition withColumn (n : name) (e : expr) (d : df) : option df :=
  if mem_name n (cols d)
  then select (map (fun m => if name_eqb m n then EAlias e n else ECol m) (cols d)) d
  else select (map ECol (cols d) ++ [EAlias e n]) d.

(* ---------- drop *)
Fixpoint remove_positions {A} (ps : list nat) (i : nat) (l : list A) : list A :=
  match l with
  | [] => []
  | x :: l' => if existsb (Nat.eqb i) ps then remove_positions ps (S i) l' else x :: remove_positions ps (S i) l'
  end.

Definition drop (ns : list name) (d : df) : option df :=
  match map_opt (find_position (cols d)) ns with
  | None => None          (* dropping an unknown column raises AnalysisException *)
  | Some ps =>
      Some (mkdf (remove_positions ps 0 (cols d)) (map (map (remove_positions ps 0)) (parts d)))
  end.

(* ---------- withColumnRenamed, toDF *)
Definition withColumnRenamed (old new : name) (d : df) : option df :=
  Some (mkdf (map (fun m => if name_eqb m old then new else m) (cols d)) (parts d)).

Definition toDF (ns : list name) (d : df) : option df :=
  if Nat.eqb (length ns) (length (cols d)) then Some (mkdf ns (parts d)) else None.

Definition reorder_row (from to : list name) (r : row) : option row :=
  map_opt (lookup from r) to.

(* ---------- Python equality of cells and rows (tuple ==): numeric tower, -0.0 == 0.0 *)
Definition py_eqb (a b : sval) : bool :=
  match a, b with
  | SNull, SNull => true
  | SStr s, SStr t => name_eqb s t
  | _, _ =>
      match as_pynum a, as_pynum b with
      | Some (NI x), Some (NI y) => x =? y
      | Some x, Some y => PrimFloat.eqb (num_dbl x) (num_dbl y)
      | _, _ => false
      end
  end.

Fixpoint row_eqb (a b : row) : bool :=
  match a, b with
  | [], [] => true
  | x :: a', y :: b' => py_eqb x y && row_eqb a' b'
  | _, _ => false
  end.

(* `for key, value in it: if key not in seen: seen.add(key); yield value` *)
Fixpoint dedupe {K V} (eqb : K -> K -> bool) (seen : list K) (l : list (K * V)) : list V :=
  match l with
  | [] => []
  | (k, v) :: l' =>
      if existsb (eqb k) seen then dedupe eqb seen l' else v :: dedupe eqb (k :: seen) l'
  end.

(* ---------- sort *)
(* `<` on two sort-key values of one pass (both non-null, or both null) *)
Definition val_lt (a b : sval) : bool :=
  match a, b with
  | SStr s, SStr t => match str_cmp s t with Lt => true | _ => false end
  | _, _ =>
      match as_pynum a, as_pynum b with
      | Some (NI x), Some (NI y) => x <? y
      | Some x, Some y => PrimFloat.ltb (num_dbl x) (num_dbl y)
      | _, _ => false
      end
  end.

(* tuple `<` on (flag, value) *)
Definition key_lt (k1 k2 : bool * sval) : bool :=
  let (f1, v1) := k1 in let (f2, v2) := k2 in
  if Bool.eqb f1 f2 then val_lt v1 v2 else negb f1 && f2.

(* keys that Python can compare with each other: nulls, and either numbers or strings *)
Definition keys_comparable (vs : list sval) : bool :=
  forallb (fun v => match v with SStr _ => false | _ => true end) vs
  || forallb (fun v => match v with SNull | SStr _ => true | _ => false end) vs.

(* a stable insertion sort: sorted() *)
Fixpoint insert {A} (lt : A -> A -> bool) (x : A) (l : list A) : list A :=
  match l with
  | [] => [x]
  | y :: l' => if lt y x then y :: insert lt x l' else x :: y :: l'
  end.
Fixpoint isort {A} (lt : A -> A -> bool) (l : list A) : list A :=
  match l with [] => [] | x :: l' => insert lt x (isort lt l') end.

(* one sort key: the expression and the SortOrder wrapper (Column.asc(), .desc_nulls_first() ...) *)
Inductive sdir := DPlain | DAsc | DAscNF | DAscNL | DDesc | DDescNF | DDescNL.
Definition sort_order_of (d : sdir) : string :=
  match d with
  | DPlain => so_default
  | DAsc => so_Asc
  | DAscNF => so_AscNullsFirst
  | DAscNL => so_AscNullsLast
  | DDesc => so_Desc
  | DDescNF => so_DescNullsFirst
  | DDescNL => so_DescNullsLast
  end.
Definition str_in (s : string) (l : list string) : bool := existsb (String.eqb s) l.
Definition dir_ascending (d : sdir) : bool := str_in (sort_order_of d) sort_ascending_list.
Definition dir_nulls_smaller (d : sdir) : bool := str_in (sort_order_of d) sort_nulls_smaller_list.

Definition sort_key (ns : bool) (v : sval) : bool * sval := (sort_key_flag (is_null v) ns, v).

(* sorted(rows, key=get_keyfunc([col], nulls_are_smaller), reverse=not ascending) *)
Definition sort_pass (sch : list name) (k : expr * sdir) (rows : list row) : option (list row) :=
  let (e, d) := k in
  match map_opt (fun r => eval sch r e) rows with
  | None => None
  | Some vs =>
      if keys_comparable vs then
        let ks := map (sort_key (dir_nulls_smaller d)) vs in
        let lt := fun (p q : (bool * sval) * row) =>
                    if dir_ascending d then key_lt (fst p) (fst q) else key_lt (fst q) (fst p) in
        Some (map snd (isort lt (combine ks rows)))
      else None
  end.

(* DataFrame.sort / orderBy with an `ascending` argument: the argument handling of DataFrame._sort_cols.
   `ascending` absent or a true scalar: the keys as given; a false scalar: every key wrapped in .desc();
   a list: zip(ascending, cols) -- key kept as it is when its flag is true, wrapped in .desc() otherwise
   (zip stops at the shorter of the two).  Wrapping a key in Desc hides any ordering it carried:
   Column.sort_order reads the OUTER SortOrder, SortOrder.eval passes the value through. *)
Inductive asc_arg := AscAbsent | AscScalar (b : bool) | AscList (bs : list bool).

Definition desc_of (k : expr * sdir) : expr * sdir := (fst k, DDesc).

Definition sort_cols (ks : list (expr * sdir)) (a : asc_arg) : list (expr * sdir) :=
  match a with
  | AscAbsent => ks
  | AscScalar b => if b then ks else map desc_of ks
  | AscList bs => map (fun p : bool * (expr * sdir) => if fst p then snd p else desc_of (snd p)) (combine bs ks)
  end.

Section WithSplit.
(* Context.parallelize(list, numSlices): how a list is cut into partitions; [h] is the requested count *)
Variable split : nat -> list row -> list (list row).

Definition resliced (d : df) (rows : list row) : df := mkdf (cols d) (split (length (parts d)) rows).

(* for col in cols[::-1]: rdd = rdd.sortBy(key(col), ascending(col)) *)
Fixpoint sort_df (ks : list (expr * sdir)) (d : df) : option df :=
  match ks with
  | [] => Some d
  | k :: ks' =>
      match sort_df ks' d with
      | Some d' =>
          match sort_pass (cols d) k (collect d') with
          | Some rows => Some (resliced d' rows)
          | None => None
          end
      | None => None
      end
  end.

Definition distinct (d : df) : df :=
  resliced d (dedupe row_eqb [] (map (fun r => (r, r)) (collect d))).

Definition dropDuplicates (ns : list name) (d : df) : option df :=
  match ns with
  | [] => Some (mkdf (cols d) (split 200 (dedupe row_eqb [] (map (fun r => (r, r)) (collect d)))))
  | _ =>
      match map_opt (fun r => match map_opt (lookup (cols d) r) ns with
                              | Some k => Some (k, r) | None => None end) (collect d) with
      | Some kvs => Some (mkdf (cols d) (split 200 (dedupe row_eqb [] kvs)))
      | None => None
      end
  end.

Definition limit (n : nat) (d : df) : df := mkdf (cols d) (split 0 (firstn n (collect d))).

(* ---------- union, unionByName: rdd.union is Context.union = parallelize(all rows of both sides) *)
Definition union (d other : df) : option df :=
  if Nat.eqb (length (cols d)) (length (cols other))
  then Some (mkdf (cols d) (split 0 (collect d ++ collect other)))
  else None.

Definition unionByName (d other : df) : option df :=
  if nodup_names (cols d) && nodup_names (cols other) && Nat.eqb (length (cols d)) (length (cols other))
  then
    match map_opt (reorder_row (cols other) (cols d)) (collect other) with
    | Some rs => Some (mkdf (cols d) (split 0 (collect d ++ rs)))
    | None => None
    end
  else None.

(* ---------- operator chains *)
Inductive op :=
| OSelect (es : list expr)
| OFilter (c : expr)
| OWithColumn (n : name) (e : expr)
| ODrop (ns : list name)
| ORename (old new : name)
| OToDF (ns : list name)
| OUnion (other : list op)          (* union with the SECOND table transformed by [other] *)
| OUnionByName (other : list op)
| ODistinct
| ODropDuplicates (ns : list name)
| OSort (ks : list (expr * sdir)) (a : asc_arg)
| OLimit (n : nat).

(* the operators that involve one data frame *)
Definition step_simple (o : op) (d : df) : option df :=
  match o with
  | OSelect es => select es d
  | OFilter c => filter_df c d
  | OWithColumn n e => withColumn n e d
  | ODrop ns => drop ns d
  | ORename a b => withColumnRenamed a b d
  | OToDF ns => toDF ns d
  | ODistinct => Some (distinct d)
  | ODropDuplicates ns => dropDuplicates ns d
  | OSort ks a => match ks with [] => None (* ValueError *) | _ => sort_df (sort_cols ks a) d end
  | OLimit n => Some (limit n d)
  | OUnion _ | OUnionByName _ => None          (* no nested unions in the second operand *)
  end.

Fixpoint run_simple (ops : list op) (d : df) : option df :=
  match ops with
  | [] => Some d
  | o :: ops' => match step_simple o d with Some d' => run_simple ops' d' | None => None end
  end.

Definition step (t2 : df) (o : op) (d : df) : option df :=
  match o with
  | OUnion other => match run_simple other t2 with Some o2 => union d o2 | None => None end
  | OUnionByName other => match run_simple other t2 with Some o2 => unionByName d o2 | None => None end
  | _ => step_simple o d
  end.

Fixpoint run_ops (t2 : df) (ops : list op) (d : df) : option df :=
  match ops with
  | [] => Some d
  | o :: ops' => match step t2 o d with Some d' => run_ops t2 ops' d' | None => None end
  end.

End WithSplit.
