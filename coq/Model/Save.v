(* Model of RDD.saveAsTextFile / RDD.saveAsPickleFile (pysparkling/rdd.py) as a sequence of effects on a
   file-system value, with an explicit fault plan (C09).

   What is modelled, as the code is today:
   - the target of a save is one path; the file system restricted to that path is [fs]:
     absent | a file with its bytes | a directory with its (name, bytes) entries in creation order;
   - [Local.dump] (fileio/fs/local.py): create the parent directory when missing, then open 'wb' and
     write -- one dump call = one entry of the history [s_hist];
   - the fault plan [plan]: [wf k] says how the k-th dump call (counted over the whole context life,
     parts and marker alike) fails -- before anything happens, after the directory was created, or after
     the file was opened and [j] bytes were written (torn write) --, [cf i a] says that the computation
     of partition [i] fails on its [a]-th attempt;
   - every fault is raised with a class [cls]: an ordinary Exception, OSError, StopIteration, GeneratorExit;
   - [_run_task] (context.py): a task = compute the partition, then call the task function; any
     Exception (not a bare BaseException such as GeneratorExit) is retried until attempt number =
     max_retries, then re-raised; what escapes a task crosses the generator [_runJob_local]: a
     StopIteration becomes RuntimeError there (PEP 479) -- [task_boundary], regenerated kind;
   - [Context.runJob] (local pool): lock test, lock, tasks in partition order, the first task that raises
     aborts the job; the lock is released as the regenerated [runjob_lock_release] says;
   - the savers: the regenerated step lists [text_steps] / [pickle_steps] (Gen/SaveOrder.v) are
     INTERPRETED by [run_steps]: existence check, single-partition fast path (collect job, one file, no
     marker), write job (path/part-NNNNN per partition), marker write (path/_SUCCESS, empty);
   - reading a saved directory back (Context.textFile / pickleFile on a directory): the entries named
     part*, sorted by name, decoded one by one, concatenated.

   Definitions only; lemmas are in Proofs/Save.v. *)
From Coq Require Import List Bool Arith NArith.
Require Import PV.Gen.SaveOrder.
Import ListNotations.

Definition bytes := list N.

(* names inside the target directory *)
Inductive name : Type :=
| NPart (i : nat)      (* part-%05d *)
| NMarker              (* _SUCCESS *)
| NOther (k : nat).    (* anything else that was there before *)

Definition name_eqb (a b : name) : bool :=
  match a, b with
  | NPart i, NPart j => Nat.eqb i j
  | NMarker, NMarker => true
  | NOther i, NOther j => Nat.eqb i j
  | _, _ => false
  end.

(* byte order of the real names: '_SUCCESS' < 'old-k' < 'part-NNNNN' *)
Definition name_leb (a b : name) : bool :=
  match a, b with
  | NMarker, _ => true
  | NOther _, NMarker => false
  | NOther i, NOther j => Nat.leb i j
  | NOther _, NPart _ => true
  | NPart i, NPart j => Nat.leb i j
  | NPart _, _ => false
  end.

Inductive fs : Type :=
| FAbsent
| FFile (b : bytes)
| FDir (ch : list (name * bytes)).

Definition fs_exists (f : fs) : bool := match f with FAbsent => false | _ => true end.

Fixpoint lookup (nm : name) (ch : list (name * bytes)) : option bytes :=
  match ch with
  | [] => None
  | (n, c) :: r => if name_eqb nm n then Some c else lookup nm r
  end.

(* open(..., 'wb'): replace the content in place when the entry exists, else create it (appended) *)
Fixpoint set_child (nm : name) (c : bytes) (ch : list (name * bytes)) : list (name * bytes) :=
  match ch with
  | [] => [(nm, c)]
  | (n, c0) :: r => if name_eqb nm n then (n, c) :: r else (n, c0) :: set_child nm c r
  end.

Definition child (f : fs) (nm : name) : option bytes :=
  match f with FDir ch => lookup nm ch | _ => None end.

(* the exception class an injected fault is raised with *)
Inductive cls : Type :=
| KInjected    (* an ordinary Exception subclass of the injector (InjectedWriteFault / InjectedComputeFault) *)
| KOSError     (* OSError *)
| KStop        (* StopIteration: an Exception that generators and iterator consumers treat specially *)
| KGenExit.    (* GeneratorExit: a BaseException, NOT caught by `except Exception` *)

Inductive exn : Type :=
| EExists      (* FileAlreadyExistsException *)
| EWrite (c : cls)     (* an injected write fault, raised with class c *)
| ECompute (c : cls)   (* an injected partition-computation fault, raised with class c *)
| ERuntime     (* RuntimeError('generator raised StopIteration'): PEP 479 *)
| ELocked      (* ContextIsLockedException *)
| ENotADir     (* NotADirectoryError: writing below a plain file *)
| EIsADir      (* IsADirectoryError: opening a directory for writing *)
| ENoRetries.  (* max_retries = 0: the real code recurses without bound; outside the property *)

Inductive res (A : Type) : Type := Ok (a : A) | Err (e : exn).
Arguments Ok {A} a.
Arguments Err {A} e.

Inductive wfault : Type :=
| WBefore            (* the dump call raises before touching anything *)
| WMkdir             (* the directory was created, opening the file raises *)
| WTorn (j : nat).   (* the file was opened, the first j bytes were written, then the write raises *)

Record plan : Type := mkplan {
  wf : nat -> option wfault;     (* by index of the dump call *)
  wc : nat -> cls;               (* ... and the class it is raised with *)
  cf : nat -> nat -> bool;       (* partition index, attempt number (from 1) *)
  cc : nat -> nat -> cls;        (* ... the class it is raised with *)
  cl : nat -> nat -> bool        (* ... lazily, from inside a generator (true), or at the call (false) *)
}.

Definition no_faults : plan :=
  mkplan (fun _ => None) (fun _ => KInjected) (fun _ _ => false) (fun _ _ => KInjected) (fun _ _ => false).

(* PEP 479: a StopIteration that escapes a generator frame reaches the consumer as RuntimeError *)
Definition in_generator (e : exn) : exn :=
  match e with
  | EWrite KStop | ECompute KStop => ERuntime
  | _ => e
  end.
(* `except Exception` in _run_task *)
Definition catchable (e : exn) : bool :=
  match e with
  | EWrite KGenExit | ECompute KGenExit => false
  | _ => true
  end.
Definition is_stop (e : exn) : bool :=
  match e with
  | EWrite KStop | ECompute KStop => true
  | _ => false
  end.
(* the exception a failing computation of partition i, attempt a, raises *)
Definition compute_exn (p : plan) (i a : nat) : exn :=
  if cl p i a then in_generator (ECompute (cc p i a)) else ECompute (cc p i a).

Record st : Type := mkst {
  s_fs : fs;
  s_calls : nat;          (* dump calls so far *)
  s_locked : bool;        (* Context.locked *)
  s_hist : list fs        (* the file system after every dump call, oldest first *)
}.

Definition init_st (f : fs) (calls : nat) (locked : bool) : st := mkst f calls locked [].
Definition set_locked (b : bool) (s : st) : st := mkst (s_fs s) (s_calls s) b (s_hist s).

Inductive target : Type := TRoot | TChild (nm : name).

(* os.makedirs(dirname) when the directory of the file does not exist (the parent of the target always
   exists in this model) *)
Definition mkdir_for (t : target) (f : fs) : fs :=
  match t, f with
  | TChild _, FAbsent => FDir []
  | _, _ => f
  end.

Definition write_to (t : target) (c : bytes) (f : fs) : res fs :=
  match t, f with
  | TRoot, FDir _ => Err EIsADir
  | TRoot, _ => Ok (FFile c)
  | TChild nm, FAbsent => Ok (FDir [(nm, c)])
  | TChild nm, FDir ch => Ok (FDir (set_child nm c ch))
  | TChild _, FFile _ => Err ENotADir
  end.

(* one call of Local.dump under the plan *)
Definition dump (p : plan) (t : target) (c : bytes) (s : st) : res unit * st :=
  let k := s_calls s in
  let '(r, f') :=
    match wf p k with
    | None => match write_to t c (s_fs s) with
              | Ok f' => (Ok tt, f')
              | Err e => (Err e, s_fs s)
              end
    | Some WBefore => (Err (EWrite (wc p k)), s_fs s)
    | Some WMkdir => (Err (EWrite (wc p k)), mkdir_for t (s_fs s))
    | Some (WTorn j) => match write_to t (firstn j c) (s_fs s) with
                        (* the stream that tears is a generator *)
                        | Ok f' => (Err (in_generator (EWrite (wc p k))), f')
                        | Err e => (Err e, s_fs s)
                        end
    end in
  (r, mkst f' (S k) (s_locked s) (s_hist s ++ [f'])).

(* _run_task: attempt number [a] of partition [i], [rem] attempts left including this one *)
Fixpoint attempts (p : plan) (act : st -> res unit * st) (i rem a : nat) (s : st) : res unit * st :=
  match rem with
  | 0 => (Err ENoRetries, s)
  | S rem' =>
      let '(r, s') := if cf p i a then (Err (compute_exn p i a), s) else act s in
      match r with
      | Ok _ => (r, s')
      | Err e => if catchable e
                 then match rem' with
                      | 0 => (Err e, s')
                      | S _ => attempts p act i rem' (S a) s'
                      end
                 else (Err e, s')     (* not an Exception: neither caught nor retried *)
      end
  end.

Section Saver.
Variable A : Type.                 (* the data of one partition *)
Variable render : A -> bytes.      (* its file content *)

(* an exception escaping a task crosses what _runJob_local returns (regenerated: a generator today) *)
Definition task_boundary (e : exn) (s : st) : res unit * st :=
  match runjob_local_kind with
  | TaskGenerator => (Err (in_generator e), s)
  | TaskMap => if is_stop e then (Ok tt, s) else (Err e, s)   (* list(map(...)) takes StopIteration for the end *)
  end.

(* _runJob_local forced by resultHandler=list: tasks in partition order, stop at the first that raises *)
Fixpoint tasks (p : plan) (act : nat -> A -> st -> res unit * st) (m i : nat) (xs : list A) (s : st)
  : res unit * st :=
  match xs with
  | [] => (Ok tt, s)
  | x :: r => match attempts p (act i x) i m 1 s with
              | (Ok _, s') => tasks p act m (S i) r s'
              | (Err e, s') => task_boundary e s'
              end
  end.

Definition lock_after_error : bool :=
  match runjob_lock_release with ReleaseFinally => false | ReleaseOnSuccess => true end.

(* Context.runJob *)
Definition run_job (body : st -> res unit * st) (s : st) : res unit * st :=
  if s_locked s then (Err ELocked, s)
  else match body (set_locked true s) with
       | (Ok u, s') => (Ok u, set_locked false s')
       | (Err e, s') => (Err e, set_locked lock_after_error s')
       end.

Definition noop_act (_ : nat) (_ : A) (s : st) : res unit * st := (Ok tt, s).
Definition write_act (p : plan) (i : nat) (x : A) (s : st) : res unit * st :=
  dump p (TChild (NPart i)) (render x) s.

(* the saver body, statement by statement *)
Fixpoint run_steps (p : plan) (m : nat) (xs : list A) (steps : list step) (s : st) : res unit * st :=
  match steps with
  | [] => (Ok tt, s)
  | SCheckExists :: rest =>
      if fs_exists (s_fs s) then (Err EExists, s) else run_steps p m xs rest s
  | SSingle :: rest =>
      match xs with
      | [x] => match run_job (tasks p noop_act m 0 xs) s with    (* self.collect() *)
               | (Ok _, s') => dump p TRoot (render x) s'        (* then `return self` *)
               | (Err e, s') => (Err e, s')
               end
      | _ => run_steps p m xs rest s
      end
  | SRunJob :: rest =>
      match run_job (tasks p (write_act p) m 0 xs) s with
      | (Ok _, s') => run_steps p m xs rest s'
      | (Err e, s') => (Err e, s')
      end
  | SMarker :: rest =>
      match dump p (TChild NMarker) [] s with
      | (Ok _, s') => run_steps p m xs rest s'
      | (Err e, s') => (Err e, s')
      end
  end.

(* a later job on the same context: collect() of a data set with [k] partitions *)
Definition collect_job (p : plan) (m : nat) (xs : list A) (s : st) : res unit * st :=
  run_job (tasks p noop_act m 0 xs) s.

(* the directory a complete multi-partition save leaves behind *)
Fixpoint part_files (i : nat) (xs : list A) : list (name * bytes) :=
  match xs with
  | [] => []
  | x :: r => (NPart i, render x) :: part_files (S i) r
  end.

Definition complete_dir (xs : list A) : fs := FDir (part_files 0 xs ++ [(NMarker, [])]).

End Saver.

(* the two savers: the same interpreter on the step list regenerated from each function *)
Inductive saver : Type := SvText | SvPickle.
Definition steps_of (sv : saver) : list step :=
  match sv with SvText => text_steps | SvPickle => pickle_steps end.
Definition save (A : Type) (render : A -> bytes) (sv : saver) (p : plan) (m : nat) (xs : list A) (s : st)
  : res unit * st := run_steps A render p m xs (steps_of sv) s.

(* ---------- reading a saved directory back ---------- *)

Definition is_part (e : name * bytes) : bool := match fst e with NPart _ => true | _ => false end.

Fixpoint insert_entry (e : name * bytes) (l : list (name * bytes)) : list (name * bytes) :=
  match l with
  | [] => [e]
  | h :: t => if name_leb (fst e) (fst h) then e :: l else h :: insert_entry e t
  end.
Definition sort_entries (l : list (name * bytes)) : list (name * bytes) := fold_right insert_entry [] l.

Section Reader.
Variable B : Type.
Variable decode : bytes -> res (list B).

Fixpoint read_files (l : list (name * bytes)) : res (list B) :=
  match l with
  | [] => Ok []
  | (_, c) :: r => match decode c, read_files r with
                   | Ok xs, Ok ys => Ok (xs ++ ys)
                   | Err e, _ => Err e
                   | _, Err e => Err e
                   end
  end.

(* Context.textFile(path).collect() / pickleFile(path).collect() *)
Definition read_target (f : fs) : res (list B) :=
  match f with
  | FAbsent => Ok []
  | FFile b => decode b
  | FDir ch => read_files (sort_entries (filter is_part ch))
  end.
End Reader.

(* ---------- the text saver's rendering and the text reader's decoding ---------- *)

Definition nl : N := 10%N.
(* to_stringio: f'{line}\n' per element *)
Definition render_text (ls : list bytes) : bytes := concat (map (fun l => l ++ [nl]) ls).

(* str.splitlines restricted to '\n' as the only line break *)
Fixpoint split_lines (cur : bytes) (b : bytes) : list bytes :=
  match b with
  | [] => match cur with [] => [] | _ => [rev cur] end
  | c :: r => if N.eqb c nl then rev cur :: split_lines [] r else split_lines (c :: cur) r
  end.
Definition decode_text (b : bytes) : res (list bytes) := Ok (split_lines [] b).

(* ---------- the real file names (format regenerated into Gen/SaveOrder.v: part_prefix, part_width) ---------- *)

(* f'{i:0Wd}' for i < 10^W: exactly W decimal digits, most significant first *)
Fixpoint fixed_digits (w : nat) (i : N) : list N :=
  match w with
  | 0 => []
  | S w' => (i / 10 ^ N.of_nat w')%N :: fixed_digits w' (i mod 10 ^ N.of_nat w')%N
  end.

Definition digit_char (d : N) : N := (48 + d)%N.

(* codec_suffix = path[path.rfind('.'):] when the target path ends with a codec extension [ext]:
   the tail of the extension from its last dot ('.tar.gz' -> '.gz'); empty for a plain target *)
Fixpoint suffix_from_last_dot (l : list N) : list N :=
  match l with
  | [] => []
  | c :: r => match suffix_from_last_dot r with
              | [] => if N.eqb c 46 then l else []
              | s => s
              end
  end.

(* [sfx] = the codec suffix of the target.  Part files carry it; the marker's name is the regenerated
   [marker_base] ('_SUCCESS'), with the suffix only if the code derives it so ([marker_suffixed], false today) *)
Definition name_string (sfx : list N) (n : name) : list N :=
  match n with
  | NPart i => part_prefix ++ map digit_char (fixed_digits part_width (N.of_nat i)) ++ sfx
  | NMarker => marker_base ++ (if marker_suffixed then sfx else [])
  | NOther k => [111; 108; 100; 45; digit_char (N.of_nat k)]%N   (* old-k *)
  end.

(* names the format renders faithfully: fewer than 10^W partitions, one-digit foreign files *)
Definition valid_name (n : name) : Prop :=
  match n with
  | NPart i => (N.of_nat i < 10 ^ N.of_nat part_width)%N
  | NMarker => True
  | NOther k => k < 10
  end.

(* Python's comparison of str / sorted() on names: lexicographic by code point *)
Fixpoint lex_leb (a b : list N) : bool :=
  match a, b with
  | [], _ => true
  | _ :: _, [] => false
  | x :: a', y :: b' => if N.ltb x y then true else if N.eqb x y then lex_leb a' b' else false
  end.

(* ---------- saving a PERSISTED data set (rdd.persist() / cache(), PersistedRDD.compute) ----------
   PersistedRDD.compute materialises the whole partition (list(prev.compute(...))) and only then stores it; later
   computations of that partition are served from the cache.  For the save this is a transformation of the plan:
   - partitions already materialised before the save (by take(k): the shortest prefix of partitions holding k
     elements, [take_visits]) are never computed again, so their compute faults cannot fire;
   - within a task, attempt a computes the partition only if every earlier attempt failed while computing it
     (an attempt whose computation succeeded has cached it, even if its write then failed). *)
Fixpoint take_visits (sizes : list nat) (k : nat) : nat :=
  match k with
  | 0 => 0
  | S _ => match sizes with
           | [] => 0
           | sz :: r => S (take_visits r (k - sz))
           end
  end.

Definition persist_plan (cached : nat) (p : plan) : plan :=
  mkplan (wf p) (wc p)
         (fun i a => negb (Nat.ltb i cached) && cf p i a && forallb (fun a' => cf p i a') (seq 1 (a - 1)))
         (cc p) (cl p).
