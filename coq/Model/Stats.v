(* Executable model of the statistical summaries of pysparkling (property C17):

     pysparkling/stat_counter.py   StatCounter (Welford update [merge], Chan pairwise merge [mergeStats],
                                   accessors) and CovarianceCounter (add / merge / covar_samp / covar_pop /
                                   pearson_correlation)
     pysparkling/rdd.py            RDD.aggregate / treeAggregate / stats and the accessors that go through stats()
     pysparkling/sql/internals.py  DataFrameInternal.cov / corr (_get_covariance_helper)

   All arithmetic is NOT transcribed here: it is the text regenerated from the Python source on every run
   (PV.Gen.StatCounter: sc_merge, sc_mergeStats;  PV.Gen.Covariance: cc_add, cc_merge, sc_variance,
   sc_sampleVariance, sc_sum, cc_covar_samp, cc_covar_pop, cc_pearson, the initial field values sc_init_n etc. and cc_init_count etc.).  This file only packs the kernels'
   argument lists into records and adds the folds (per partition, over partitions, over arbitrary merge trees).

   Everything in the section is generic over the numeric operations [NumOps]: the PrimFloat instance is run
   against CPython (bit-exact), the R instance (PV.Base.NumR) carries the theorems.

   float('-inf') / float('inf') of StatCounter.__init__ are parameters [ninf] [pinf] of the model because R has
   no infinities; the float instance passes the IEEE infinities, the theorems hold for every choice and conclude
   min/max = the list minimum/maximum as soon as ninf <= every datum <= pinf. *)
From Coq Require Import ZArith List Bool String.
From Coq Require Import PrimFloat.
Require Import PV.Base.Val PV.Base.Num PV.Base.SqrtOps PV.Gen.StatCounter PV.Gen.Covariance.
Import ListNotations.
Open Scope Z_scope.

(* RDD.aggregate: runJob(lambda tc, i: reduce(seqOp, i, deepcopy(zero)), resultHandler = lambda l: reduce(combOp, l,
   deepcopy(zero))) -- one left fold per partition, then a left fold of the partial results, both from the zero value *)
Definition aggregate {A B : Type} (zero : B) (seqOp : B -> A -> B) (combOp : B -> B -> B)
           (parts : list (list A)) : B :=
  fold_left combOp (map (fun p => fold_left seqOp p zero) parts) zero.

(* a merge order: which partial summaries are merged with which, in which nesting; [MSelf t] is  s.mergeStats(s) *)
Inductive mtree (A : Type) : Type :=
| MLeaf (xs : list A)
| MNode (l r : mtree A)
| MSelf (t : mtree A).
Arguments MLeaf {A} xs.
Arguments MNode {A} l r.
Arguments MSelf {A} t.

(* the data a merge tree summarises (a self-merge counts its data twice) and its leaves *)
Fixpoint tdata {A} (t : mtree A) : list A :=
  match t with
  | MLeaf xs => xs
  | MNode l r => tdata l ++ tdata r
  | MSelf t' => tdata t' ++ tdata t'
  end.
Fixpoint leaves {A} (t : mtree A) : list (list A) :=
  match t with
  | MLeaf xs => [xs]
  | MNode l r => leaves l ++ leaves r
  | MSelf t' => leaves t' ++ leaves t'
  end.
Fixpoint self_free {A} (t : mtree A) : bool :=
  match t with
  | MLeaf _ => true
  | MNode l r => self_free l && self_free r
  | MSelf _ => false
  end.
(* the merge order of RDD.aggregate: ((((zero + p0) + p1) + ...) + pk) *)
Fixpoint left_comb {A} (acc : mtree A) (parts : list (list A)) : mtree A :=
  match parts with
  | [] => acc
  | p :: ps => left_comb (MNode acc (MLeaf p)) ps
  end.

(* Sessions on summary OBJECTS that are reused by several folds: a pool of slots, each holding one summary object (and,
   as a ghost, the data it should describe).  New empty summaries and copies are appended to the pool; a merge or an
   update changes the receiver's slot only -- mergeStats / merge copy field VALUES out of the other summary, copy() is
   a deep copy, so no two slots ever share state.  The result is the pool after every step. *)
Inductive oop (D : Type) : Type :=
| ONew                    (* a fresh empty summary *)
| OCopy (i : nat)         (* a copy of slot i *)
| OMerge (i j : nat)      (* slot i . merge(slot j); i = j is the self-merge *)
| OFold (i : nat) (v : D). (* slot i . add(v) *)
Arguments ONew {D}.
Arguments OCopy {D} i.
Arguments OMerge {D} i j.
Arguments OFold {D} i v.

Fixpoint set_nth {A} (l : list A) (i : nat) (x : A) : list A :=
  match l, i with
  | [], _ => []
  | _ :: r, O => x :: r
  | y :: r, S i' => y :: set_nth r i' x
  end.

Definition ostep {T D} (empty : T) (comb : T -> T -> T) (add : T -> D -> T)
           (slots : list (T * list D)) (op : oop D) : option (list (T * list D)) :=
  match op with
  | ONew => Some (slots ++ [(empty, [])])
  | OCopy i => match nth_error slots i with Some s => Some (slots ++ [s]) | None => None end
  | OMerge i j =>
      match nth_error slots i, nth_error slots j with
      | Some (a, da), Some (b, db) => Some (set_nth slots i (comb a b, da ++ db))
      | _, _ => None
      end
  | OFold i v =>
      match nth_error slots i with
      | Some (a, da) => Some (set_nth slots i (add a v, da ++ [v]))
      | None => None
      end
  end.

(* the pool after every step, first step first *)
Fixpoint osession {T D} (empty : T) (comb : T -> T -> T) (add : T -> D -> T)
         (slots : list (T * list D)) (prog : list (oop D)) : option (list (list (T * list D))) :=
  match prog with
  | [] => Some []
  | op :: p =>
      match ostep empty comb add slots op with
      | Some slots' =>
          match osession empty comb add slots' p with
          | Some tr => Some (slots' :: tr)
          | None => None
          end
      | None => None
      end
  end.

Section Stats.
Context {N : NumOps} {S : SqrtOps N}.

(* ------------------------------------------------------------------ StatCounter *)
Record sc : Type := mkSC { sc_n : Z; sc_mu : F; sc_m2 : F; sc_max : F; sc_min : F }.

Definition sc_of5 (t : Z * F * F * F * F) : sc :=
  let '(n, mu, m2, mx, mn) := t in mkSC n mu m2 mx mn.

(* StatCounter.__init__ without values: the initial n, mu, m2 are regenerated constants (sc_init_n, sc_init_mu, sc_init_m2); the translator
   checks that maxValue / minValue are float("-inf") / float("inf") *)
Definition sc_empty (ninf pinf : F) : sc := mkSC sc_init_n sc_init_mu sc_init_m2 ninf pinf.

(* StatCounter.merge(value) *)
Definition sc_add (s : sc) (v : F) : sc :=
  sc_of5 (sc_merge (sc_n s) (sc_mu s) (sc_m2 s) (sc_max s) (sc_min s) v).

(* StatCounter.mergeStats(other), other is not self *)
Definition sc_comb (s o : sc) : sc :=
  sc_of5 (sc_mergeStats (sc_n s) (sc_mu s) (sc_m2 s) (sc_max s) (sc_min s)
                        (sc_n o) (sc_mu o) (sc_m2 o) (sc_max o) (sc_min o)).

(* s.mergeStats(s): `if other is self: return self.mergeStats(other.copy())` *)
Definition sc_comb_self (s : sc) : sc := sc_comb s s.

(* StatCounter(values) *)
Definition sc_of_list (ninf pinf : F) (xs : list F) : sc := fold_left sc_add xs (sc_empty ninf pinf).

(* RDD.stats() *)
Definition rdd_stats (ninf pinf : F) (parts : list (list F)) : sc :=
  aggregate (sc_empty ninf pinf) sc_add sc_comb parts.

(* any merge order *)
Fixpoint tree_stats (ninf pinf : F) (t : mtree F) : sc :=
  match t with
  | MLeaf xs => sc_of_list ninf pinf xs
  | MNode l r => sc_comb (tree_stats ninf pinf l) (tree_stats ninf pinf r)
  | MSelf t' => sc_comb_self (tree_stats ninf pinf t')
  end.

(* A session on a few RDD objects that are REUSED: the summaries handed out by rdd.stats() are merged with each other
   (as receiver or as argument), merged with themselves, have values folded in -- and the same RDDs are asked for their
   summaries again in between.  RDD.stats() runs a new aggregate() on every call and returns a fresh StatCounter, so
   what was done to an earlier result cannot influence a later one: pushing / observing RDD i is always
   rdd_stats (its partitions).  Each summary carries, as a ghost, the list of data it should describe. *)
Inductive sop : Type :=
| SPush (i : nat)      (* push rdds[i].stats() *)
| SMerge               (* r = pop, l = pop, push l.mergeStats(r) *)
| SSelf                (* s = pop, push s.mergeStats(s) *)
| SFold (v : F)        (* s = pop, push s.merge(v) *)
| SObserve (j : nat).  (* record rdds[j].stats() and the RDD-level accessors of rdds[j] *)

Fixpoint session (ninf pinf : F) (rdds : list (list (list F))) (prog : list sop)
         (stack obs : list (sc * list F)) : option (list (sc * list F) * list (sc * list F)) :=
  match prog with
  | [] => Some (rev obs, stack)
  | SPush i :: p =>
      match nth_error rdds i with
      | Some parts => session ninf pinf rdds p ((rdd_stats ninf pinf parts, List.concat parts) :: stack) obs
      | None => None
      end
  | SMerge :: p =>
      match stack with
      | (r, dr) :: (l, dl) :: st => session ninf pinf rdds p ((sc_comb l r, dl ++ dr) :: st) obs
      | _ => None
      end
  | SSelf :: p =>
      match stack with
      | (s, d) :: st => session ninf pinf rdds p ((sc_comb_self s, d ++ d) :: st) obs
      | _ => None
      end
  | SFold v :: p =>
      match stack with
      | (s, d) :: st => session ninf pinf rdds p ((sc_add s v, d ++ [v]) :: st) obs
      | _ => None
      end
  | SObserve j :: p =>
      match nth_error rdds j with
      | Some parts => session ninf pinf rdds p stack ((rdd_stats ninf pinf parts, List.concat parts) :: obs)
      | None => None
      end
  end.

(* object sessions on StatCounter objects: slot k starts as StatCounter(parts[k]) *)
Definition sc_osession (ninf pinf : F) (parts : list (list F)) (prog : list (oop F)) :=
  osession (sc_empty ninf pinf) sc_comb sc_add (map (fun p => (sc_of_list ninf pinf p, p)) parts) prog.

(* accessors; [None] is the NaN that variance()/sampleVariance() return for n = 0 / n <= 1 *)
Definition st_count (s : sc) : Z := sc_n s.
Definition st_mean (s : sc) : F := sc_mu s.
Definition st_sum (s : sc) : F := sc_sum (sc_n s) (sc_mu s).
Definition st_max (s : sc) : F := sc_max s.
Definition st_min (s : sc) : F := sc_min s.
Definition st_variance (s : sc) : option F := sc_variance (sc_n s) (sc_m2 s).
Definition st_sampleVariance (s : sc) : option F := sc_sampleVariance (sc_n s) (sc_m2 s).
Definition st_stdev (s : sc) : option F := option_map fsqrt (st_variance s).
Definition st_sampleStdev (s : sc) : option F := option_map fsqrt (st_sampleVariance s).

(* ------------------------------------------------------------------ CovarianceCounter *)
Record cc : Type := mkCC { cc_n : Z; cc_xavg : F; cc_yavg : F; cc_ck : F; cc_mkx : F; cc_mky : F }.

Definition cc_of6 (t : Z * F * F * F * F * F) : cc :=
  let '(n, xa, ya, ck, mx, my) := t in mkCC n xa ya ck mx my.

(* CovarianceCounter.__init__ *)
Definition cc_empty : cc := mkCC cc_init_count cc_init_xAvg cc_init_yAvg cc_init_Ck cc_init_MkX cc_init_MkY.

(* CovarianceCounter.add(x, y) *)
Definition cc_step (s : cc) (p : F * F) : cc :=
  cc_of6 (cc_add (cc_n s) (cc_xavg s) (cc_yavg s) (cc_ck s) (cc_mkx s) (cc_mky s) (fst p) (snd p)).

(* CovarianceCounter.merge(other); merge has no `other is self` test, c.merge(c) runs the same statements with
   other aliased to self: every right-hand side reads other's fields before the aliased field is overwritten,
   except other.count which is only written last -- so it equals cc_comb c c (validated by the correspondence) *)
Definition cc_comb (s o : cc) : cc :=
  cc_of6 (cc_merge (cc_n s) (cc_xavg s) (cc_yavg s) (cc_ck s) (cc_mkx s) (cc_mky s)
                   (cc_n o) (cc_xavg o) (cc_yavg o) (cc_ck o) (cc_mkx o) (cc_mky o)).

Definition cc_of_list (ps : list (F * F)) : cc := fold_left cc_step ps cc_empty.

(* DataFrameInternal._get_covariance_helper: treeAggregate = aggregate *)
Definition df_cov_helper (parts : list (list (F * F))) : cc := aggregate cc_empty cc_step cc_comb parts.

Fixpoint tree_cov (t : mtree (F * F)) : cc :=
  match t with
  | MLeaf ps => cc_of_list ps
  | MNode l r => cc_comb (tree_cov l) (tree_cov r)
  | MSelf t' => let c := tree_cov t' in cc_comb c c
  end.

(* object sessions on CovarianceCounter objects (merge has no empty-receiver branch and no self test; c.merge(c) is
   cc_comb c c, see above) *)
Definition cc_osession (parts : list (list (F * F))) (prog : list (oop (F * F))) :=
  osession cc_empty cc_comb cc_step (map (fun p => (cc_of_list p, p)) parts) prog.

(* [None] is Python's None *)
Definition cv_samp (c : cc) : option F := cc_covar_samp (cc_n c) (cc_ck c).
Definition cv_pop (c : cc) : option F := cc_covar_pop (cc_n c) (cc_ck c).
(* the value of pearson_correlation when Python raises nothing *)
Definition cv_corr (c : cc) : F := cc_pearson (cc_ck c) (cc_mkx c) (cc_mky c).

End Stats.

(* ------------------------------------------------------------------ Python-level outcomes (float instance only) *)
(* math.sqrt: ValueError below zero (nan and -0.0 pass) *)
Definition py_sqrt (x : float) : val :=
  if PrimFloat.ltb x PrimFloat.zero then VErr "ValueError" else VFloat (PrimFloat.sqrt x).

Definition nan_or (o : option float) : float := match o with Some x => x | None => PrimFloat.nan end.

(* stdev() = sqrt(variance()): sqrt(nan) = nan *)
Definition py_stdev (o : option float) : val := py_sqrt (nan_or o).

(* pearson_correlation = Ck / math.sqrt(MkX * MkY): ValueError if the product is negative, ZeroDivisionError if the
   root is (plus or minus) zero *)
Definition py_corr (c : @cc FloatOps) : val :=
  let d2 := cc_pearson_den2 (cc_ck c) (cc_mkx c) (cc_mky c) in
  if PrimFloat.ltb d2 PrimFloat.zero then VErr "ValueError"
  else if PrimFloat.eqb (PrimFloat.sqrt d2) PrimFloat.zero then VErr "ZeroDivisionError"
  else VFloat (cv_corr c).

Definition opt_val (o : option float) : val := match o with Some x => VFloat x | None => VNone end.

(* what the harness observes of a StatCounter: the five fields, then count, mean, sum, min, max, variance, stdev,
   sampleVariance, sampleStdev *)
Definition sc_view (s : @sc FloatOps) : val :=
  VTup [VInt (sc_n s); VFloat (sc_mu s); VFloat (sc_m2 s); VFloat (sc_max s); VFloat (sc_min s);
        VInt (st_count s); VFloat (st_mean s); VFloat (st_sum s); VFloat (st_min s); VFloat (st_max s);
        VFloat (nan_or (st_variance s)); py_stdev (st_variance s);
        VFloat (nan_or (st_sampleVariance s)); py_stdev (st_sampleVariance s)].

Definition sc_fields_view (s : @sc FloatOps) : val :=
  VTup [VInt (sc_n s); VFloat (sc_mu s); VFloat (sc_m2 s); VFloat (sc_max s); VFloat (sc_min s)].
Definition cc_fields_view (c : @cc FloatOps) : val :=
  VTup [VInt (cc_n c); VFloat (cc_xavg c); VFloat (cc_yavg c); VFloat (cc_ck c); VFloat (cc_mkx c); VFloat (cc_mky c)].

(* of a CovarianceCounter: the six fields, covar_samp, covar_pop, pearson_correlation *)
Definition cc_view (c : @cc FloatOps) : val :=
  VTup [VInt (cc_n c); VFloat (cc_xavg c); VFloat (cc_yavg c); VFloat (cc_ck c); VFloat (cc_mkx c); VFloat (cc_mky c);
        opt_val (cv_samp c); opt_val (cv_pop c); py_corr c].
