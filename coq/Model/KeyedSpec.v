(* C02: what Spark defines for the keyed / join / set operations, written as list comprehensions over the
   flattened inputs (flat_map = nested `for`, `if c then [e] else []` = a comprehension guard).
   Definitions only.  The theorems of PV.Properties.C02 relate PV.Model.Keyed (what the code does) to these. *)
From Coq Require Import ZArith List Bool.
Require Import PV.Model.Keyed.
Import ListNotations.

(* the assumption on Python's == for keys (and for elements of set operations): it is decided by the
   boolean equality handed to the model, and equal means identical as far as the results can tell *)
Definition decides_eq {K : Type} (keqb : K -> K -> bool) : Prop := forall a b, keqb a b = true <-> a = b.

Section Spec.
  Context {K : Type} (keqb : K -> K -> bool).
  Context {V W : Type}.

  (* [(k, (v, w)) for (k, v) in xs for (k', w) in ys if k' == k] *)
  Definition join_spec (xs : list (K * V)) (ys : list (K * W)) : list (K * (V * W)) :=
    flat_map (fun x => flat_map (fun y => if keqb (fst y) (fst x) then [(fst x, (snd x, snd y))] else []) ys) xs.

  (* pairs of one side whose key does not occur on the other side *)
  Definition unmatched {X Y} (xs : list (K * X)) (ys : list (K * Y)) : list (K * X) :=
    filter (fun x => negb (kmem keqb (fst x) (map fst ys))) xs.
  Definition matched {X Y} (xs : list (K * X)) (ys : list (K * Y)) : list (K * X) :=
    filter (fun x => kmem keqb (fst x) (map fst ys)) xs.

  Definition left_outer_spec (xs : list (K * V)) (ys : list (K * W)) : list (K * (V * option W)) :=
    map (fun e => (fst e, (fst (snd e), Some (snd (snd e))))) (join_spec xs ys)
    ++ map (fun x => (fst x, (snd x, None))) (unmatched xs ys).
  Definition right_outer_spec (xs : list (K * V)) (ys : list (K * W)) : list (K * (option V * W)) :=
    map (fun e => (fst e, (Some (fst (snd e)), snd (snd e)))) (join_spec xs ys)
    ++ map (fun y => (fst y, (None, snd y))) (unmatched ys xs).
  Definition full_outer_spec (xs : list (K * V)) (ys : list (K * W)) : list (K * (option V * option W)) :=
    map (fun e => (fst e, (Some (fst (snd e)), Some (snd (snd e))))) (join_spec xs ys)
    ++ map (fun x => (fst x, (Some (snd x), None))) (unmatched xs ys)
    ++ map (fun y => (fst y, (None, Some (snd y)))) (unmatched ys xs).

  (* one entry per distinct key of either side, with the values of that key in input order *)
  Definition cogroup_spec (xs : list (K * V)) (ys : list (K * W)) : list (K * (list V * list W)) :=
    map (fun k => (k, (values keqb k xs, values keqb k ys))) (firstkeys keqb (map fst xs ++ map fst ys)).

  Definition group_spec {X} (xs : list (K * X)) : list (K * list X) :=
    map (fun k => (k, values keqb k xs)) (firstkeys keqb (map fst xs)).

  (* per key: a left fold over the values of that key, in input order *)
  Definition fold_per_key {A} (step : A -> V -> A) (zero : A) (xs : list (K * V)) : list (K * A) :=
    map (fun k => (k, fold_left step (values keqb k xs) zero)) (firstkeys keqb (map fst xs)).

  Definition count_spec (xs : list (K * V)) : list (K * Z) :=
    map (fun k => (k, Z.of_nat (length (values keqb k xs)))) (firstkeys keqb (map fst xs)).

  (* aggregateByKey's contract on (zero, seqFunc, combFunc): combining two partial folds is the fold of the
     concatenation (so zero is neutral for combFunc on partial folds) *)
  Definition agg_hom {A} (zero : A) (seqf : A -> V -> A) (combf : A -> A -> A) : Prop :=
    forall a b : list V, combf (fold_left seqf a zero) (fold_left seqf b zero) = fold_left seqf (a ++ b) zero.
End Spec.

(* sortByKey: the relation the output is sorted by, and "has a key equivalent to k" (for stability) *)
Definition key_le {K V} (le : K -> K -> bool) (x y : K * V) : Prop := le (fst x) (fst y) = true.
Definition same_key {K V} (le : K -> K -> bool) (k : K) (x : K * V) : bool := le (fst x) k && le k (fst x).
(* the order the output of sortByKey(ascending) is sorted by *)
Definition dir_le {K} (le : K -> K -> bool) (asc : bool) : K -> K -> bool := if asc then le else fun a b => le b a.
