(* The specification side of property C13: the textbook nested-loop join over two tables, written
   independently of the RDD machinery that PV.Model.SqlJoin transcribes.

     "one row per matching pair, null-padded rows for the unmatched side of outer joins, and left rows
      filtered by existence or absence of a match for semi and anti joins.  The output columns are the
      key columns once, then the remaining left columns, then (except for semi/anti) the remaining
      right columns."

   Keys are compared with SQL equality (a null never equals anything); columns are addressed by NAME
   (the model addresses them by bound-field identity).  Definitions only. *)
From Coq Require Import ZArith NArith List Bool.
Require Import PV.Gen.Joins PV.Model.SqlJoin.
Import ListNotations.

Definition sql_eq (a b : cell) : bool :=
  match a, b with
  | CNull, _ | _, CNull => false
  | _, _ => cell_eqb a b
  end.

(* the join condition  l.c1 = r.c1 AND ... AND l.cn = r.cn *)
Definition keys_match (on : list name) (l r : row) : bool :=
  forallb (fun c => sql_eq (row_get l c) (row_get r c)) on.

Definition is_semi_anti (h : how) : bool :=
  match h with LEFT_SEMI_JOIN | LEFT_ANTI_JOIN => true | _ => false end.

(* columns of one side that are not key columns, and a row's values in those columns *)
Definition rest_names (on : list name) (s : schema) : list name :=
  filter (fun n => negb (name_mem n on)) (names_of s).
Definition rest_values (on : list name) (s : schema) (r : row) : list cell :=
  map snd (filter (fun nv => negb (name_mem (fst nv) on)) (combine (names_of s) (row_values r))).
Definition nulls {A} (l : list A) : list cell := map (fun _ => CNull) l.

(* keys once, then the remaining left columns, then (except semi/anti) the remaining right columns *)
Definition out_columns (h : how) (on : list name) (ls rs : schema) : list name :=
  on ++ rest_names on ls ++ (if is_semi_anti h then [] else rest_names on rs).

(* the output row for a (possibly absent) left row and a (possibly absent) right row *)
Definition out_row (h : how) (on : list name) (ls rs : schema) (l r : option row) : row :=
  (out_columns h on ls rs,
   map (row_get (match l, r with Some x, _ => x | None, Some y => y | None, None => ([], []) end)) on
   ++ (match l with Some x => rest_values on ls x | None => nulls (rest_names on ls) end)
   ++ (if is_semi_anti h then []
       else match r with Some y => rest_values on rs y | None => nulls (rest_names on rs) end)).

Definition nested_loop (h : how) (on : list name) (ls rs : schema) (L R : list row) : list row :=
  let out := out_row h on ls rs in
  let left_part :=
    flat_map (fun l => match filter (keys_match on l) R with
                       | [] => [out (Some l) None]
                       | ms => map (fun r => out (Some l) (Some r)) ms
                       end) L in
  match h with
  | INNER_JOIN =>
      flat_map (fun l => flat_map (fun r => if keys_match on l r then [out (Some l) (Some r)] else []) R) L
  | LEFT_JOIN => left_part
  | RIGHT_JOIN =>
      flat_map (fun r => match filter (fun l => keys_match on l r) L with
                         | [] => [out None (Some r)]
                         | ms => map (fun l => out (Some l) (Some r)) ms
                         end) R
  | FULL_JOIN =>
      left_part ++
      flat_map (fun r => if existsb (fun l => keys_match on l r) L then [] else [out None (Some r)]) R
  | LEFT_SEMI_JOIN =>
      map (fun l => out (Some l) None) (filter (fun l => existsb (keys_match on l) R) L)
  | LEFT_ANTI_JOIN =>
      map (fun l => out (Some l) None) (filter (fun l => negb (existsb (keys_match on l) R)) L)
  | CROSS_JOIN =>   (* every pair, all columns of both sides *)
      flat_map (fun l => map (fun r => (row_fields l ++ row_fields r, row_values l ++ row_values r)) R) L
  end.

(* what the theorems assume about a table: it is a DataFrame (rows carry the schema's names and one
   value per column) whose column names are distinct *)
Definition wf_table (t : table) : Prop :=
  NoDup (names_of (t_schema t)) /\
  Forall (fun r => row_fields r = names_of (t_schema t) /\ length (row_values r) = length (t_schema t)) (t_rows t).

(* "non-null keys": every row has a non-null value in every key column *)
Definition non_null_keys (on : list name) (rows : list row) : Prop :=
  Forall (fun r => Forall (fun c => exists v, row_get_opt r c = Some v /\ v <> CNull) on) rows.

(* "shared column names" *)
Definition shared (on : list name) (ls rs : schema) : Prop :=
  Forall (fun c => In c (names_of ls) /\ In c (names_of rs)) on.
