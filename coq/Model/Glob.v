(* C20 -- executable model of file pattern resolution on the local file system.

   Transcribes, as they are today,
     pysparkling/fileio/file.py        File.resolve_filenames   (comma split, strip, per-item dispatch)
     pysparkling/fileio/fs/__init__.py get_fs                   (scheme table: regenerated, PV.Gen.FsDispatch)
     pysparkling/fileio/fs/local.py    Local.resolve_filenames  (scheme prefix, exact-file shortcut, './' rule,
                                        literal prefix, repaired first-component-wildcard branch, dirname rule, walk,
                                        fnmatch against expr and expr + '/part*')
     pysparkling/utils.py              Tokenizer.get_next       (text before the first wildcard)
     pysparkling/context.py            textFile & co            (sorted(resolved_names))
   and of the Python runtime: fnmatch for patterns without '[' ([gmatch]), posixpath.dirname, str.strip,
   str.split(','), os.path.isfile / os.walk over a finite tree of files, sorted() on str.

   Strings are lists of code points.  A file system is a current directory and a finite list of files, each an
   absolute path given as its list of components.  Path strings are interpreted lexically: empty and '.'
   components are dropped, a relative string is taken below the current directory.  '..' components and
   symbolic links are outside the model's domain.  Definitions only; the lemmas are in PV.Proofs.Glob*. *)
From Coq Require Import NArith List Bool String.
Require Import PV.Gen.FsDispatch.
Import ListNotations.
Open Scope N_scope.

Definition str := list N.

Definition c_slash : N := 47.
Definition c_star : N := 42.
Definition c_qm : N := 63.
Definition c_dot : N := 46.
Definition c_comma : N := 44.

(* ------------------------------------------------------------------ fnmatch (patterns without '[') *)
(* '*' matches any run of characters (including '/'), '?' exactly one character, everything else itself *)
Fixpoint gmatch (p s : str) {struct p} : bool :=
  match p with
  | [] => match s with [] => true | _ :: _ => false end
  | c :: p' =>
      if c =? c_star then
        (fix try (s : str) : bool :=
           gmatch p' s || match s with [] => false | _ :: s' => try s' end) s
      else
        match s with
        | [] => false
        | d :: s' => ((c =? c_qm) || (c =? d)) && gmatch p' s'
        end
  end.

(* ------------------------------------------------------------------ strings *)
Fixpoint str_eqb (a b : str) : bool :=
  match a, b with
  | [], [] => true
  | x :: a', y :: b' => (x =? y) && str_eqb a' b'
  | _, _ => false
  end.

Fixpoint starts_with (pre s : str) : bool :=
  match pre, s with
  | [], _ => true
  | x :: pre', y :: s' => (x =? y) && starts_with pre' s'
  | _ :: _, [] => false
  end.

Definition has_slash (s : str) : bool := existsb (N.eqb c_slash) s.

Fixpoint ends_slash (s : str) : bool :=
  match s with
  | [] => false
  | [c] => c =? c_slash
  | _ :: s' => ends_slash s'
  end.

(* str.split(sep) for a one-character separator: never returns the empty list *)
Fixpoint split_on (sep : N) (s : str) : list str :=
  match s with
  | [] => [[]]
  | c :: s' =>
      if c =? sep then [] :: split_on sep s'
      else match split_on sep s' with
           | w :: ws => (c :: w) :: ws
           | [] => [[c]]
           end
  end.

Fixpoint join (sep : N) (l : list str) : str :=
  match l with
  | [] => []
  | [w] => w
  | w :: ws => w ++ sep :: join sep ws
  end.

(* position-independent substring test ([a in b] on Python strings) *)
Fixpoint is_substr (a b : str) : bool :=
  starts_with a b || match b with [] => false | _ :: b' => is_substr a b' end.

(* text before the first occurrence of [sep] (str.partition(sep)[0]); None when sep does not occur *)
Fixpoint before_first (sep s : str) : option str :=
  if starts_with sep s then Some []
  else match s with
       | [] => None
       | c :: s' => match before_first sep s' with Some r => Some (c :: r) | None => None end
       end.

(* str.strip(): the characters for which str.isspace() holds *)
Definition is_space (c : N) : bool :=
  ((9 <=? c) && (c <=? 13)) || ((28 <=? c) && (c <=? 32)) || (c =? 133) || (c =? 160) || (c =? 5760) ||
  ((8192 <=? c) && (c <=? 8202)) || (c =? 8232) || (c =? 8233) || (c =? 8239) || (c =? 8287) || (c =? 12288).

Fixpoint lstrip (s : str) : str :=
  match s with
  | [] => []
  | c :: s' => if is_space c then lstrip s' else s
  end.

Fixpoint rstrip (s : str) : str :=
  match s with
  | [] => []
  | c :: s' => match rstrip s' with
               | [] => if is_space c then [] else [c]
               | r => c :: r
               end
  end.

Definition strip (s : str) : str := rstrip (lstrip s).

(* ------------------------------------------------------------------ posixpath.dirname *)
(* everything up to and including the last '/' *)
Fixpoint dir_head (s : str) : str :=
  match s with
  | [] => []
  | c :: s' => if has_slash s' then c :: dir_head s' else if c =? c_slash then [c] else []
  end.

Fixpoint rstrip_slash (s : str) : str :=
  match s with
  | [] => []
  | c :: s' => match rstrip_slash s' with
               | [] => if c =? c_slash then [] else [c]
               | r => c :: r
               end
  end.

Definition all_slash (s : str) : bool := forallb (N.eqb c_slash) s.

Definition dirname (s : str) : str :=
  let h := dir_head s in if all_slash h then h else rstrip_slash h.

(* ------------------------------------------------------------------ a finite file system *)
Record fsys : Type := { cwd : list str; files : list (list str) }.

Definition is_proper (c : str) : bool := negb (str_eqb c []) && negb (str_eqb c [c_dot]).
Definition norm_comps (l : list str) : list str := filter is_proper l.
Definition is_abs (s : str) : bool := match s with c :: _ => c =? c_slash | [] => false end.

(* the absolute component list a path string stands for *)
Definition denote (fs : fsys) (s : str) : list str :=
  (if is_abs s then [] else cwd fs) ++ norm_comps (split_on c_slash s).

Fixpoint comps_eqb (a b : list str) : bool :=
  match a, b with
  | [], [] => true
  | x :: a', y :: b' => str_eqb x y && comps_eqb a' b'
  | _, _ => false
  end.

(* 'a.txt/' and 'a.txt/.' are not files (ENOTDIR): the last component must be a real name *)
Definition last_proper (s : str) : bool := is_proper (last (split_on c_slash s) []).

(* os.path.isfile *)
Definition isfile (fs : fsys) (s : str) : bool :=
  last_proper s && existsb (comps_eqb (denote fs s)) (files fs).

Fixpoint strip_pre (d f : list str) : option (list str) :=
  match d, f with
  | [], _ => Some f
  | x :: d', y :: f' => if str_eqb x y then strip_pre d' f' else None
  | _ :: _, [] => None
  end.

(* os.path.join(root, name) chains: root ++ '/' unless root already ends with one *)
Definition disp (root rel : str) : str :=
  root ++ (if ends_slash root then [] else [c_slash]) ++ rel.

(* the paths os.walk(root) hands to the matching loop (one per file strictly below root; order = file list) *)
Definition walk (fs : fsys) (root : str) : list str :=
  match root with
  | [] => []
  | _ => flat_map (fun f => match strip_pre (denote fs root) f with
                            | Some (c :: r) => [disp root (join c_slash (c :: r))]
                            | _ => []
                            end) (files fs)
  end.

(* ------------------------------------------------------------------ Local.resolve_filenames *)
Definition is_wild (c : N) : bool := existsb (N.eqb c) local_wildcards.

(* Tokenizer(expr).get_next(['*', '?']) *)
Fixpoint lit_prefix (e : str) : str :=
  match e with
  | [] => []
  | c :: e' => if is_wild c then [] else c :: lit_prefix e'
  end.

Definition dotslash : str := [c_dot; c_slash].

Definition strip_scheme (e : str) : str :=
  if starts_with local_scheme_prefix e then skipn local_scheme_cut e else e.

(* expression after the './' rule (no separator in the item) *)
Definition with_sep (e0 : str) : str := if has_slash e0 then e0 else dotslash ++ e0.

(* (effective expression, directory handed to os.walk) *)
Definition plan (e0 : str) : str * str :=
  let e1 := with_sep e0 in
  let p := lit_prefix e1 in
  (* a literal prefix without separator (wildcard in the first component of a relative item, fixes
     94671f3 and 9d8ea91): search below the current directory *)
  let '(e2, p2) := if has_slash p then (e1, p) else (dotslash ++ e1, dotslash) in
  let p3 := if negb (ends_slash p2) && has_slash p2 then dirname p2 else p2 in
  (e2, p3).

Definition accepts (e2 s : str) : bool := gmatch e2 s || gmatch (e2 ++ local_part_suffix) s.

Definition resolve_local (fs : fsys) (expr : str) : list str :=
  let e0 := strip_scheme expr in
  if isfile fs e0 then [e0]
  else let '(e2, root) := plan e0 in filter (accepts e2) (walk fs root).

(* ------------------------------------------------------------------ get_fs and File.resolve_filenames *)
Definition scheme_of (path : str) : str :=
  match before_first scheme_sep path with Some s => s | None => [] end.

Definition scheme_in (scheme : str) (set : scheme_set) : bool :=
  match set with
  | SchemeTuple l => existsb (str_eqb scheme) l
  | SchemeStr s => is_substr scheme s
  end.

Fixpoint lookup_fs (scheme : str) (tbl : list (scheme_set * str)) : str :=
  match tbl with
  | [] => default_fs
  | (set, cls) :: tbl' => if scheme_in scheme set then cls else lookup_fs scheme tbl'
  end.

Definition get_fs (path : str) : str := lookup_fs (scheme_of path) file_extensions.

Definition cls_local : str := [76; 111; 99; 97; 108].

Inductive outcome : Type := Names (l : list str) | Fail (e : string).

(* only Local and the abstract base class are modelled; the remote file systems need a network *)
Definition resolve_item (fs : fsys) (item : str) : outcome :=
  let cls := get_fs item in
  if str_eqb cls cls_local then Names (resolve_local fs item)
  else if str_eqb cls default_fs then Fail "NotImplementedError"
  else Fail "RemoteFileSystemNotModelled".

Fixpoint resolve_items (fs : fsys) (items : list str) : outcome :=
  match items with
  | [] => Names []
  | it :: rest =>
      match resolve_item fs (strip it) with
      | Fail e => Fail e
      | Names a => match resolve_items fs rest with
                   | Fail e => Fail e
                   | Names b => Names (a ++ b)
                   end
      end
  end.

Definition resolve_all (fs : fsys) (all_expr : str) : outcome :=
  resolve_items fs (split_on c_comma all_expr).

(* ------------------------------------------------------------------ readers: sorted(resolved_names) *)
(* Python's order on str: lexicographic on code points, a proper prefix first *)
Fixpoint str_leb (a b : str) : bool :=
  match a, b with
  | [], _ => true
  | _ :: _, [] => false
  | x :: a', y :: b' => if x <? y then true else if x =? y then str_leb a' b' else false
  end.

Fixpoint insert_name (x : str) (l : list str) : list str :=
  match l with
  | [] => [x]
  | y :: l' => if str_leb x y then x :: l else y :: insert_name x l'
  end.

Definition sort_names (l : list str) : list str := fold_right insert_name [] l.

(* the order in which textFile / wholeTextFiles / binaryFiles / pickleFile hand the files to the tasks *)
Definition read_order (fs : fsys) (all_expr : str) : outcome :=
  match resolve_all fs all_expr with
  | Names l => Names (sort_names l)
  | Fail e => Fail e
  end.

(* absolute canonical path of the file a resolved name stands for (used as the file's content in the
   correspondence run, so that collect() shows which file was read at which position) *)
Definition abs_path (fs : fsys) (s : str) : str := c_slash :: join c_slash (denote fs s).

(* well-formed tree: every component of the cwd and of every file is a real name without '/' *)
Definition comp_ok (c : str) : bool := is_proper c && negb (has_slash c).
Definition wf_fs (fs : fsys) : bool :=
  forallb comp_ok (cwd fs) &&
  forallb (fun f => forallb comp_ok f && match f with [] => false | _ => true end) (files fs).
