(* C08 -- executable model of saving and re-reading data sets through pysparkling.fileio.

   What is modelled (the repaired code, /repo after fixes 5ff69da and b3a17ea):
     rdd.py       saveAsTextFile / saveAsPickleFile   (single file for one partition, otherwise
                  <path>/part-NNNNN<codec suffix> per partition and <path>/_SUCCESS last)
     context.py   textFile / pickleFile / binaryFiles / binaryRecords / wholeTextFiles
                  (resolve -> sorted -> parallelize(names, max(#files, minPartitions)) -> per-file loader),
                  FixedLengthChunker / VariableLengthChunker
     fileio       File / TextFile load+dump (codec chosen from the file name on both paths, utf8 with
                  errors='ignore', newline='' when reading text: no translation of line endings),
                  codec/__init__.py get_codec over the regenerated FILE_ENDINGS table (Gen/Codecs.v),
                  fs/local.py resolve_filenames for wildcard-free expressions, exists, dump (overwrite)
   The compression codecs themselves (gzip, bz2, lzma, zipfile, tarfile) and pickle are Section
   parameters: black boxes, see Proofs/Files.v for the round-trip hypotheses.
   The file system is an association list path |-> bytes; directories exist through the files below them. *)
From Coq Require Import String ZArith NArith List Bool.
Require Import PV.Base.PyArith PV.Base.PyStrOps PV.Gen.Codecs PV.Gen.Parallelize.
Import ListNotations.
Open Scope Z_scope.

Definition bytes := list N.
Definition path := str.

(* ---------- results (exceptions are values) *)
Inductive res (A : Type) : Type :=
| Ok (a : A)
| Err (e : string).
Arguments Ok {A} a.
Arguments Err {A} e.

Definition res_map {A B} (f : A -> B) (r : res A) : res B :=
  match r with Ok a => Ok (f a) | Err e => Err e end.
Definition res_bind {A B} (r : res A) (f : A -> res B) : res B :=
  match r with Ok a => f a | Err e => Err e end.
(* evaluation order of a job: the first failing element decides *)
Fixpoint res_all {A} (l : list (res A)) : res (list A) :=
  match l with
  | [] => Ok []
  | r :: l' => res_bind r (fun a => res_map (cons a) (res_all l'))
  end.

(* ---------- str.encode('utf8', 'ignore') / bytes.decode('utf8', 'ignore') *)
Section Utf8.
Open Scope N_scope.

Definition is_surrogate (c : N) : bool := (55296 <=? c) && (c <=? 57343).
(* a Unicode scalar value: what a well-formed Python str consists of *)
Definition is_scalar (c : N) : bool := (c <? 1114112) && negb (is_surrogate c).

Definition utf8_char (c : N) : bytes :=
  if c <? 128 then [c]
  else if c <? 2048 then [192 + c / 64; 128 + c mod 64]
  else if c <? 65536 then
    if is_surrogate c then []   (* errors='ignore': a lone surrogate is dropped *)
    else [224 + c / 4096; 128 + (c / 64) mod 64; 128 + c mod 64]
  else if c <? 1114112 then [240 + c / 262144; 128 + (c / 4096) mod 64; 128 + (c / 64) mod 64; 128 + c mod 64]
  else [].

Definition utf8_encode (s : str) : bytes := flat_map utf8_char s.

Definition is_cont (b : N) : bool := (128 <=? b) && (b <? 192).

(* well-formed sequences decode exactly; an ill-formed lead byte is skipped (errors='ignore';
   CPython skips the maximal ill-formed prefix -- generators only produce well-formed input) *)
Fixpoint utf8_decode (b : bytes) : str :=
  match b with
  | [] => []
  | b0 :: r0 =>
      if b0 <? 128 then b0 :: utf8_decode r0
      else if (194 <=? b0) && (b0 <? 224) then
        match r0 with
        | b1 :: r1 =>
            if is_cont b1 then ((b0 - 192) * 64 + (b1 - 128)) :: utf8_decode r1 else utf8_decode r0
        | [] => []
        end
      else if (224 <=? b0) && (b0 <? 240) then
        match r0 with
        | b1 :: b2 :: r2 =>
            let c := (b0 - 224) * 4096 + (b1 - 128) * 64 + (b2 - 128) in
            if is_cont b1 && is_cont b2 && (2048 <=? c) && negb (is_surrogate c)
            then c :: utf8_decode r2 else utf8_decode r0
        | _ => utf8_decode r0
        end
      else if (240 <=? b0) && (b0 <? 245) then
        match r0 with
        | b1 :: b2 :: b3 :: r3 =>
            let c := (b0 - 240) * 262144 + (b1 - 128) * 4096 + (b2 - 128) * 64 + (b3 - 128) in
            if is_cont b1 && is_cont b2 && is_cont b3 && (65536 <=? c) && (c <? 1114112)
            then c :: utf8_decode r3 else utf8_decode r0
        | _ => utf8_decode r0
        end
      else utf8_decode r0
  end.

(* the characters at which str.splitlines() breaks: \n \v \f \r \x1c \x1d \x1e \x85     *)
Definition line_breaks : list N := [10; 11; 12; 13; 28; 29; 30; 133; 8232; 8233].
Definition is_break (c : N) : bool := existsb (N.eqb c) line_breaks.

(* str.splitlines(): "\r\n" counts as one break; no empty last line after a final break *)
Fixpoint splitlines (s : str) : list str :=
  match s with
  | [] => []
  | c :: s' =>
      if is_break c then
        [] :: match s' with
              | d :: s'' => if (c =? 13) && (d =? 10) then splitlines s'' else splitlines s'
              | [] => []
              end
      else match splitlines s' with
           | [] => [[c]]
           | l :: ls => (c :: l) :: ls
           end
  end.
End Utf8.

(* ---------- codecs *)
Inductive codec : Type :=
| CCodec      (* fileio.codec.Codec: no extension in the last path component; identity *)
| CNoCodec    (* NoCodec: an extension that is not in FILE_ENDINGS; identity *)
| CTar | CTarGz | CTarBz2 | CGz | CZip | CBz2 | CLzma | CSevenZ
| COther.     (* a class name this model does not know *)

Definition codec_of_name (s : string) : codec :=
  if String.eqb s "Codec" then CCodec
  else if String.eqb s "NoCodec" then CNoCodec
  else if String.eqb s "Tar" then CTar
  else if String.eqb s "TarGz" then CTarGz
  else if String.eqb s "TarBz2" then CTarBz2
  else if String.eqb s "Gz" then CGz
  else if String.eqb s "Zip" then CZip
  else if String.eqb s "Bz2" then CBz2
  else if String.eqb s "Lzma" then CLzma
  else if String.eqb s "SevenZ" then CSevenZ
  else COther.

(* fileio.codec.get_codec (regenerated guard, loop and table) *)
Definition get_codec (p : path) : codec := codec_of_name (get_codec_name p).

Definition trivial_codec (c : codec) : bool :=
  match c with CCodec | CNoCodec => true | _ => false end.
(* a codec class of the table that really transforms the stream *)
Definition compressing (c : codec) : bool :=
  match c with CCodec | CNoCodec | COther => false | _ => true end.

(* all endings of the table, in table order *)
Definition all_endings : list str := flat_map (fun ec : list str * string => fst ec) file_endings.
Definition has_codec_ext (p : path) : bool := existsb (fun e => ends_with p e) all_endings.

Definition fs := list (path * bytes).

Definition slash : N := 47%N.
Definition dot_slash : str := [46%N; 47%N].

Section Files.
(* the compression libraries: black boxes *)
Variable compress : codec -> bytes -> bytes.
Variable decompress : codec -> bytes -> option bytes.

Definition enc (c : codec) (b : bytes) : bytes := if trivial_codec c then b else compress c b.
Definition dec (c : codec) (b : bytes) : option bytes := if trivial_codec c then Some b else decompress c b.

(* ---------- fs/local.py *)
Definition fs_lookup (f : fs) (p : path) : option bytes :=
  match find (fun e => str_eqb (fst e) p) f with
  | Some e => Some (snd e)
  | None => None
  end.
(* names produced for a relative expression carry a leading "./" *)
Definition fs_lookup_rel (f : fs) (p : path) : option bytes :=
  match fs_lookup f p with
  | Some b => Some b
  | None => if starts_with p dot_slash then fs_lookup f (skipn 2 p) else None
  end.
(* Local.dump: open(path, 'wb') -- replaces an existing file, creates the directories *)
Definition fs_write (f : fs) (p : path) (b : bytes) : fs :=
  filter (fun e => negb (str_eqb (fst e) p)) f ++ [(p, b)].
Definition fs_isfile (f : fs) (p : path) : bool := existsb (fun e => str_eqb (fst e) p) f.
Definition fs_isdir (f : fs) (p : path) : bool := existsb (fun e => starts_with (fst e) (p ++ [slash])) f.
Definition fs_exists (f : fs) (p : path) : bool := fs_isfile f p || fs_isdir f p.

(* "/part" *)
Definition part_glob : str := [47; 112; 97; 114; 116]%N.

(* Local.resolve_filenames for an expression without wildcard characters:
   the file itself, or every file below it whose path matches  expr + '/part*'  (fnmatch's * crosses '/') *)
Definition resolve (f : fs) (expr : str) : list path :=
  if fs_isfile f expr then [expr]
  else
    let pre := if contains_char slash expr then [] else dot_slash in
    map (fun e => pre ++ fst e) (filter (fun e => starts_with (fst e) (expr ++ part_glob)) f).

(* File.dump / TextFile.dump of already encoded bytes: codec chosen from the file name *)
Definition dump (f : fs) (p : path) (b : bytes) : fs := fs_write f p (enc (get_codec p) b).

(* File.load: codec chosen from the file name *)
Definition load_bytes (f : fs) (name : path) : res bytes :=
  match fs_lookup_rel f name with
  | None => Err "FileNotFoundError"
  | Some b => match dec (get_codec name) b with
              | None => Err "DecodeError"
              | Some d => Ok d
              end
  end.
(* TextFile.load(...).read(): the stream is opened with newline='' (io.open / TextIOWrapper), so the
   decoded text is returned as it is in the file, line endings included *)
Definition load_text (f : fs) (name : path) : res str :=
  res_map utf8_decode (load_bytes f name).

(* ---------- Context.parallelize (kernels par_take / par_single regenerated from context.py) *)
Fixpoint par_chain {A} (xs : list A) (len n : Z) (idx : list Z) : list (list A) :=
  match idx with
  | [] => []
  | i :: idx' =>
      let k := Z.to_nat (par_take i len n) in
      firstn k xs :: par_chain (skipn k xs) len n idx'
  end.
Definition parallelize {A} (xs : list A) (n : Z) : list (list A) :=
  if par_single n then [xs] else par_chain xs (Z.of_nat (length xs)) n (zrange 0 n).

(* n_partitions = len(resolved); if minPartitions and minPartitions > n_partitions: n_partitions = minPartitions *)
Definition n_partitions (nfiles : nat) (minP : option Z) : Z :=
  match minP with
  | Some m => if negb (m =? 0) && (m >? Z.of_nat nfiles) then m else Z.of_nat nfiles
  | None => Z.of_nat nfiles
  end.

(* the common shape of textFile / pickleFile / binaryFiles / wholeTextFiles:
   parallelize(sorted(resolved), n).flatMap(loader), observed partition by partition (glom) *)
Definition read_parts {A} (loader : path -> res (list A)) (f : fs) (expr : str) (minP : option Z)
  : res (list (list A)) :=
  let names := sort_str (resolve f expr) in
  res_all (map (fun part => res_map (@concat A) (res_all (map loader part)))
               (parallelize names (n_partitions (length names) minP))).

Definition read_text (f : fs) (expr : str) (minP : option Z) : res (list (list str)) :=
  read_parts (fun n => res_map splitlines (load_text f n)) f expr minP.

Definition whole_text_files (f : fs) (expr : str) (minP : option Z) : res (list (list (path * str))) :=
  read_parts (fun n => res_map (fun s => [(n, s)]) (load_text f n)) f expr minP.

Definition binary_files (f : fs) (expr : str) (minP : option Z) : res (list (list (path * bytes))) :=
  read_parts (fun n => res_map (fun b => [(n, b)]) (load_bytes f n)) f expr minP.

(* ---------- the savers *)
(* the common shape of saveAsTextFile / saveAsPickleFile; [payload] renders one partition (or, on the
   single-file fast path, the collected data set) *)
Definition save_parts {A} (payload : list A -> bytes) (sfx : path -> str) (pname : Z -> str -> str)
           (marker : str) (f : fs) (p : path) (parts : list (list A)) : res fs :=
  if fs_exists f p then Err "FileAlreadyExistsException"
  else if (length parts =? 1)%nat then Ok (dump f p (payload (concat parts)))
  else
    let s := sfx p in
    let f1 := fold_left (fun (f : fs) (ip : Z * list A) =>
                           dump f (path_join p (pname (fst ip) s)) (payload (snd ip)))
                        (combine (zrange 0 (Z.of_nat (length parts))) parts) f in
    Ok (dump f1 (path_join p marker) []).

(* to_stringio + TextFile.dump: every element followed by "\n", utf8 *)
Definition text_payload (lines : list str) : bytes := utf8_encode (concat (map text_line lines)).

Definition save_text (f : fs) (p : path) (parts : list (list str)) : res fs :=
  save_parts text_payload text_codec_suffix text_part_name text_marker_name f p parts.

(* ---------- pickle: a black box [dumps]/[loads] over an arbitrary object type *)
Section Pickle.
Variable obj : Type.
Variable dumps : list obj -> bytes.
Variable loads : bytes -> res (list obj).

Definition save_pickle (f : fs) (p : path) (parts : list (list obj)) : res fs :=
  save_parts dumps pickle_codec_suffix pickle_part_name pickle_marker_name f p parts.
Definition pickle_file (f : fs) (expr : str) (minP : option Z) : res (list (list obj)) :=
  read_parts (fun n => res_bind (load_bytes f n) loads) f expr minP.
End Pickle.

(* ---------- binaryRecords *)
Inductive reclen : Type :=
| RLNone                                  (* every file is one record *)
| RLFixed (L : Z)                         (* FixedLengthChunker *)
| RLVar (big_endian : bool) (w : nat).    (* VariableLengthChunker with struct format '<'/'>' + B/H/I/Q *)

(* range(0, len(data), L) for L > 0 *)
Definition chunk_starts (len L : Z) : list Z :=
  map (fun k => Z.of_nat k * L) (seq 0 (Z.to_nat ((len + L - 1) / L))).

Definition fixed_chunks (L : Z) (data : bytes) : res (list bytes) :=
  if L =? 0 then Err "ValueError"          (* range() arg 3 must not be zero *)
  else if L <? 0 then Ok []                (* empty range *)
  else Ok (map (fixed_chunk_at data L) (chunk_starts (Z.of_nat (length data)) L)).

(* struct.unpack(fmt, prefix)[0]; struct.error when the prefix is too short *)
Definition unpack_len (big_endian : bool) (w : nat) (prefix : bytes) : option Z :=
  if (length prefix =? w)%nat then Some (if big_endian then be_decode prefix else le_decode prefix) else None.

Fixpoint var_chunks_fuel (fuel : nat) (big_endian : bool) (w : nat) (data : bytes) : res (list bytes) :=
  match data with
  | [] => Ok []
  | _ :: _ =>
      match fuel with
      | O => Err "OutOfFuel"
      | S fuel' =>
          match var_chunk_step (unpack_len big_endian w) (Z.of_nat w) data with
          | None => Err "error"
          | Some (pkg, rest) => res_map (cons pkg) (var_chunks_fuel fuel' big_endian w rest)
          end
      end
  end.
(* every iteration consumes the w >= 1 prefix bytes, so len(data) iterations suffice *)
Definition var_chunks (big_endian : bool) (w : nat) (data : bytes) : res (list bytes) :=
  var_chunks_fuel (length data) big_endian w data.

Definition chunker (rl : reclen) (data : bytes) : res (list bytes) :=
  match rl with
  | RLNone => Ok [data]
  | RLFixed L => fixed_chunks L data
  | RLVar be w => var_chunks be w data
  end.

Definition binary_records (f : fs) (expr : str) (rl : reclen) : res (list (list bytes)) :=
  read_parts (fun n => res_bind (load_bytes f n) (chunker rl)) f expr None.

(* the framing the property speaks of *)
Definition frame (big_endian : bool) (w : nat) (r : bytes) : bytes :=
  (if big_endian then be_encode w (Z.of_nat (length r)) else le_encode w (Z.of_nat (length r))) ++ r.

End Files.
