(* Executable model of DataFrame joins on column names (property C13), as the code is in /repo today
   (RDD.join multiplies duplicate keys since fix f381172; merge_schemas drops the right side's
   fields for leftsemi/leftanti since fix 7a47d84):

     sql/dataframe.py   DataFrame.join / crossJoin     -> df_join, df_cross_join   (argument checks, JOIN_TYPES)
     sql/internals.py   DataFrameInternal.join         -> internal_join
                        join_on_values                 -> join_on_values
                        cross_join                     -> cross_join_rows
     utils.py           merge_rows_joined_on_values    -> merge_joined
                        merge_rows                     -> merge_rows
     sql/schema_utils.py merge_schemas, get_on_fields  -> merge_schemas, get_on_fields
     rdd.py             groupByKey, collectAsMap, cogroup, join, leftOuterJoin, rightOuterJoin,
                        fullOuterJoin, _leftSemiJoin, _leftAntiJoin, cartesian  -> section KeyedRDD

   The tables that say which `how` selects which RDD join / key fields / padding / field groups are NOT
   written here: they are PV.Gen.Joins, regenerated from the source on every run.

   Representation.
     cell   = a value in a row: None | int | str              (the generators use nothing else)
     field  = StructField(name, dataType, nullable) of a BOUND schema: FieldIdGenerator.bind_schema gives every
              field of a DataFrame's schema a unique `id` attribute, and StructField.__eq__ compares __dict__
              (id, name, dataType, nullable, metadata), so `field not in on_fields` removes exactly the
              fields that get_on_fields picked, not other fields that merely look the same.
              dataType is a small integer code; metadata is always empty here
     row    = (row.__fields__, tuple(row))
     table  = (bound schema, list of partitions); every RDD method used here starts from
              toLocalIterator()/collect(), i.e. from the concatenation of the partitions.
     dict / defaultdict = association list in insertion order, lookup by ==
     set    = list without duplicates, in SOME order (cogroup iterates over a set union: the model fixes
              "keys of self, then the new keys of other"; observers must not depend on it)
     Python None in a joined pair = Coq None; the `()` placeholder of _leftSemiJoin is also None (it is
              never inspected: merge_rows_joined_on_values ignores `right` for leftsemi).
   Definitions only; lemmas are in PV.Proofs.SqlJoin*. *)
From Coq Require Import ZArith NArith List Bool String.
Require Import PV.Gen.Joins.
Import ListNotations.

(* ------------------------------------------------------------------------------------------ *)
(** * Values, names, fields, rows *)
Definition name := list N.

Fixpoint name_eqb (a b : name) : bool :=
  match a, b with
  | [], [] => true
  | x :: a', y :: b' => N.eqb x y && name_eqb a' b'
  | _, _ => false
  end.

Inductive cell : Set := CNull | CInt (z : Z) | CStr (s : name).

Definition cell_eqb (a b : cell) : bool :=
  match a, b with
  | CNull, CNull => true
  | CInt x, CInt y => Z.eqb x y
  | CStr x, CStr y => name_eqb x y
  | _, _ => false
  end.

Fixpoint cells_eqb (a b : list cell) : bool :=
  match a, b with
  | [], [] => true
  | x :: a', y :: b' => cell_eqb x y && cells_eqb a' b'
  | _, _ => false
  end.

Record field : Set := mkField { fid : N; fname : name; ftype : Z; fnullable : bool }.

Definition field_eqb (f g : field) : bool :=
  N.eqb (fid f) (fid g) && name_eqb (fname f) (fname g) && Z.eqb (ftype f) (ftype g)
  && Bool.eqb (fnullable f) (fnullable g).

Definition schema := list field.
Definition names_of (s : schema) : list name := map fname s.

Definition row := (list name * list cell)%type.
Definition row_fields (r : row) : list name := fst r.
Definition row_values (r : row) : list cell := snd r.

Definition name_mem (c : name) (l : list name) : bool := existsb (name_eqb c) l.
Definition field_mem (f : field) (l : list field) : bool := existsb (field_eqb f) l.

(* tuple.index *)
Fixpoint index_of (c : name) (ns : list name) : option nat :=
  match ns with
  | [] => None
  | n :: ns' => if name_eqb n c then Some O
                else match index_of c ns' with Some i => Some (S i) | None => None end
  end.

(* Row.__getitem__(name): position of the first field of that name; None = ValueError/KeyError *)
Definition row_get_opt (r : row) (c : name) : option cell :=
  match index_of c (row_fields r) with
  | Some i => nth_error (row_values r) i
  | None => None
  end.
(* The error branch cannot be reached from DataFrame.join: merge_schemas has already resolved every
   `on` name in both bound schemas (StopIteration otherwise) and rows carry their schema's names.
   Every theorem that talks about keys assumes [row_get_opt] succeeds, so the default decides nothing. *)
Definition row_get (r : row) (c : name) : cell :=
  match row_get_opt r c with Some v => v | None => CNull end.

Inductive result (A : Type) : Type := Ok (a : A) | Err (e : string).
Arguments Ok {A} a.
Arguments Err {A} e.
(* exception class names, as the harness reports them *)
Definition StopIteration : string := "StopIteration".
Definition IllegalArgumentException : string := "IllegalArgumentException".
Definition NotImplementedError : string := "NotImplementedError".

(* ------------------------------------------------------------------------------------------ *)
(** * rdd.py: the keyed join family on flattened pair lists *)
Section KeyedRDD.
  Context {K : Type} (keqb : K -> K -> bool).

  (* d[k] / d.get(k) / `k in d` *)
  Fixpoint dict_get {A} (k : K) (d : list (K * A)) : option A :=
    match d with
    | [] => None
    | (k', a) :: d' => if keqb k' k then Some a else dict_get k d'
    end.
  Definition dict_has {A} (k : K) (d : list (K * A)) : bool :=
    match dict_get k d with Some _ => true | None => false end.

  (* d[k] = a : overwrite in place or append *)
  Fixpoint dict_set {A} (k : K) (a : A) (d : list (K * A)) : list (K * A) :=
    match d with
    | [] => [(k, a)]
    | (k', a') :: d' => if keqb k' k then (k', a) :: d' else (k', a') :: dict_set k a d'
    end.
  (* dict(pairs) -- collectAsMap, defaultdict(list, pairs) *)
  Definition dict_of_list {A} (l : list (K * A)) : list (K * A) :=
    fold_left (fun d kv => dict_set (fst kv) (snd kv) d) l [].

  (* r = defaultdict(list); r[key].append(value) *)
  Fixpoint group_add {A} (k : K) (v : A) (g : list (K * list A)) : list (K * list A) :=
    match g with
    | [] => [(k, [v])]
    | (k', vs) :: g' => if keqb k' k then (k', vs ++ [v]) :: g' else (k', vs) :: group_add k v g'
    end.
  (* groupByKey().collect(): r.items() *)
  Definition group_by_key {A} (xs : list (K * A)) : list (K * list A) :=
    fold_left (fun g kv => group_add (fst kv) (snd kv) g) xs [].

  Definition joined (V W : Type) := (K * (option V * option W))%type.

  Section Joins.
    Context {V W : Type}.

    (* RDD.join *)
    Definition rdd_inner_join (xs : list (K * V)) (ys : list (K * W)) : list (joined V W) :=
      let d_other := dict_of_list (group_by_key ys) in
      flat_map (fun kv =>
        flat_map (fun v_self =>
          map (fun v_other => (fst kv, (Some v_self, Some v_other)))
              (match dict_get (fst kv) d_other with Some ws => ws | None => [] end))
          (snd kv))
        (group_by_key xs).

    (* RDD.leftOuterJoin *)
    Definition rdd_left_outer_join (xs : list (K * V)) (ys : list (K * W)) : list (joined V W) :=
      let d_other := dict_of_list (group_by_key ys) in
      flat_map (fun kv =>
        flat_map (fun v_self =>
          map (fun v_other => (fst kv, (Some v_self, v_other)))
              (match dict_get (fst kv) d_other with Some ws => map Some ws | None => [None] end))
          (snd kv))
        (group_by_key xs).

    (* RDD.rightOuterJoin: iterates over the groups of `other`, v_other outermost *)
    Definition rdd_right_outer_join (xs : list (K * V)) (ys : list (K * W)) : list (joined V W) :=
      let d_self := dict_of_list (group_by_key xs) in
      flat_map (fun kv =>
        flat_map (fun v_other =>
          map (fun v_self => (fst kv, (v_self, Some v_other)))
              (match dict_get (fst kv) d_self with Some vs => map Some vs | None => [None] end))
          (snd kv))
        (group_by_key ys).

    (* RDD.cogroup: (k, [list(d_self[k]), list(d_other[k])]) for k in set(d_self) | set(d_other) *)
    Definition rdd_cogroup (xs : list (K * V)) (ys : list (K * W)) : list (K * (list V * list W)) :=
      let d_self := dict_of_list (group_by_key xs) in
      let d_other := dict_of_list (group_by_key ys) in
      let keys := map fst d_self ++ filter (fun k => negb (dict_has k d_self)) (map fst d_other) in
      map (fun k => (k, (match dict_get k d_self with Some vs => vs | None => [] end,
                         match dict_get k d_other with Some ws => ws | None => [] end))) keys.

    (* RDD.fullOuterJoin *)
    Definition rdd_full_outer_join (xs : list (K * V)) (ys : list (K * W)) : list (joined V W) :=
      flat_map (fun kv =>
        flat_map (fun v_self =>
          map (fun v_other => (fst kv, (v_self, v_other)))
              (match snd (snd kv) with [] => [None] | ws => map Some ws end))
          (match fst (snd kv) with [] => [None] | vs => map Some vs end))
        (rdd_cogroup xs ys).

    (* RDD._leftSemiJoin: (k, (v_self, ())) for v_self in vs if k in d_other *)
    Definition rdd_left_semi_join (xs : list (K * V)) (ys : list (K * W)) : list (joined V W) :=
      let d_other := dict_of_list (group_by_key ys) in
      flat_map (fun kv =>
        flat_map (fun v_self => if dict_has (fst kv) d_other then [(fst kv, (Some v_self, None))] else [])
                 (snd kv))
        (group_by_key xs).

    (* RDD._leftAntiJoin: (k, (v_self, None)) for v_self in vs if k not in d_other *)
    Definition rdd_left_anti_join (xs : list (K * V)) (ys : list (K * W)) : list (joined V W) :=
      let d_other := dict_of_list (group_by_key ys) in
      flat_map (fun kv =>
        flat_map (fun v_self => if dict_has (fst kv) d_other then [] else [(fst kv, (Some v_self, None))])
                 (snd kv))
        (group_by_key xs).

    Definition rdd_join_by (m : rdd_join) : list (K * V) -> list (K * W) -> list (joined V W) :=
      match m with
      | M_join => rdd_inner_join
      | M_leftOuterJoin => rdd_left_outer_join
      | M_rightOuterJoin => rdd_right_outer_join
      | M_fullOuterJoin => rdd_full_outer_join
      | M__leftSemiJoin => rdd_left_semi_join
      | M__leftAntiJoin => rdd_left_anti_join
      end.
  End Joins.
End KeyedRDD.

(* RDD.cartesian: [(a, b) for a in v1 for b in v2] *)
Definition rdd_cartesian {A B} (xs : list A) (ys : list B) : list (A * B) :=
  flat_map (fun a => map (fun b => (a, b)) ys) xs.

(* ------------------------------------------------------------------------------------------ *)
(** * sql/schema_utils.py *)

(* next(field for field in schema if field.name == c); None = StopIteration *)
Definition get_on_field (s : schema) (c : name) : option field :=
  find (fun f => name_eqb (fname f) c) s.

Fixpoint get_on_fields (s : schema) (on : list name) : option (list field) :=
  match on with
  | [] => Some []
  | c :: on' =>
      match get_on_field s c with
      | Some f => match get_on_fields s on' with Some fs => Some (f :: fs) | None => None end
      | None => None
      end
  end.

Definition other_fields (s : schema) (on_fields : list field) : list field :=
  filter (fun f => negb (field_mem f on_fields)) s.

Definition merge_schemas (ls rs : schema) (h : how) (on : list name) : result schema :=
  match get_on_fields ls on, get_on_fields rs on with
  | Some lof, Some rof =>
      let other_left := other_fields ls lof in
      let other_right := other_fields rs rof in
      match schema_on_fields h with
      | Some choice =>
          let on_fields :=
            match choice with
            | OnLeft => lof
            | OnRight => rof
            | OnLeftNullable => map (fun f => mkField 0 (fname f) (ftype f) true) lof   (* fresh, unbound fields *)
            end in
          Ok (on_fields ++ other_left ++ (if schema_drops_right h then [] else other_right))
      | None => Err IllegalArgumentException
      end
  | _, _ => Err StopIteration
  end.

(* ------------------------------------------------------------------------------------------ *)
(** * utils.py *)

(* merge_rows: create_row(chain(left.__fields__, right.__fields__), left + right) *)
Definition merge_rows (l r : row) : row := (row_fields l ++ row_fields r, row_values l ++ row_values r).

(* create_row(names, [None for _ in names]) *)
Definition null_row (s : schema) : row := (names_of s, map (fun _ => CNull) s).

(* ((field.name, value) for field, value in zip(schema.fields, row) if field not in on_fields) *)
Definition other_parts (s : schema) (on_fields : list field) (r : row) : list (name * cell) :=
  map (fun fv => (fname (fst fv), snd fv))
      (filter (fun fv => negb (field_mem (fst fv) on_fields)) (combine s (row_values r))).

Definition row_from_keyed_values (kvs : list (name * cell)) : row := (map fst kvs, map snd kvs).

Definition merge_joined (ls rs : schema) (h : how) (on : list name) (left right : option row) : result row :=
  match get_on_fields ls on, get_on_fields rs on with
  | Some lof, Some rof =>
      (* left[on_field] if left is not None else right[on_field] *)
      let src := match left, right with
                 | Some l, _ => l
                 | None, Some r => r
                 | None, None => ([], [])     (* unreachable: no join emits (None, None) *)
                 end in
      let on_parts := map (fun c => (c, row_get src c)) on in
      let left' := match left with
                   | None => if row_pads_left h then Some (null_row ls) else None
                   | Some l => Some l
                   end in
      let right' := match right with
                    | None => if row_pads_right h then Some (null_row rs) else None
                    | Some r => Some r
                    end in
      (* zip(schema.fields, None) would be a TypeError; the joins that leave a side None either pad it
         or (semi/anti, right side) never look at it *)
      let left_parts := match left' with Some l => other_parts ls lof l | None => [] end in
      match row_right_parts h with
      | Some true =>
          let right_parts := match right' with Some r => other_parts rs rof r | None => [] end in
          Ok (row_from_keyed_values (on_parts ++ left_parts ++ right_parts))
      | Some false => Ok (row_from_keyed_values (on_parts ++ left_parts))
      | None => Err IllegalArgumentException
      end
  | _, _ => Err StopIteration
  end.

(* ------------------------------------------------------------------------------------------ *)
(** * sql/internals.py *)
Definition table := (schema * list (list row))%type.
Definition t_schema (t : table) : schema := fst t.
Definition t_rows (t : table) : list row := List.concat (snd t).      (* toLocalIterator() / collect() *)

(* add_key: tuple(row[c] for c in on)  |  True *)
Inductive key : Set := KTrue | KTuple (cs : list cell).
Definition key_eqb (a b : key) : bool :=
  match a, b with
  | KTrue, KTrue => true
  | KTuple x, KTuple y => cells_eqb x y
  | _, _ => false
  end.

Definition add_key (h : how) (on : list name) (r : row) : key * row :=
  (if key_is_tuple h then KTuple (map (row_get r) on) else KTrue, r).

Fixpoint sequence {A} (l : list (result A)) : result (list A) :=
  match l with
  | [] => Ok []
  | Ok a :: l' => match sequence l' with Ok r => Ok (a :: r) | Err e => Err e end
  | Err e :: _ => Err e
  end.

Definition join_on_values (l r : table) (on : list name) (h : how) : result (list row) :=
  let keyed_self := map (add_key h on) (t_rows l) in
  let keyed_other := map (add_key h on) (t_rows r) in
  match rdd_method h with
  | Some m =>
      let joined_rdd := rdd_join_by key_eqb m keyed_self keyed_other in
      sequence (map (fun e => merge_joined (t_schema l) (t_schema r) h on (fst (snd e)) (snd (snd e)))
                    joined_rdd)
  | None => Err IllegalArgumentException
  end.

Definition cross_join_rows (l r : table) : list row :=
  map (fun e => merge_rows (fst e) (snd e)) (rdd_cartesian (t_rows l) (t_rows r)).

(* DataFrameInternal.join for `on` = None (cross) or a list of column names *)
Definition internal_join (l r : table) (on : option (list name)) (h : how) : result (schema * list row) :=
  match on with
  | None =>
      if how_eqb h CROSS_JOIN then
        match merge_schemas (t_schema l) (t_schema r) h [] with
        | Ok s => Ok (s, cross_join_rows l r)
        | Err e => Err e
        end
      else Err NotImplementedError      (* `on` is a Column expression otherwise: not modelled, never generated *)
  | Some on =>
      match merge_schemas (t_schema l) (t_schema r) h on with
      | Ok s => match join_on_values l r on h with
                | Ok rows => Ok (s, rows)
                | Err e => Err e
                end
      | Err e => Err e
      end
  end.

(* ------------------------------------------------------------------------------------------ *)
(** * sql/dataframe.py: DataFrame.join(other, on, how) with on = None | str | [str] *)
Inductive on_arg : Set := OnNone | OnStr (c : name) | OnList (cs : list name).

Definition lower_ascii (c : N) : N := if (65 <=? c)%N && (c <=? 90)%N then (c + 32)%N else c.
(* how.lower().replace("_", "") *)
Definition normalise_how (s : name) : name := filter (fun c => negb (N.eqb c 95)) (map lower_ascii s).

Fixpoint lookup_how (s : name) (tbl : list (name * how)) : option how :=
  match tbl with
  | [] => None
  | (k, h) :: tbl' => if name_eqb k s then Some h else lookup_how s tbl'
  end.

Definition df_join (l r : table) (on : on_arg) (how_str : name) : result (schema * list row) :=
  let on := match on with OnNone => None | OnStr c => Some [c] | OnList cs => Some cs end in
  match lookup_how (normalise_how how_str) join_types with
  | None => Err IllegalArgumentException
  | Some h =>
      match on with
      | Some _ => if how_eqb h CROSS_JOIN then Err IllegalArgumentException else internal_join l r on h
      | None => if how_eqb h CROSS_JOIN then internal_join l r None h else Err IllegalArgumentException
      end
  end.

(* DataFrame.crossJoin -> DataFrameInternal.crossJoin -> self.join(other, on=None, how="cross") *)
Definition df_cross_join (l r : table) : result (schema * list row) := internal_join l r None CROSS_JOIN.

(* ------------------------------------------------------------------------------------------ *)
(** * Evaluating a joined DataFrame more than once
   A DataFrame is lazy: `join` only builds the plan (flatMap over grouped RDDs) and every action
   (collect, count, rdd.collect, toLocalIterator, or a further filter/select followed by an action)
   re-runs it.  In the model the joined DataFrame IS the value [df_join l r on how]; an action is a pure
   function of it and hands the object on unchanged, so a session of actions on the same object cannot
   influence later outcomes.  The implementation could (closures over a dict or a one-shot iterator
   built at join time); that side is carried by the correspondence run and the oracle, which evaluate
   every joined DataFrame several times and in several ways on the same object. *)
Inductive action : Set := ACollect | ACount | ARddCollect | AFilterTrue | ALocalIterator | ASelectAll.

Inductive outcome : Type :=
| ORows (r : result (schema * list row))     (* the rows seen by that evaluation *)
| OCount (r : result nat).

Definition joined_df := result (schema * list row).

(* one action: (object afterwards, outcome) *)
Definition run_action (j : joined_df) (a : action) : joined_df * outcome :=
  (j, match a with
      | ACount => OCount (match j with Ok (_, rows) => Ok (List.length rows) | Err e => Err e end)
      | ACollect | ARddCollect | AFilterTrue | ALocalIterator | ASelectAll => ORows j
      end).

(* a session: the actions run one after the other on the object the previous action left behind *)
Fixpoint run_session (j : joined_df) (acts : list action) : list outcome :=
  match acts with
  | [] => []
  | a :: acts' => let (j', o) := run_action j a in o :: run_session j' acts'
  end.
