(* C05 -- model of persist()/cache(), the cache managers and unpersist(), as the code is today
   (pysparkling/rdd.py PersistedRDD, MapPartitionsRDD; cache_manager.py CacheManager, TimedCacheManager;
    context.py Context.newRddId / runJob / _runJob_local / _runJob_distributed / runJob_map).

   Definitions only.  What is modelled:
   * dataset ids come from ONE counter (the class attribute Context.__last_rdd_id): [alloc_all];
   * a pipeline is a source (explicit partitions) followed by element-wise stages map / filter / flatMap
     (and generator-style mapPartitions functions) and persist marks; every stage is a dataset of its own with its own id; actions may be run on ANY
     node (prefix) of a pipeline;
   * Python generator laziness: a partition is evaluated as a *lazy stream* whose cells carry the user
     calls that producing that element costs ([lstream]); take(n)/first() pull element by element and
     partition by partition, collect()/count() force everything;
   * PersistedRDD.compute: key (rdd id, partition index) in a local variable, lookup, or
     compute-upstream-fully-and-add; the descent starts at the LAST stage (a cached downstream persist
     hides everything upstream of it);
   * CacheManager (dict in insertion order) and TimedCacheManager (_time_added, gc, add = add+stamp+gc,
     join = update+stamp+gc, delete forgets the stamps of the ident, clone_contains starts with an empty
     _time_added); entries carry a ghost field: the time at which they were added;
   * local jobs (DummyPool, and allowLocal for first/take) and pool jobs (clone per partition taken at
     submission, task in the clone, new entries joined back in order);
   * unpersist(): deletes (id, i) for every partition i from the context's manager, returns prev;
   * the log of user-function calls: (id of the dataset owning the function, partition, argument). *)
From Coq Require Import ZArith List Bool.
Import ListNotations.
Open Scope Z_scope.

Definition key := (Z * Z)%type.
Definition key_eqb (a b : key) : bool := (fst a =? fst b) && (snd a =? snd b).

Section Model.
Variable A : Type.

(* ------------------------------------------------------------------ user calls *)
(* ev_arg: Some x = an element function was called on x; None = a partition function started to run *)
Record event := Ev { ev_rid : Z; ev_part : Z; ev_arg : option A }.

Inductive stage :=
| SMap (f : A -> A)
| SFilter (p : A -> bool)
| SFlatMap (g : A -> list A)
| SIdx (f : Z -> Z -> A -> A)       (* element-wise function of (partition index, position in the partition, element):
                                      mapPartitionsWithIndex over enumerate, or a function reading the task context's
                                      partition id as zipWithUniqueId does *)
| SPart (h : list A -> list A)      (* mapPartitions / mapPartitionsWithIndex with a generator function
                                      that consumes its whole input (in any number of steps) when first pulled *)
| SPersist.

Definition node := (Z * stage)%type.          (* (dataset id, what it does to its parent) *)

(* ------------------------------------------------------------------ cache-free evaluator *)
Fixpoint enum_from {X Y} (g : Z -> X -> Y) (e : Z) (l : list X) : list Y :=
  match l with [] => [] | x :: l' => g e x :: enum_from g (e + 1) l' end.

(* [i]: the index of the partition *)
Definition plain_stage (i : Z) (s : stage) (xs : list A) : list A :=
  match s with
  | SIdx f => enum_from (f i) 0 xs
  | SMap f => map f xs
  | SFilter p => filter p xs
  | SFlatMap g => flat_map g xs
  | SPart h => h xs
  | SPersist => xs
  end.

(* stages in pipeline order (source first) *)
Definition plain_eval (i : Z) (sts : list stage) (xs : list A) : list A :=
  fold_left (fun acc s => plain_stage i s acc) sts xs.

(* the same with the node list in REVERSE order (last stage first), as [compute] descends *)
Fixpoint plain_rev (i : Z) (rn : list node) (xs : list A) : list A :=
  match rn with
  | [] => xs
  | (_, s) :: up => plain_stage i s (plain_rev i up xs)
  end.

(* ------------------------------------------------------------------ lazy streams *)
Definition cell := (list event * A)%type.
Record lstream := LS { cells : list cell; trail : list event }.

Definition of_list (xs : list A) : lstream := LS (map (fun x => ([], x)) xs) [].

Definition lmap (rid i : Z) (f : A -> A) (s : lstream) : lstream :=
  LS (map (fun c => (fst c ++ [Ev rid i (Some (snd c))], f (snd c))) (cells s)) (trail s).

Fixpoint lfilter_go (rid i : Z) (p : A -> bool) (pend : list event) (cs : list cell) (tr : list event)
  : lstream :=
  match cs with
  | [] => LS [] (pend ++ tr)
  | (evs, x) :: cs' =>
      let e := pend ++ evs ++ [Ev rid i (Some x)] in
      if p x then let r := lfilter_go rid i p [] cs' tr in LS ((e, x) :: cells r) (trail r)
      else lfilter_go rid i p e cs' tr
  end.
Definition lfilter rid i p (s : lstream) := lfilter_go rid i p [] (cells s) (trail s).

Fixpoint lflat_go (rid i : Z) (g : A -> list A) (pend : list event) (cs : list cell) (tr : list event)
  : lstream :=
  match cs with
  | [] => LS [] (pend ++ tr)
  | (evs, x) :: cs' =>
      let e := pend ++ evs ++ [Ev rid i (Some x)] in
      match g x with
      | [] => lflat_go rid i g e cs' tr
      | y :: ys => let r := lflat_go rid i g [] cs' tr in
                   LS ((e, y) :: map (fun y' => ([], y')) ys ++ cells r) (trail r)
      end
  end.
Definition lflat rid i g (s : lstream) := lflat_go rid i g [] (cells s) (trail s).

Fixpoint lidx_go (rid i : Z) (f : Z -> Z -> A -> A) (e : Z) (cs : list cell) : list cell :=
  match cs with
  | [] => []
  | (evs, x) :: cs' => (evs ++ [Ev rid i (Some x)], f i e x) :: lidx_go rid i f (e + 1) cs'
  end.
Definition lidx (rid i : Z) (f : Z -> Z -> A -> A) (s : lstream) : lstream := LS (lidx_go rid i f 0 (cells s)) (trail s).

(* a generator function over the partition iterator: nothing happens until the first element is asked
   for; then the body starts (logged), consumes the whole input -- every upstream call happens now --
   and yields the elements of h(input) one by one *)
Definition lpart (rid i : Z) (h : list A -> list A) (s : lstream) : lstream :=
  let evs := Ev rid i None :: (concat (map fst (cells s)) ++ trail s) in
  match h (map snd (cells s)) with
  | [] => LS [] evs
  | y :: ys => LS ((evs, y) :: map (fun y' => ([], y')) ys) []
  end.

Definition stream_elems (s : lstream) : list A := map snd (cells s).
Definition stream_events (s : lstream) : list event := concat (map fst (cells s)) ++ trail s.
(* list(iterator) *)
Definition force (s : lstream) : list A * list event := (stream_elems s, stream_events s).

(* itertools.islice(it, n) on one partition: elements, user calls, demand still open afterwards.
   When the demand is met the iterator is not advanced any further (no trailing calls). *)
Fixpoint ltake (n : nat) (cs : list cell) (tr : list event) : list A * list event * nat :=
  match n with
  | O => ([], [], O)
  | S n' =>
      match cs with
      | [] => ([], tr, n)
      | (evs, x) :: cs' => let '(xs, es, r) := ltake n' cs' tr in (x :: xs, evs ++ es, r)
      end
  end.

(* ------------------------------------------------------------------ cache managers *)
Record mgr := Mgr {
  m_timeout : option Z;                       (* None: CacheManager; Some t: TimedCacheManager(timeout=t) *)
  m_entries : list (key * (list A * Z));      (* cache_obj in insertion order: key -> (mem_obj, ghost: time added) *)
  m_times : list (key * Z)                    (* _time_added, oldest first *)
}.

Definition empty_mgr (t : option Z) : mgr := Mgr t [] [].

Fixpoint dict_get {V} (k : key) (d : list (key * V)) : option V :=
  match d with
  | [] => None
  | (k', v) :: d' => if key_eqb k k' then Some v else dict_get k d'
  end.
Fixpoint dict_set {V} (k : key) (v : V) (d : list (key * V)) : list (key * V) :=
  match d with
  | [] => [(k, v)]
  | (k', v') :: d' => if key_eqb k k' then (k', v) :: d' else (k', v') :: dict_set k v d'
  end.
Definition dict_del {V} (k : key) (d : list (key * V)) : list (key * V) :=
  filter (fun kv => negb (key_eqb k (fst kv))) d.

Definition m_get (k : key) (m : mgr) : option (list A) :=
  match dict_get k (m_entries m) with Some (d, _) => Some d | None => None end.
Definition m_has (k : key) (m : mgr) : bool :=
  match dict_get k (m_entries m) with Some _ => true | None => false end.
(* delete: CacheManager.delete removes the ident from cache_obj; TimedCacheManager.delete (repaired,
   a58d69d) first forgets every stamp of the ident.  A CacheManager has no stamps, so one definition. *)
Definition drop_stamps (k : key) (ta : list (key * Z)) : list (key * Z) :=
  filter (fun kt => negb (key_eqb k (fst kt))) ta.
Definition m_delete (k : key) (m : mgr) : mgr :=
  Mgr (m_timeout m) (dict_del k (m_entries m)) (drop_stamps k (m_times m)).

(* TimedCacheManager.gc: while the head of _time_added has a stamp <= threshold, delete(ident) -- which
   removes the entry and ALL stamps of that ident.  The loop shortens _time_added by at least one stamp
   per round; [fuel] = its initial length is therefore never exhausted. *)
Fixpoint gc_go (fuel : nat) (thr : Z) (ta : list (key * Z)) (es : list (key * (list A * Z)))
  : list (key * Z) * list (key * (list A * Z)) :=
  match fuel with
  | O => (ta, es)
  | S fuel' =>
      match ta with
      | [] => ([], es)
      | (k, t) :: ta' => if t >? thr then (ta, es) else gc_go fuel' thr (drop_stamps k ta') (dict_del k es)
      end
  end.
Definition m_gc (now : Z) (m : mgr) : mgr :=
  match m_timeout m with
  | None => m
  | Some to =>
      let '(ta, es) := gc_go (length (m_times m)) (now - to) (m_times m) (m_entries m) in Mgr (m_timeout m) es ta
  end.

Definition m_add (now : Z) (k : key) (d : list A) (m : mgr) : mgr :=
  match m_timeout m with
  | None => Mgr None (dict_set k (d, now) (m_entries m)) (m_times m)
  | Some to => m_gc now (Mgr (Some to) (dict_set k (d, now) (m_entries m)) (m_times m ++ [(k, now)]))
  end.

(* join(cache_objects): cache_obj.update, one stamp per joined ident (repaired code), gc *)
Definition m_join (now : Z) (new : list (key * (list A * Z))) (m : mgr) : mgr :=
  let es := fold_left (fun acc kv => dict_set (fst kv) (fst (snd kv), now) acc) new (m_entries m) in
  match m_timeout m with
  | None => Mgr None es (m_times m)
  | Some to => m_gc now (Mgr (Some to) es (m_times m ++ map (fun kv => (fst kv, now)) new))
  end.

(* clone_contains(lambda i: i[1] == index): same class and timeout, filtered cache_obj, fresh _time_added *)
Definition m_clone (idx : Z) (m : mgr) : mgr :=
  Mgr (m_timeout m) (filter (fun kv => snd (fst kv) =? idx) (m_entries m)) [].

Definition m_idents (m : mgr) : list key := map fst (m_entries m).
Definition key_in (k : key) (ks : list key) : bool := existsb (key_eqb k) ks.
(* get_not_in(idents) *)
Definition m_not_in (ks : list key) (m : mgr) : list (key * (list A * Z)) :=
  filter (fun kv => negb (key_in (fst kv) ks)) (m_entries m).

(* ------------------------------------------------------------------ compute of one partition *)
(* [rn]: nodes of the dataset in reverse order (the dataset itself first, the stage next to the source
   last).  Returns the lazy iterator, the manager and the user calls that have ALREADY happened when
   compute() returns (persisted ancestors that were not cached are computed eagerly). *)
Fixpoint compute (now : Z) (rn : list node) (i : Z) (src : list A) (m : mgr)
  : lstream * mgr * list event :=
  match rn with
  | [] => (of_list src, m, [])
  | (rid, SPersist) :: up =>
      match m_get (rid, i) m with
      | Some data => (of_list data, m, [])
      | None =>
          let '(s, m1, ev) := compute now up i src m in
          let '(data, ev2) := force s in
          (of_list data, m_add now (rid, i) data m1, ev ++ ev2)
      end
  | (rid, SMap f) :: up =>
      let '(s, m1, ev) := compute now up i src m in (lmap rid i f s, m1, ev)
  | (rid, SFilter p) :: up =>
      let '(s, m1, ev) := compute now up i src m in (lfilter rid i p s, m1, ev)
  | (rid, SFlatMap g) :: up =>
      let '(s, m1, ev) := compute now up i src m in (lflat rid i g s, m1, ev)
  | (rid, SPart h) :: up =>
      let '(s, m1, ev) := compute now up i src m in (lpart rid i h s, m1, ev)
  | (rid, SIdx f) :: up =>
      let '(s, m1, ev) := compute now up i src m in (lidx rid i f s, m1, ev)
  end.

(* ------------------------------------------------------------------ jobs *)
(* collect()/count() on the local path: every partition in order, fully *)
Fixpoint run_all (now : Z) (rn : list node) (parts : list (list A)) (i : Z) (m : mgr)
  : list (list A) * list event * mgr :=
  match parts with
  | [] => ([], [], m)
  | src :: ps =>
      let '(s, m1, ev0) := compute now rn i src m in
      let '(xs, ev1) := force s in
      let '(rest, ev2, m2) := run_all now rn ps (i + 1) m1 in
      (xs :: rest, ev0 ++ ev1 ++ ev2, m2)
  end.

(* take(n)/first(): allowLocal; the job generator is advanced only while elements are missing *)
Fixpoint run_take (now : Z) (rn : list node) (parts : list (list A)) (i : Z) (n : nat) (m : mgr)
  : list A * list event * mgr :=
  match n with
  | O => ([], [], m)
  | S _ =>
      match parts with
      | [] => ([], [], m)
      | src :: ps =>
          let '(s, m1, ev0) := compute now rn i src m in
          let '(xs, ev1, r) := ltake n (cells s) (trail s) in
          let '(ys, ev2, m2) := run_take now rn ps (i + 1) r m1 in
          (xs ++ ys, ev0 ++ ev1 ++ ev2, m2)
      end
  end.

(* collect()/count() through a pool: clone per partition (all taken from the driver's manager at
   submission), the task runs in its clone, the entries the clone did not have are joined back *)
Fixpoint pool_tasks (now : Z) (rn : list node) (parts : list (list A)) (i : Z) (m0 : mgr)
  : list (list A * list event * list (key * (list A * Z))) :=
  match parts with
  | [] => []
  | src :: ps =>
      let cl := m_clone i m0 in
      let before := m_idents cl in
      let '(s, cl1, ev0) := compute now rn i src cl in
      let '(xs, ev1) := force s in
      (xs, ev0 ++ ev1, m_not_in before cl1) :: pool_tasks now rn ps (i + 1) m0
  end.
Definition run_pool (now : Z) (rn : list node) (parts : list (list A)) (m : mgr)
  : list (list A) * list event * mgr :=
  let ts := pool_tasks now rn parts 0 m in
  (map (fun t => fst (fst t)) ts,
   concat (map (fun t => snd (fst t)) ts),
   fold_left (fun acc t => m_join now (snd t) acc) ts m).

(* ------------------------------------------------------------------ worlds and histories *)
Record ctx_cfg := Ctx { c_mgr : nat; c_pool : bool }.
Record pipeline := Pipe {
  p_ctx : nat;
  p_src : Z;                     (* id of the source dataset *)
  p_parts : list (list A);
  p_nodes : list node            (* in pipeline order *)
}.
Record world := World { w_ctxs : list ctx_cfg; w_pipes : list pipeline }.

(* Context.newRddId on the process-wide counter: RDD.__init__ of the source, then of every stage *)
Fixpoint number (c : Z) (sts : list stage) : list node * Z :=
  match sts with
  | [] => ([], c)
  | s :: sts' => let '(ns, c') := number (c + 1) sts' in ((c + 1, s) :: ns, c')
  end.
Definition pipe_spec := (nat * list (list A) * list stage)%type.
Fixpoint alloc_all (c : Z) (specs : list pipe_spec) : list pipeline * Z :=
  match specs with
  | [] => ([], c)
  | (cx, parts, sts) :: specs' =>
      let '(ns, c1) := number (c + 1) sts in
      let '(ps, c2) := alloc_all c1 specs' in
      (Pipe cx (c + 1) parts ns :: ps, c2)
  end.

Inductive akind := ACollect | ACount | ATake (n : nat) | AFirst.
Inductive action :=
| Act (k j : nat) (a : akind)      (* action on node j (0 = the source) of pipeline k *)
| Unpersist (k j : nat)            (* node j of pipeline k .unpersist() *)
| Advance (dt : Z)                 (* the clock moves *)
| Gc (mi : nat).                   (* explicit gc() on manager mi *)

Inductive result :=
| RList (l : list A) | RCount (n : Z) | RElem (x : A) | RStop (* StopIteration *)
| RNode (j : nat) (contents : list A)   (* unpersist: which node came back, and what it contains *)
| RUnit | RBad.

Record state := St { s_now : Z; s_mgrs : list mgr }.

Fixpoint set_nth {X} (n : nat) (x : X) (l : list X) : list X :=
  match l, n with
  | [], _ => []
  | _ :: l', O => x :: l'
  | y :: l', S n' => y :: set_nth n' x l'
  end.

Definition rev_prefix (j : nat) (ns : list node) : list node := rev (firstn j ns).

Definition finish (a : akind) (parts : list (list A)) : result :=
  match a with
  | ACollect => RList (concat parts)
  | ACount => RCount (Z.of_nat (length (concat parts)))
  | ATake n => RList (firstn n (concat parts))
  | AFirst => match concat parts with x :: _ => RElem x | [] => RStop end
  end.

Definition run_action_on (pool : bool) (now : Z) (rn : list node) (parts : list (list A)) (a : akind) (m : mgr)
  : result * list event * mgr :=
  match a with
  | ACollect | ACount =>
      let '(ps, ev, m') := if pool then run_pool now rn parts m else run_all now rn parts 0 m in
      (finish a ps, ev, m')
  | ATake n => let '(xs, ev, m') := run_take now rn parts 0 n m in (RList xs, ev, m')
  | AFirst => let '(xs, ev, m') := run_take now rn parts 0 1%nat m in
              (match xs with x :: _ => RElem x | [] => RStop end, ev, m')
  end.

Fixpoint delete_parts (rid : Z) (n : nat) (i : Z) (m : mgr) : mgr :=
  match n with
  | O => m
  | S n' => delete_parts rid n' (i + 1) (m_delete (rid, i) m)
  end.

(* contents of node j of a pipeline according to the cache-free evaluator *)
Fixpoint imap_from {X Y} (g : Z -> X -> Y) (i : Z) (l : list X) : list Y :=
  match l with [] => [] | x :: l' => g i x :: imap_from g (i + 1) l' end.
Definition node_contents (P : pipeline) (j : nat) : list (list A) :=
  imap_from (fun i => plain_rev i (rev_prefix j (p_nodes P))) 0 (p_parts P).

Definition step (w : world) (st : state) (a : action) : result * list event * state :=
  match a with
  | Act k j ak =>
      match nth_error (w_pipes w) k with
      | None => (RBad, [], st)
      | Some P =>
          match nth_error (w_ctxs w) (p_ctx P) with
          | None => (RBad, [], st)
          | Some cx =>
              match nth_error (s_mgrs st) (c_mgr cx) with
              | None => (RBad, [], st)
              | Some m =>
                  if (length (p_nodes P) <? j)%nat then (RBad, [], st) else
                  let '(r, ev, m') :=
                    run_action_on (c_pool cx) (s_now st) (rev_prefix j (p_nodes P)) (p_parts P) ak m in
                  (r, ev, St (s_now st) (set_nth (c_mgr cx) m' (s_mgrs st)))
              end
          end
      end
  | Unpersist k j =>
      match nth_error (w_pipes w) k with
      | None => (RBad, [], st)
      | Some P =>
          match nth_error (w_ctxs w) (p_ctx P) with
          | None => (RBad, [], st)
          | Some cx =>
              match nth_error (s_mgrs st) (c_mgr cx) with
              | None => (RBad, [], st)
              | Some m =>
                  match j with
                  | O => (RNode O (concat (node_contents P O)), [], st)       (* RDD.unpersist: self *)
                  | S j' =>
                      match nth_error (p_nodes P) j' with
                      | Some (rid, SPersist) =>
                          let m' := delete_parts rid (length (p_parts P)) 0 m in
                          (RNode j' (concat (node_contents P j')), [],
                           St (s_now st) (set_nth (c_mgr cx) m' (s_mgrs st)))
                      | Some _ => (RNode j (concat (node_contents P j)), [], st)
                      | None => (RBad, [], st)
                      end
                  end
              end
          end
      end
  | Advance dt => (RUnit, [], St (s_now st + dt) (s_mgrs st))
  | Gc mi =>
      match nth_error (s_mgrs st) mi with
      | None => (RUnit, [], st)
      | Some m => (RUnit, [], St (s_now st) (set_nth mi (m_gc (s_now st) m) (s_mgrs st)))
      end
  end.

(* a history: every action's result, user calls, and the state it leaves *)
Fixpoint run_history (w : world) (st : state) (h : list action) : list (result * list event * state) :=
  match h with
  | [] => []
  | a :: h' => let '(r, ev, st') := step w st a in (r, ev, st') :: run_history w st' h'
  end.

Definition final_state (w : world) (st : state) (h : list action) : state :=
  fold_left (fun s a => snd (step w s a)) h st.

(* the cache-free reading of an action: what the property compares against *)
Definition spec_action (w : world) (a : action) : result :=
  match a with
  | Act k j ak =>
      match nth_error (w_pipes w) k with
      | Some P => if (length (p_nodes P) <? j)%nat then RBad else finish ak (node_contents P j)
      | None => RBad
      end
  | Unpersist k j =>
      match nth_error (w_pipes w) k with
      | Some P =>
          match j with
          | O => RNode O (concat (node_contents P O))
          | S j' =>
              match nth_error (p_nodes P) j' with
              | Some (_, SPersist) => RNode j' (concat (node_contents P j'))
              | Some _ => RNode j (concat (node_contents P j))
              | None => RBad
              end
          end
      | None => RBad
      end
  | Advance _ => RUnit
  | Gc _ => RUnit
  end.

End Model.

Arguments Ev {A}. Arguments SMap {A}. Arguments SFilter {A}. Arguments SFlatMap {A}. Arguments SPart {A}. Arguments SIdx {A}. Arguments SPersist {A}.
Arguments LS {A}. Arguments Mgr {A}. Arguments Pipe {A}. Arguments World {A}. Arguments St {A}.
Arguments RList {A}. Arguments RCount {A}. Arguments RElem {A}. Arguments RStop {A}. Arguments RNode {A}.
Arguments RUnit {A}. Arguments RBad {A}.
Arguments plain_stage {A}.
Arguments plain_eval {A}.
Arguments plain_rev {A}.
Arguments of_list {A}.
Arguments lmap {A}.
Arguments lfilter_go {A}.
Arguments lfilter {A}.
Arguments lflat_go {A}.
Arguments lflat {A}.
Arguments lpart {A}.
Arguments lidx_go {A}.
Arguments lidx {A}.
Arguments stream_elems {A}.
Arguments stream_events {A}.
Arguments force {A}.
Arguments ltake {A}.
Arguments m_get {A}.
Arguments m_has {A}.
Arguments m_delete {A}.
Arguments gc_go {A}.
Arguments drop_stamps k ta : simpl never.
Arguments m_gc {A}.
Arguments m_add {A}.
Arguments m_join {A}.
Arguments m_clone {A}.
Arguments m_idents {A}.
Arguments m_not_in {A}.
Arguments compute {A}.
Arguments run_all {A}.
Arguments run_take {A}.
Arguments pool_tasks {A}.
Arguments run_pool {A}.
Arguments number {A}.
Arguments alloc_all {A}.
Arguments rev_prefix {A}.
Arguments finish {A}.
Arguments run_action_on {A}.
Arguments delete_parts {A}.
Arguments node_contents {A}.
Arguments step {A}.
Arguments run_history {A}.
Arguments final_state {A}.
Arguments spec_action {A}.
Arguments cells {A}.
Arguments trail {A}.
Arguments m_timeout {A}.
Arguments m_entries {A}.
Arguments m_times {A}.
Arguments p_ctx {A}.
Arguments p_src {A}.
Arguments p_parts {A}.
Arguments p_nodes {A}.
Arguments w_ctxs {A}.
Arguments w_pipes {A}.
Arguments s_now {A}.
Arguments s_mgrs {A}.
Arguments ev_rid {A}.
Arguments ev_part {A}.
Arguments ev_arg {A}.
