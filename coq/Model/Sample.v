(* C16 -- executable model of sampling in pysparkling (rdd.py: sample, sampleByKey, takeSample,
   randomSplit, PartitionwiseSampledRDD, _computeFractionForSampleSize; samplers.py).

   The Mersenne twister is NOT modelled.  A random generator is an ORACLE STREAM: [oracle] maps
   the key a generator is seeded with ([random.Random(key)], [random.seed(key)]) to the finite
   prefix of its two answer streams
       gu : the floats .random() returns, in order,
       gb : raw integers; ._randbelow(n) returns raw mod n  (randint, shuffle go through it).
   Two generators seeded with the same key answer from the start of the same streams ("equal
   seeds give equal streams" is the only fact about the twister that is used, and it is part of
   the type of [oracle]).  A stream that runs out makes the model return [Err "DrawsExhausted"];
   a terminating run of the implementation consumes a finite prefix, so statements that hold for
   every finite stream hold for every run.
   The module-level generator of the [random] module is explicit state ([gstate]).
   math.exp / math.log are uninterpreted ([fexp], [flog]); floats are [spec_float] (NumSF).
   Arithmetic kernels come regenerated from /repo (PV.Gen.Sampling, PV.Gen.Parallelize). *)
From Coq Require Import ZArith NArith List Bool String.
From Coq Require Import SpecFloat.
Require Import PV.Base.Num PV.Base.NumSF PV.Base.PyArith PV.Gen.Sampling PV.Gen.Parallelize.
Import ListNotations.
Open Scope Z_scope.

Inductive res (A : Type) : Type := Ok (a : A) | Err (e : string).
Arguments Ok {A} a.
Arguments Err {A} e.

Definition exhausted : string := "DrawsExhausted".

Definition lenZ {A} (l : list A) : Z := Z.of_nat (List.length l).

(* itertools.islice(x, n) / the rest, with an integer count (no unary blow-up for huge n) *)
Fixpoint takeZ {A} (n : Z) (l : list A) : list A :=
  match l with
  | [] => []
  | x :: t => if n <=? 0 then [] else x :: takeZ (n - 1) t
  end.
Fixpoint dropZ {A} (n : Z) (l : list A) : list A :=
  match l with
  | [] => []
  | x :: t => if n <=? 0 then l else dropZ (n - 1) t
  end.

(* ---------------------------------------------------------------- generators as oracle streams *)
Inductive seedk := KInt (z : Z) | KNone.
Record gen := mkGen { gu : list fl; gb : list Z }.
Definition oracle := seedk -> gen.
(* the module-level generator: the key of the last random.seed (None: never reseeded) and what is left *)
Record gstate := mkG { gtag : option seedk; ggen : gen }.

Definition randbelow (n : Z) (bs : list Z) : res (Z * list Z) :=
  match bs with
  | [] => Err exhausted
  | b :: bs' => Ok (b mod n, bs')
  end.

Definition g_seed (O : oracle) (k : seedk) : gstate := mkG (Some k) (O k).
Definition g_randbelow (n : Z) (g : gstate) : res (Z * gstate) :=
  match randbelow n (gb (ggen g)) with
  | Err e => Err e
  | Ok (j, bs') => Ok (j, mkG (gtag g) (mkGen (gu (ggen g)) bs'))
  end.

(* ---------------------------------------------------------------- samplers (samplers.py) *)
Definition draws := list fl.

Definition bernoulli (p : fl) (ds : draws) : res (nat * draws) :=
  match ds with
  | [] => Err exhausted
  | r :: ds' => Ok (Z.to_nat (bern_mult (N:=SFOps) r p), ds')
  end.

Section Model.
Variable fexp : fl -> fl.    (* math.exp *)
Variable flog : fl -> fl.    (* math.log *)

(* pysparkling_poisson: Knuth's loop; one draw per iteration, so the recursion is on the stream *)
Fixpoint knuth (e prod : fl) (n : nat) (ds : draws) : res (nat * draws) :=
  match ds with
  | [] => Err exhausted
  | r :: ds' =>
      let '(prod', more) := knuth_step (N:=SFOps) prod r e in
      if more then knuth e prod' (S n) ds' else Ok (n, ds')
  end.

Definition poisson (lam : fl) (ds : draws) : res (nat * draws) :=
  if poisson_guard (N:=SFOps) lam then Ok (Z.to_nat poisson_guard_result, ds)
  else knuth (fexp (poisson_exp_arg (N:=SFOps) lam)) (poisson_prod0 (N:=SFOps)) (Z.to_nat poisson_n0) ds.

Section Elements.
Variables A K : Type.
Variable key_of : A -> res K.          (* sample[0] *)
Variable keq : K -> K -> bool.         (* dict key equality *)

Fixpoint lookup (k : K) (tbl : list (K * fl)) (d : fl) : fl :=
  match tbl with
  | [] => d
  | (k', v) :: t => if keq k k' then v else lookup k t d
  end.

Inductive sampler :=
| SBern (p : fl)
| SPois (lam : fl)
| SBernKey (tbl : list (K * fl))
| SPoisKey (tbl : list (K * fl)).

(* sampler(x, rng, numpy_rng): the multiplicity of x and the draws that are left *)
Definition mult_of (s : sampler) (x : A) (ds : draws) : res (nat * draws) :=
  match s with
  | SBern p => bernoulli p ds
  | SPois lam => poisson lam ds
  | SBernKey tbl =>
      match key_of x with
      | Err e => Err e
      | Ok k =>
          match ds with
          | [] => Err exhausted
          | r :: ds' => Ok (Z.to_nat (bernkey_mult (N:=SFOps) r (lookup k tbl (bernkey_default (N:=SFOps)))), ds')
          end
      end
  | SPoisKey tbl =>
      match key_of x with
      | Err e => Err e
      | Ok k => poisson (lookup k tbl (poiskey_default (N:=SFOps))) ds
      end
  end.

(* PartitionwiseSampledRDD.compute on one partition: (x for x in part for _ in range(sampler(x, rng))) *)
Fixpoint sample_part (s : sampler) (xs : list A) (ds : draws) : res (list A) :=
  match xs with
  | [] => Ok []
  | x :: xs' =>
      match mult_of s x ds with
      | Err e => Err e
      | Ok (n, ds') =>
          match sample_part s xs' ds' with
          | Err e => Err e
          | Ok r => Ok (repeat x n ++ r)
          end
      end
  end.

(* every task creates random.Random(seed + split.index) *)
Fixpoint sample_parts_from (O : oracle) (s : sampler) (seed i : Z) (parts : list (list A)) : res (list (list A)) :=
  match parts with
  | [] => Ok []
  | p :: ps =>
      match sample_part s p (gu (O (KInt (task_seed seed i)))) with
      | Err e => Err e
      | Ok r =>
          match sample_parts_from O s seed (i + 1) ps with
          | Err e => Err e
          | Ok rs => Ok (r :: rs)
          end
      end
  end.

(* PartitionwiseSampledRDD.__init__: seed None -> random.randint(lo, hi) on the module-level generator *)
Definition resolve_seed (seed : seedk) (g : gstate) : res (Z * gstate) :=
  match seed with
  | KInt z => Ok (z, g)
  | KNone =>
      match g_randbelow (default_seed_hi - default_seed_lo + 1) g with
      | Err e => Err e
      | Ok (j, g') => Ok (default_seed_lo + j, g')
      end
  end.

(* rdd.sample(...) / rdd.sampleByKey(...) followed by glom().collect() *)
Definition sample_rdd (O : oracle) (s : sampler) (seed : seedk) (parts : list (list A)) (g : gstate)
  : res (list (list A) * gstate) :=
  match resolve_seed seed g with
  | Err e => Err e
  | Ok (z, g') =>
      match sample_parts_from O s z 0 parts with
      | Err e => Err e
      | Ok r => Ok (r, g')
      end
  end.

(* Context.parallelize(x, numSlices) *)
Fixpoint par_go (xs : list A) (len n i : Z) (k : nat) : list (list A) :=
  match k with
  | O => []
  | S k' => let t := par_take i len n in takeZ t xs :: par_go (dropZ t xs) len n (i + 1) k'
  end.
Definition parallelize (xs : list A) (n : Z) : list (list A) :=
  if par_single n then [xs] else par_go xs (lenZ xs) n 0 (Z.to_nat n).

(* random.shuffle: for i in reversed(range(1, len(x))): j = randbelow(i + 1); x[i], x[j] = x[j], x[i] *)
Fixpoint upd (xs : list A) (i : nat) (v : A) : list A :=
  match xs, i with
  | [], _ => []
  | _ :: t, O => v :: t
  | x :: t, S i' => x :: upd t i' v
  end.
Definition swap (xs : list A) (i j : nat) : list A :=
  match nth_error xs i, nth_error xs j with
  | Some a, Some b => upd (upd xs i b) j a
  | _, _ => xs
  end.
Fixpoint shuffle_go (i : nat) (xs : list A) (bs : list Z) : res (list A * list Z) :=
  match i with
  | O => Ok (xs, bs)
  | S i' =>
      match randbelow (Z.of_nat i + 1) bs with
      | Err e => Err e
      | Ok (j, bs') => shuffle_go i' (swap xs i (Z.to_nat j)) bs'
      end
  end.
Definition shuffle (xs : list A) (bs : list Z) : res (list A * list Z) :=
  shuffle_go (List.length xs - 1) xs bs.

(* ---------------------------------------------------------------- takeSample *)
Definition sys_maxsize : Z := 2 ^ 63 - 1.
Definition max_sample_size : Z := ts_max_sample_size (N:=SFOps) sf_sqrt sf_trunc sys_maxsize.
Definition fraction_for (num total : Z) (wr : bool) : fl :=
  compute_fraction (N:=SFOps) sf_sqrt flog sf_ofme num total wr.

(* while len(samples) < num: seed = rand.randint(0, sys.maxsize); samples = self.sample(...).collect()
   -- one raw integer of [rand] per iteration, so the recursion is on that stream *)
Fixpoint ts_loop (O : oracle) (s : sampler) (parts : list (list A)) (num : Z) (bs : list Z) (samples : list A)
  : res (list A * list Z) :=
  if num <=? lenZ samples then Ok (samples, bs)
  else
    match bs with
    | [] => Err exhausted
    | b :: bs' =>
        match sample_parts_from O s (0 + b mod (sys_maxsize - 0 + 1)) 0 parts with
        | Err e => Err e
        | Ok ps => ts_loop O s parts num bs' (List.concat ps)
        end
    end.

Definition takeSample (O : oracle) (wr : bool) (num : Z) (seed : seedk) (parts : list (list A)) (g : gstate)
  : res (list A * gstate) :=
  if num <? 0 then Err "ValueError"
  else if num =? 0 then Ok ([], g)
  else
    let init := takeZ num (List.concat parts) in
    let cnt := lenZ init in
    if cnt =? 0 then Ok ([], g)
    else
      let rand := O seed in
      if negb wr && (cnt <=? num) then
        match shuffle init (gb rand) with
        | Err e => Err e
        | Ok (l, _) => Ok (l, g)
        end
      else if max_sample_size <? num then Err "ValueError"
      else
        let fraction := fraction_for num cnt wr in
        let s := if wr then SPois fraction else SBern fraction in
        match sample_rdd O s seed parts g with
        | Err e => Err e
        | Ok (ps, g1) =>
            match ts_loop O s parts num (gb rand) (List.concat ps) with
            | Err e => Err e
            | Ok (samples, bs) =>
                match shuffle samples bs with
                | Err e => Err e
                | Ok (l, _) => Ok (takeZ num l, g1)
                end
            end
        end.

(* ---------------------------------------------------------------- randomSplit *)
Inductive wnum := WInt (z : Z) | WFloat (f : fl).
Definition w2f (w : wnum) : fl := match w with WInt z => sf_ofZ z | WFloat f => f end.

(* builtin sum() of CPython 3.12 on ints and floats, start 0: exact on the leading ints, then
   Neumaier-compensated float summation (plain += for an int item) *)
Inductive sumst := SumI (acc : Z) | SumF (f c : fl).
Definition sum_step (st : sumst) (w : wnum) : sumst :=
  match st, w with
  | SumI a, WInt z => SumI (a + z)
  | SumI a, WFloat x => SumF (sf_add (sf_ofZ a) x) sf_zero
  | SumF f c, WInt z => SumF (sf_add f (sf_ofZ z)) c
  | SumF f c, WFloat x =>
      let t := sf_add f x in
      let c' := if SFleb (SFabs x) (SFabs f) then sf_add c (sf_add (sf_sub f t) x)
                else sf_add c (sf_add (sf_sub x t) f) in
      SumF t c'
  end.
Definition sf_finite (x : fl) : bool := match x with S754_zero _ | S754_finite _ _ _ => true | _ => false end.
Definition py_sum (ws : list wnum) : wnum :=
  match fold_left sum_step ws (SumI 0) with
  | SumI a => WInt a
  | SumF f c => WFloat (if negb (sf_is_zero c) && sf_finite c then sf_add f c else f)
  end.

Definition w_is_zero (w : wnum) : bool := match w with WInt z => z =? 0 | WFloat f => sf_is_zero f end.

(* boundaries = [0]; for w in weights: boundaries.append(boundaries[-1] + w / sum_weights) *)
Fixpoint boundaries_from (last : fl) (ws : list wnum) (s : fl) : list fl :=
  match ws with
  | [] => []
  | w :: ws' => let b := rs_next (N:=SFOps) last (w2f w) s in b :: boundaries_from b ws' s
  end.
(* boundaries[-1] = 1.0 *)
Definition force_last (bs : list fl) : list fl :=
  match rs_force_last (N:=SFOps) with
  | Some v => removelast bs ++ [v]
  | None => bs
  end.
Definition boundaries (ws : list wnum) : res (list fl) :=
  match ws with
  | [] => Ok (force_last [rs_first (N:=SFOps)])
  | _ =>
      let s := py_sum ws in
      if w_is_zero s then Err "ZeroDivisionError"
      else Ok (force_last (rs_first (N:=SFOps) :: boundaries_from (rs_first (N:=SFOps)) ws (w2f s)))
  end.
(* zip(boundaries[:-1], boundaries[1:]) *)
Definition intervals (bs : list fl) : list (fl * fl) := combine (removelast bs) (tl bs).
Definition member (iv : fl * fl) (r : fl) : bool := rs_member (N:=SFOps) (fst iv) r (snd iv).

(* one random.random() per element of toLocalIterator() *)
Fixpoint tag_draws (es : list A) (us : draws) : res (list (A * fl) * draws) :=
  match es with
  | [] => Ok ([], us)
  | e :: es' =>
      match us with
      | [] => Err exhausted
      | r :: us' =>
          match tag_draws es' us' with
          | Err x => Err x
          | Ok (l, rest) => Ok ((e, r) :: l, rest)
          end
      end
  end.
(* lists[i] receives, in order, every element whose draw satisfies lb_i <= r < ub_i *)
Definition splits_of (ivs : list (fl * fl)) (tagged : list (A * fl)) : list (list A) :=
  map (fun iv => map fst (filter (fun er => member iv (snd er)) tagged)) ivs.

Definition randomSplit (O : oracle) (ws : list wnum) (seed : seedk) (parts : list (list A)) (g : gstate)
  : res (list (list A) * gstate) :=
  match boundaries ws with
  | Err e => Err e
  | Ok bs =>
      let g1 := g_seed O seed in
      match tag_draws (List.concat parts) (gu (ggen g1)) with
      | Err e => Err e
      | Ok (tagged, rest) => Ok (splits_of (intervals bs) tagged, mkG (gtag g1) (mkGen rest (gb (ggen g1))))
      end
  end.

End Elements.
End Model.
