(* C10 -- local list-based model of the RDD operations that pysparkling/streaming/dstream.py
   builds on (pysparkling/rdd.py, Context.parallelize / Context.union).  Definitions only.

   An RDD is its list of partitions (each the list of its elements, in order) plus one bit:
   whether the object is an instance of the class EmptyRDD (Context.union and DStream.repartition
   test isinstance(rdd, EmptyRDD); an EmptyRDD has zero partitions, but a MapPartitionsRDD over an
   EmptyRDD has zero partitions and is NOT an EmptyRDD).  Laziness of MapPartitionsRDD is not
   modelled (user functions are pure here); names (setName) are not modelled.

   Python values are PV.Base.Val.val; a pair (k, v) is VTup [k; v]; a Python list is VList. *)
From Coq Require Import String ZArith NArith List Bool.
Require Import PV.Base.Val PV.Base.PyArith PV.Gen.Parallelize.
Import ListNotations.
Open Scope Z_scope.

Record rdd := mkRdd { parts : list (list val); ecls : bool }.

Definition flat (r : rdd) : list val := concat (parts r).          (* rdd.collect() *)
Definition nparts (r : rdd) : Z := Z.of_nat (length (parts r)).     (* rdd.getNumPartitions() *)
Definition empty_rdd : rdd := mkRdd [] true.                        (* EmptyRDD(ctx) *)

(* ---------- Context.parallelize(x, numSlices) ----------
   numSlices None or <= 1: one partition.  Otherwise numSlices successive itertools.islice of the
   same iterator; the counts come from the regenerated kernel par_take. *)
Fixpoint par_slices (fuel : nat) (i len n : Z) (x : list val) : list (list val) :=
  match fuel with
  | O => []
  | S f => let k := Z.to_nat (par_take i len n) in
           firstn k x :: par_slices f (i + 1) len n (skipn k x)
  end.

Definition parallelize (x : list val) (numSlices : option Z) : rdd :=
  match numSlices with
  | None => mkRdd [x] false
  | Some n => if par_single n then mkRdd [x] false
              else mkRdd (par_slices (Z.to_nat n) 0 (Z.of_nat (length x)) n x) false
  end.

(* ---------- MapPartitionsRDD(prev, f): partitions of prev, compute = f(index, prev data) *)
Fixpoint mapi_from {A B : Type} (f : Z -> A -> B) (i : Z) (l : list A) : list B :=
  match l with
  | [] => []
  | a :: l' => f i a :: mapi_from f (i + 1) l'
  end.

Definition map_partitions_rdd (f : Z -> list val -> list val) (r : rdd) : rdd :=
  mkRdd (mapi_from f 0 (parts r)) false.

(* ---------- tuple access e[0], e[1] *)
Definition v_fst (e : val) : val :=
  match e with VTup (a :: _) => a | VList (a :: _) => a | _ => VErr "TypeError" end.
Definition v_snd (e : val) : val :=
  match e with VTup (_ :: b :: _) => b | VList (_ :: b :: _) => b | _ => VErr "TypeError" end.
Definition v_pair (a b : val) : val := VTup [a; b].
Definition v_items (v : val) : list val := match v with VList l => l | VTup l => l | _ => [] end.

(* ---------- the RDD methods used by DStream *)
Definition rdd_setName (r : rdd) : rdd := r.
Definition rdd_mapPartitionsWithIndex (f : Z -> list val -> list val) (r : rdd) : rdd :=
  map_partitions_rdd (fun i x => f i x) r.
Definition rdd_mapPartitions (f : list val -> list val) (r : rdd) : rdd :=
  map_partitions_rdd (fun _ x => f x) r.
Definition rdd_map (f : val -> val) (r : rdd) : rdd :=                 (* MapF(f) *)
  map_partitions_rdd (fun _ x => map f x) r.
Definition rdd_flatMap (f : val -> list val) (r : rdd) : rdd :=
  map_partitions_rdd (fun _ x => flat_map f x) r.
Definition rdd_filter (p : val -> bool) (r : rdd) : rdd :=
  map_partitions_rdd (fun _ x => filter p x) r.
Definition rdd_mapValues (f : val -> val) (r : rdd) : rdd :=
  map_partitions_rdd (fun _ x => map (fun e => v_pair (v_fst e) (f (v_snd e))) x) r.
Definition rdd_flatMapValues (f : val -> list val) (r : rdd) : rdd :=
  map_partitions_rdd (fun _ x => flat_map (fun xx => map (fun e => v_pair (v_fst xx) e) (f (v_snd xx))) x) r.

(* dict / defaultdict(list) as association lists in insertion order *)
Fixpoint dict_append (k v : val) (d : list (val * list val)) : list (val * list val) :=
  match d with
  | [] => [(k, [v])]
  | (k', vs) :: d' => if val_eqb k k' then (k', vs ++ [v]) :: d' else (k', vs) :: dict_append k v d'
  end.
Definition group_dict (xs : list val) : list (val * list val) :=
  fold_left (fun d e => dict_append (v_fst e) (v_snd e) d) xs [].

(* RDD.groupByKey(numPartitions): r = defaultdict(list); parallelize(r.items(), numPartitions) *)
Definition rdd_groupByKey (numPartitions : option Z) (r : rdd) : rdd :=
  let n := match numPartitions with None => nparts r | Some n => n end in
  parallelize (map (fun kv => v_pair (fst kv) (VList (snd kv))) (group_dict (flat r))) (Some n).

(* functools.reduce(f, x) *)
Definition py_reduce (f : val -> val -> val) (x : list val) : val :=
  match x with [] => VErr "TypeError" | a :: x' => fold_left f x' a end.

Definition rdd_reduceByKey (f : val -> val -> val) (numPartitions : option Z) (r : rdd) : rdd :=
  rdd_mapValues (fun x => py_reduce f (v_items x)) (rdd_groupByKey numPartitions r).

(* RDD.countByValue(): one defaultdict(int) per partition, merged in partition order *)
Fixpoint count_add (v : val) (n : Z) (d : list (val * Z)) : list (val * Z) :=
  match d with
  | [] => [(v, n)]
  | (v', m) :: d' => if val_eqb v v' then (v', m + n) :: d' else (v', m) :: count_add v n d'
  end.
Definition partition_counts (x : list val) : list (val * Z) :=
  fold_left (fun d v => count_add v 1 d) x [].
Definition rdd_countByValue (r : rdd) : list (val * Z) :=
  fold_left (fun d pd => fold_left (fun d' kv => count_add (fst kv) (snd kv) d') pd d)
            (map partition_counts (parts r)) [].

(* dict(list of pairs): last write wins, position of the first insertion *)
Fixpoint dict_set (k v : val) (d : list (val * val)) : list (val * val) :=
  match d with
  | [] => [(k, v)]
  | (k', v') :: d' => if val_eqb k k' then (k', v) :: d' else (k', v') :: dict_set k v d'
  end.
Definition py_dict (l : list val) : list (val * val) :=
  fold_left (fun d e => dict_set (v_fst e) (v_snd e) d) l [].
Fixpoint dict_get (k : val) (d : list (val * val)) : option val :=
  match d with
  | [] => None
  | (k', v) :: d' => if val_eqb k k' then Some v else dict_get k d'
  end.
Definition dict_keys (d : list (val * val)) : list val := map fst d.

(* RDD.cogroup(other, numPartitions): keys = set(d_self) | set(d_other); the iteration order of a
   Python set is not modelled -- here: keys of self in first-appearance order, then the new keys of
   other (observations are compared as multisets).  numPartitions is ignored by the code. *)
Definition union_keys (a b : list val) : list val :=
  a ++ filter (fun k => negb (existsb (val_eqb k) a)) b.
Definition dd_get (k : val) (d : list (val * val)) : list val :=      (* defaultdict(list)[k] *)
  match dict_get k d with Some v => v_items v | None => [] end.
Definition rdd_cogroup (self other : rdd) (numPartitions : option Z) : rdd :=
  let d_self := py_dict (flat (rdd_groupByKey None self)) in
  let d_other := py_dict (flat (rdd_groupByKey None other)) in
  parallelize (map (fun k => v_pair k (VList [VList (dd_get k d_self); VList (dd_get k d_other)]))
                   (union_keys (dict_keys d_self) (dict_keys d_other))) None.

Definition rdd_join (self other : rdd) (numPartitions : option Z) : rdd :=
  let n := match numPartitions with None => nparts self | Some n => n end in
  let d_other := py_dict (flat (rdd_groupByKey None other)) in
  rdd_flatMap (fun kv =>
      flat_map (fun v_self =>
        map (fun v_other => v_pair (v_fst kv) (v_pair v_self v_other))
            (match dict_get (v_fst kv) d_other with Some l => v_items l | None => [] end))
        (v_items (v_snd kv)))
    (rdd_groupByKey (Some n) self).

Definition rdd_leftOuterJoin (self other : rdd) (numPartitions : option Z) : rdd :=
  let d_other := py_dict (flat (rdd_groupByKey None other)) in
  rdd_flatMap (fun kv =>
      flat_map (fun v_self =>
        map (fun v_other => v_pair (v_fst kv) (v_pair v_self v_other))
            (match dict_get (v_fst kv) d_other with Some l => v_items l | None => [VNone] end))
        (v_items (v_snd kv)))
    (rdd_groupByKey None self).

Definition rdd_rightOuterJoin (self other : rdd) (numPartitions : option Z) : rdd :=
  let d_self := py_dict (flat (rdd_groupByKey None self)) in
  rdd_flatMap (fun kv =>
      flat_map (fun v_other =>
        map (fun v_self => v_pair (v_fst kv) (v_pair v_self v_other))
            (match dict_get (v_fst kv) d_self with Some l => v_items l | None => [VNone] end))
        (v_items (v_snd kv)))
    (rdd_groupByKey None other).

Definition or_none (l : list val) : list val := match l with [] => [VNone] | _ => l end.
Definition rdd_fullOuterJoin (self other : rdd) (numPartitions : option Z) : rdd :=
  rdd_flatMap (fun kv =>
      flat_map (fun v_self =>
        map (fun v_other => v_pair (v_fst kv) (v_pair v_self v_other))
            (or_none (v_items (v_snd (v_snd kv)))))
        (or_none (v_items (v_fst (v_snd kv)))))
    (rdd_cogroup self other numPartitions).

(* Context.union(rdds) for two RDDs *)
Definition ctx_union (a b : rdd) : rdd :=
  if ecls a && ecls b then empty_rdd else parallelize (flat a ++ flat b) None.

(* RDD.repartition(n) = coalesce(n, shuffle=True) = parallelize(toLocalIterator(), n) *)
Definition rdd_repartition (n : Z) (r : rdd) : rdd := parallelize (flat r) (Some n).

(* the expressions built by DStream.reduce / DStream.count / DStream.countByValue *)
Definition rdd_reduce_expr (f : val -> val -> val) (r : rdd) : rdd :=
  rdd_map v_snd (rdd_reduceByKey f None (rdd_map (fun i => v_pair VNone i) r)).
Definition op_add (a b : val) : val :=
  match a, b with VInt x, VInt y => VInt (x + y) | _, _ => VErr "TypeError" end.
Definition rdd_count_expr (r : rdd) : rdd :=
  rdd_reduce_expr op_add (rdd_mapPartitions (fun p => [VInt (Z.of_nat (length p))]) r).
Definition rdd_countByValue_expr (r : rdd) : rdd :=
  parallelize (map (fun kv => v_pair (fst kv) (VInt (snd kv))) (rdd_countByValue r)) None.

(* the value-level RDD actions the property compares with *)
Definition rdd_count (r : rdd) : Z := Z.of_nat (length (flat r)).
