(* C15 -- executable model of the schema / field-name / arity level of pysparkling DataFrames.

   Transcribed from sql/internals.py (DataFrameInternal, InternalGroupedDataFrame, GroupedStats),
   sql/dataframe.py, sql/schema_utils.py (merge_schemas, get_on_fields, get_schema_from_cols),
   sql/types.py (create_row, row_from_keyed_values, Row.__getitem__, StructType.__init__),
   utils.py (merge_rows, merge_rows_joined_on_values) and sql/session.py (createDataFrame, range).

   A frame keeps what the code keeps:
     fields : the bound schema's StructFields (name and the id given by FieldIdGenerator; the id
              is what StructField.__eq__ distinguishes fields of equal name by);
     snames : the StructType.names attribute (a list maintained separately from .fields);
     rows   : every Row as (its own __fields__ tuple, its values) in collect() order.
   Schema and rows are computed by separate code paths in the implementation and therefore by
   separate functions here; that they agree is the content of the theorems in Proofs/Schema.v.

   The string formats of generated column names (expression __str__, aggregate names, pivot names)
   and the tables saying which join type keeps the right side's fields -- separately for the schema
   (merge_schemas) and for the rows (merge_rows_joined_on_values) -- are NOT written here: they are
   regenerated from the source on every run into PV.Gen.SchemaNames (translator/kernels/c15.py).

   Cell values are Python ints and None (PV.Base.Val.val: VInt / VNone); pivot values may also be
   strings (VStr).  Definitions only -- no proofs in this file. *)
From Coq Require Import String Ascii ZArith NArith List Bool.
Require Import PV.Base.Val PV.Gen.SchemaNames.
Import ListNotations.
Open Scope Z_scope.
Close Scope string_scope.

(* ---------- results ---------- *)
Inductive res (A : Type) : Type := Ok (a : A) | Err (e : string).
Arguments Ok {A} a.
Arguments Err {A} e.

Definition bind {A B} (m : res A) (f : A -> res B) : res B :=
  match m with Ok a => f a | Err e => Err e end.
Notation "'do' x <- m ; k" := (bind m (fun x => k)) (at level 200, x name, m at level 100, k at level 200).

Fixpoint mapM {A B} (f : A -> res B) (l : list A) : res (list B) :=
  match l with
  | [] => Ok []
  | x :: l' => do y <- f x; do ys <- mapM f l'; Ok (y :: ys)
  end.

(* ---------- names ---------- *)
Definition name := list N.
Definition name_eqb : name -> name -> bool := list_N_eqb.

Fixpoint s2n (s : string) : name :=
  match s with EmptyString => [] | String a r => N_of_ascii a :: s2n r end.

Fixpoint pos_dec (fuel : nat) (z : Z) (acc : name) : name :=
  match fuel with
  | O => acc
  | S f => let acc' := Z.to_N (48 + z mod 10) :: acc in
           if z <? 10 then acc' else pos_dec f (z / 10) acc'
  end.
(* str(int) *)
Definition dec_of_Z (z : Z) : name :=
  if z <? 0 then 45%N :: pos_dec (S (Z.to_nat (Z.log2 (- z)))) (- z) []
  else pos_dec (S (Z.to_nat (Z.log2 z))) z [].

Definition mem_name (n : name) (l : list name) : bool := existsb (name_eqb n) l.
Fixpoint nodup_names (l : list name) : bool :=
  match l with [] => true | x :: l' => negb (mem_name x l') && nodup_names l' end.

(* ---------- fields, rows, frames ---------- *)
Record field := mkField { fname : name; fid : N }.
Definition row := (list name * list val)%type.        (* Row.__fields__ , tuple(row) *)
Record frame := mkFrame {
  fields : list field;     (* bound_schema.fields *)
  snames : list name;      (* bound_schema.names  *)
  rows : list row;         (* _rdd.collect()      *)
  ford : bool;             (* harness bookkeeping: is the row ORDER determined by the model? *)
  fval : bool              (* harness bookkeeping: is the row CONTENT determined by the model? *)
}.

(* StructField.__eq__ compares __dict__, which in a bound schema includes the id *)
Definition field_eqb (a b : field) : bool := N.eqb (fid a) (fid b) && name_eqb (fname a) (fname b).

(* ---------- schema construction: _set_schema = deepcopy + bind ---------- *)
(* a field that goes into a new schema: an existing bound field (keeps its id) or a newly
   constructed StructField (gets the next id from FieldIdGenerator) *)
Inductive pfield := POld (f : field) | PNew (n : name).
Definition pname (p : pfield) : name := match p with POld f => fname f | PNew n => n end.

Fixpoint bind_fields (c : N) (l : list pfield) : list field * N :=
  match l with
  | [] => ([], c)
  | PNew n :: l' => let (r, c') := bind_fields (c + 1)%N l' in (mkField n c :: r, c')
  | POld f :: l' => let (r, c') := bind_fields c l' in (f :: r, c')
  end.

(* what an operation hands to _with_rdd: schema fields, the StructType.names list, the rows *)
Record pre := mkPre { p_fields : list pfield; p_names : list name; p_rows : list row; p_ord : bool; p_val : bool }.
Definition finish (c : N) (p : pre) : frame * N :=
  let (fs, c') := bind_fields c (p_fields p) in
  (mkFrame fs (p_names p) (p_rows p) (p_ord p) (p_val p), c').

(* StructType(fields): names = [f.name for f in fields] *)
Definition struct_of (pfs : list pfield) (rs : list row) (o v : bool) : pre :=
  mkPre pfs (map pname pfs) rs o v.
(* _with_rdd(rdd, self.bound_schema): the same StructType object, deep-copied *)
Definition same_schema (f : frame) (rs : list row) (o v : bool) : pre :=
  mkPre (map (POld) (fields f)) (snames f) rs o v.

(* ---------- Row access ---------- *)
Fixpoint index_of (n : name) (l : list name) : option nat :=
  match l with
  | [] => None
  | x :: l' => if name_eqb n x then Some O else option_map S (index_of n l')
  end.
(* Row.__getitem__(str): first field of that name *)
Definition row_get (r : row) (n : name) : res val :=
  match index_of n (fst r) with
  | None => Err "ValueError"
  | Some i => match nth_error (snd r) i with Some v => Ok v | None => Err "KeyError" end
  end.
(* row_from_keyed_values *)
Definition row_of_pairs (kv : list (name * val)) : row := (map fst kv, map snd kv).

(* find_position_in_schema(schema, "name") *)
Fixpoint positions (n : name) (fs : list field) (i : nat) : list nat :=
  match fs with
  | [] => []
  | f :: fs' => if name_eqb n (fname f) then i :: positions n fs' (S i) else positions n fs' (S i)
  end.
Definition find_pos (n : name) (fs : list field) : res nat :=
  match positions n fs 0 with [p] => Ok p | _ => Err "AnalysisException" end.

(* ---------- expressions ---------- *)
Inductive expr :=
| ECol (n : name)                 (* "name" / col("name") *)
| ELit (v : val)                  (* lit(int) / lit(None) *)
| EAdd (a b : expr) | EMul (a b : expr) | ENeg (a : expr)
| EAlias (e : expr) (n : name).

Fixpoint expr_str (e : expr) : name :=
  match e with
  | ECol n => n
  | ELit (VInt z) => dec_of_Z z
  | ELit VNone => lit_null
  | ELit _ => s2n "?"
  | EAdd a b => fmt_add (expr_str a) (expr_str b)
  | EMul a b => fmt_mul (expr_str a) (expr_str b)
  | ENeg a => fmt_neg (expr_str a)
  | EAlias _ n => n
  end.

Definition arith (op : Z -> Z -> Z) (x y : val) : res val :=
  match x, y with
  | VNone, _ => Ok VNone
  | _, VNone => Ok VNone
  | VInt a, VInt b => Ok (VInt (op a b))
  | _, _ => Err "AnalysisException"
  end.

Fixpoint eval (fs : list field) (r : row) (e : expr) : res val :=
  match e with
  | ECol n => do p <- find_pos n fs;
              match nth_error (snd r) p with Some v => Ok v | None => Err "IndexError" end
  | ELit v => Ok v
  | EAdd a b => do x <- eval fs r a; do y <- eval fs r b; arith Z.add x y
  | EMul a b => do x <- eval fs r a; do y <- eval fs r b; arith Z.mul x y
  | ENeg a => do x <- eval fs r a;
              match x with VNone => Ok VNone | VInt z => Ok (VInt (- z)) | _ => Err "TypeError" end
  | EAlias a _ => eval fs r a
  end.

(* ---------- createDataFrame / range ---------- *)
Definition underscore (i : nat) : name := 95%N :: dec_of_Z (Z.of_nat i).
Definition pad_names (names : list name) (width : nat) : list name :=
  (* names.extend('_%d' % i for i in range(len(names) + 1, len(row) + 1)) *)
  names ++ map underscore (seq (S (length names)) (width - length names)).
Fixpoint last_index (n : name) (l : list name) (i : nat) (acc : option nat) : option nat :=
  match l with
  | [] => acc
  | x :: l' => last_index n l' (S i) (if name_eqb n x then Some i else acc)
  end.
Definition nonnull (o : option val) : bool := match o with Some VNone => false | Some _ => true | None => false end.
Fixpoint set_nth {A} (l : list A) (i : nat) (x : A) : option (list A) :=
  match l, i with
  | [], _ => None
  | _ :: l', O => Some (x :: l')
  | y :: l', S i' => option_map (cons y) (set_nth l' i' x)
  end.
(* for i, name in enumerate(schema): struct.fields[i].name = name; struct.names[i] = name *)
Fixpoint rename_loop (names : list name) (i : nat) (acc : list name) : res (list name) :=
  match names with
  | [] => Ok acc
  | n :: names' => match set_nth acc i n with
                   | None => Err "IndexError"
                   | Some acc' => rename_loop names' (S i) acc'
                   end
  end.

Definition create (by_struct : bool) (names : list name) (data : list (list val)) : res pre :=
  if by_struct then
    (* explicit StructType of nullable longs; verify_struct checks the length of every tuple *)
    if forallb (fun d => Nat.eqb (length d) (length names)) data
    then Ok (struct_of (map PNew names) (map (fun d => (names, d)) data) true true)
    else Err "ValueError"
  else
    match data with
    | [] => Err "ValueError"                       (* can not infer schema from empty dataset *)
    | first :: rest =>
        let width := fold_left Nat.max (map (@length val) data) O in
        let padded := pad_names names width in
        let inferred := firstn width padded in     (* zip(names, row) per row, merged by name *)
        let typed (j : nat) (nm : name) : bool :=
            nonnull (nth_error first j)
            || existsb (fun d => match last_index nm (firstn (length d) padded) 0 None with
                                 | Some k => nonnull (nth_error d k) | None => false end) rest in
        if forallb (fun jn => typed (fst jn) (snd jn)) (combine (seq 0 width) inferred)
        then
          do fnames <- rename_loop padded 0 inferred;
          do nnames <- rename_loop padded 0 inferred;
          Ok (mkPre (map PNew fnames) nnames (map (fun d => (fnames, d)) data) true true)
        else Err "ValueError"                      (* type of a field cannot be determined *)
    end.

(* createDataFrame over rows that carry their OWN field names -- pysparkling Row objects
   ([is_row] = true) or collections.namedtuple instances -- as a local list or as an RDD.
   * schema = list/tuple of names (or None = []): _infer_schema takes the names from the rows
     (row.__fields__ / row._fields, the given names are NOT used and NOT padded), the rows become
     plain tuples, and the rename loop then overwrites the first len(names) names in .fields and in
     .names -- positionally, whatever the rows' own names were;
   * schema = StructType (or DDL string): a namedtuple is treated as a plain tuple; a Row is verified
     by looking every struct field up BY NAME (no length check), and StructType.toInternal
     (_match_fields_by_name) rebuilds it by name in schema order whenever the row's own names are
     duplicate-free and differ from the struct's; otherwise the Row goes through unchanged. *)
Fixpoint names_eqb (a b : list name) : bool :=
  match a, b with
  | [], [] => true
  | x :: a', y :: b' => name_eqb x y && names_eqb a' b'
  | _, _ => false
  end.
(* StructType.toInternal on a Row (_match_fields_by_name): the values are taken BY NAME in the order of
   the struct's names whenever the row's own names are duplicate-free, differ from the struct's names
   and contain every one of them; otherwise the Row is handed on unchanged *)
Definition match_by_name (own names : list name) (d : list val) : res (list val) :=
  if negb (names_eqb own names) && nodup_names own && forallb (fun n => mem_name n own) names
  then mapM (row_get (own, d)) names
  else Ok d.

Definition create_rows (is_row by_struct : bool) (own names : list name) (data : list (list val)) : res pre :=
  if negb (forallb (fun d => Nat.eqb (length d) (length own)) data) then Err "BadCase"
  else if by_struct then
    if negb is_row then
      if forallb (fun d => Nat.eqb (length d) (length names)) data
      then Ok (struct_of (map PNew names) (map (fun d => (names, d)) data) true true)
      else Err "ValueError"
    else
      match data with
      | [] => Ok (struct_of (map PNew names) [] true true)
      | _ =>
        if negb (forallb (fun n => mem_name n own) names) then Err "ValueError"   (* obj[f]: no such field *)
        else
          do rs <- mapM (fun d => do vs <- match_by_name own names d; Ok (names, vs)) data;
          Ok (struct_of (map PNew names) rs true true)
      end
  else
    match data with
    | [] => Err "ValueError"
    | first :: rest =>
        let typed (j : nat) (nm : name) : bool :=
            nonnull (nth_error first j)
            || existsb (fun d => match last_index nm own 0 None with
                                 | Some k => nonnull (nth_error d k) | None => false end) rest in
        if forallb (fun jn => typed (fst jn) (snd jn)) (combine (seq 0 (length own)) own)
        then
          do fnames <- rename_loop names 0 own;
          do nnames <- rename_loop names 0 own;
          (* every row is first turned into a plain tuple in the order of the inferred struct's own names
             (= the rows' own order here) and only then is the struct renamed: the new names replace the
             old ones position by position, for Rows as for namedtuples and tuples *)
          do rs <- mapM (fun d => Ok (fnames, d)) data;
          Ok (mkPre (map PNew fnames) nnames rs true true)
        else Err "ValueError"
    end.

(* createDataFrame(tuples, StructType) whose fields carry non-default attributes: nullable=False
   ([strict] j = true), metadata, IntegerType.  The verifier rejects a None in a non-nullable field;
   nothing else in the operations modelled here looks at these attributes (fields of one frame are
   told apart by their id, see [field_eqb]) *)
Definition create_strict (names : list name) (strict : list bool) (data : list (list val)) : res pre :=
  if existsb (fun d => existsb (fun sv => fst sv && match snd sv with VNone => true | _ => false end)
                               (combine strict d)) data
     && forallb (fun d => Nat.eqb (length d) (length names)) data
  then Err "ValueError"
  else create true names data.

(* range(start, end, step) *)
Definition py_range (start stop step : Z) : list Z :=
  if step >? 0 then
    map (fun k => start + step * Z.of_nat k) (seq 0 (Z.to_nat ((stop - start + step - 1) / step)))
  else if step <? 0 then
    map (fun k => start + step * Z.of_nat k) (seq 0 (Z.to_nat ((start - stop - step - 1) / (- step))))
  else [].
Definition id_name : name := s2n "id".
Definition range_frame (start stop step : Z) : res pre :=
  if step =? 0 then Err "ValueError"          (* Python's range() *)
  else
    (* rows: create_row(["id"], [i]); schema: the explicit StructType([StructField("id", LongType(), True)]),
       so an empty range is an empty frame with the column id *)
    Ok (struct_of [PNew id_name] (map (fun i => ([id_name], [VInt i])) (py_range start stop step)) true true).

Definition columns (f : frame) : list name := map fname (fields f).

(* ---------- select ---------- *)
Inductive scol := SStar | SExpr (e : expr).

(* Column.find_fields_in_schema: schema side of select *)
Definition sel_fields (f : frame) (c : scol) : res (list pfield) :=
  match c with
  | SStar => Ok (map (POld) (fields f))
  | SExpr (ECol n) => do p <- find_pos n (fields f);
                      match nth_error (fields f) p with
                      | Some fld => Ok [POld fld] | None => Err "IndexError" end
  | SExpr e => Ok [PNew (expr_str e)]
  end.
(* resolve_column + zip(output_cols, output_values[0]): row side of select *)
Definition sel_row (f : frame) (r : row) (c : scol) : res (list (name * val)) :=
  match c with
  | SStar => do vs <- mapM (row_get r) (fst r); Ok (combine (map fname (fields f)) vs)
  | SExpr e => do v <- eval (fields f) r e; Ok [(expr_str e, v)]
  end.
Definition select (f : frame) (cols : list scol) : res pre :=
  do pfs <- mapM (sel_fields f) cols;
  do rs <- mapM (fun r => do kvs <- mapM (sel_row f r) cols; Ok (row_of_pairs (concat kvs))) (rows f);
  Ok (struct_of (concat pfs) rs (ford f) (fval f)).

Definition with_column (f : frame) (n : name) (e : expr) : res pre :=
  if mem_name n (snames f)
  then select f (map (fun nm => if name_eqb nm n then SExpr (EAlias e n) else SExpr (ECol nm)) (snames f))
  else select f [SStar; SExpr (EAlias e n)].

(* ---------- drop / rename / toDF ---------- *)
Definition star : name := [42%N].
Fixpoint filter_idx {A} (drop : list nat) (i : nat) (l : list A) : list A :=
  match l with
  | [] => []
  | x :: l' => if existsb (Nat.eqb i) drop then filter_idx drop (S i) l' else x :: filter_idx drop (S i) l'
  end.
Fixpoint drop_row_aux (drop : list nat) (i : nat) (flds : list name) (vals : list val) : res (list (name * val)) :=
  match flds with
  | [] => Ok []
  | fl :: flds' =>
      if existsb (Nat.eqb i) drop then drop_row_aux drop (S i) flds' vals
      else match nth_error vals i with
           | None => Err "IndexError"
           | Some v => do rest <- drop_row_aux drop (S i) flds' vals; Ok ((fl, v) :: rest)
           end
  end.
Definition drop (f : frame) (cols : list name) : res pre :=
  do ps <- mapM (fun c => find_pos c (fields f)) (filter (fun c => negb (name_eqb c star)) cols);
  do rs <- mapM (fun r => do kv <- drop_row_aux ps 0 (fst r) (snd r); Ok (row_of_pairs kv)) (rows f);
  Ok (struct_of (map (POld) (filter_idx ps 0 (fields f))) rs (ford f) (fval f)).

Definition rename (f : frame) (old new : name) : res pre :=
  do rs <- mapM (fun r => do kv <- mapM (fun c => do v <- row_get r c;
                                               Ok (if name_eqb c old then new else c, v)) (fst r);
                          Ok (row_of_pairs kv)) (rows f);
  Ok (struct_of (map (fun fld => if name_eqb (fname fld) old then PNew new else POld fld) (fields f))
                rs (ford f) (fval f)).

Definition to_df (f : frame) (names : list name) : res pre :=
  do rs <- mapM (fun r => do kv <- mapM (fun no => do v <- row_get r (snd no); Ok (fst no, v))
                                        (combine names (fst r));
                          Ok (row_of_pairs kv)) (rows f);
  Ok (struct_of (map (fun nf => PNew (fst nf)) (combine names (fields f))) rs (ford f) (fval f)).

(* ---------- union / unionByName ---------- *)
Definition union (f g : frame) : res pre :=
  if negb (Nat.eqb (length (fields f)) (length (fields g))) then Err "Exception"
  else
    let change (r : row) := row_of_pairs (combine (map fname (fields f)) (snd r)) in
    Ok (same_schema f (rows f ++ map change (rows g)) (ford f && ford g) (fval f && fval g)).

Definition union_by_name (f g : frame) : res pre :=
  let fn := map fname (fields f) in
  let gn := map fname (fields g) in
  if negb (nodup_names fn) then Err "Exception"
  else if negb (nodup_names gn) then Err "Exception"
  else if negb (Nat.eqb (length fn) (length gn)) then Err "Exception"
  else
    do rs <- mapM (fun r => do kv <- mapM (fun n => do v <- row_get r n; Ok (n, v)) fn;
                            Ok (row_of_pairs kv)) (rows g);
    Ok (same_schema f (rows f ++ rs) (ford f && ford g) (fval f && fval g)).

(* ---------- joins ---------- *)
Inductive jointype := JInner | JLeft | JRight | JFull | JSemi | JAnti.
Definition gh (how : jointype) : ghow :=
  match how with
  | JInner => G_INNER_JOIN | JLeft => G_LEFT_JOIN | JRight => G_RIGHT_JOIN
  | JFull => G_FULL_JOIN | JSemi => G_LEFT_SEMI_JOIN | JAnti => G_LEFT_ANTI_JOIN
  end.

Definition first_named (fs : list field) (c : name) : res field :=
  match find (fun fld => name_eqb (fname fld) c) fs with
  | Some fld => Ok fld | None => Err "StopIteration" end.
Definition not_in (l : list field) (fld : field) : bool := negb (existsb (field_eqb fld) l).

(* schema_utils.merge_schemas *)
Definition merge_schemas (f g : frame) (how : jointype) (on : list name) : res (list pfield) :=
  do lon <- mapM (first_named (fields f)) on;
  do ron <- mapM (first_named (fields g)) on;
  let other_left := filter (not_in lon) (fields f) in
  let other_right := filter (not_in ron) (fields g) in
  let on_fields := match how with
                   | JRight => map POld ron
                   | JFull => map (fun fld => PNew (fname fld)) lon
                   | _ => map (POld) lon
                   end in
  let right_part := if schema_keeps_right (gh how) then map POld other_right else [] in
  Ok (on_fields ++ map (POld) other_left ++ right_part).

Definition null_row (names : list name) : row := (names, map (fun _ => VNone) names).

(* utils.merge_rows_joined_on_values *)
Definition merge_joined (f g : frame) (how : jointype) (on : list name)
           (lon ron : list field) (l r : option row) : res row :=
  do on_parts <- mapM (fun c => do v <- (match l with Some lr => row_get lr c
                                               | None => match r with Some rr => row_get rr c
                                                                      | None => Err "TypeError" end end);
                                Ok (c, v)) on;
  let l' := match l, how with
            | None, JFull | None, JRight => Some (null_row (snames f))
            | _, _ => l end in
  let r' := match r, how with
            | None, JLeft | None, JFull => Some (null_row (snames g))
            | _, _ => r end in
  do left_parts <- match l' with
                   | Some lr => Ok (map (fun fv => (fname (fst fv), snd fv))
                                        (filter (fun fv => not_in lon (fst fv)) (combine (fields f) (snd lr))))
                   | None => Err "TypeError" end;
  do right_parts <- (if row_has_right_parts (gh how)
                     then match r' with
                          | Some rr => Ok (map (fun fv => (fname (fst fv), snd fv))
                                               (filter (fun fv => not_in ron (fst fv)) (combine (fields g) (snd rr))))
                          | None => Err "TypeError" end
                     else Ok []);
  Ok (row_of_pairs (on_parts ++ left_parts ++ right_parts)).

Fixpoint vals_eqb (a b : list val) : bool :=
  match a, b with
  | [], [] => true
  | x :: a', y :: b' => val_eqb x y && vals_eqb a' b'
  | _, _ => false
  end.

(* which (left, right) pairs the keyed RDD join of the given type produces (as a multiset; the
   implementation's order depends on dict / hash-partition order and is not modelled) *)
Definition join_pairs (how : jointype) (lk : list (list val * row)) (rk : list (list val * row))
  : list (option row * option row) :=
  let matches (k : list val) (side : list (list val * row)) := filter (fun kr => vals_eqb k (fst kr)) side in
  match how with
  | JInner => flat_map (fun l => map (fun r => (Some (snd l), Some (snd r))) (matches (fst l) rk)) lk
  | JLeft => flat_map (fun l => match matches (fst l) rk with
                                | [] => [(Some (snd l), None)]
                                | ms => map (fun r => (Some (snd l), Some (snd r))) ms end) lk
  | JRight => flat_map (fun r => match matches (fst r) lk with
                                 | [] => [(None, Some (snd r))]
                                 | ms => map (fun l => (Some (snd l), Some (snd r))) ms end) rk
  | JFull => flat_map (fun l => match matches (fst l) rk with
                                | [] => [(Some (snd l), None)]
                                | ms => map (fun r => (Some (snd l), Some (snd r))) ms end) lk
             ++ flat_map (fun r => match matches (fst r) lk with
                                   | [] => [(None, Some (snd r))]
                                   | _ => [] end) rk
  | JSemi => flat_map (fun l => match matches (fst l) rk with
                                | [] => [] | _ => [(Some (snd l), Some (([] : list name), ([] : list val)))] end) lk
  | JAnti => flat_map (fun l => match matches (fst l) rk with
                                | [] => [(Some (snd l), None)] | _ => [] end) lk
  end.

Definition join (f g : frame) (how : jointype) (on : list name) : res pre :=
  do pfs <- merge_schemas f g how on;
  do lon <- mapM (first_named (fields f)) on;
  do ron <- mapM (first_named (fields g)) on;
  do lk <- mapM (fun r => do k <- mapM (row_get r) on; Ok (k, r)) (rows f);
  do rk <- mapM (fun r => do k <- mapM (row_get r) on; Ok (k, r)) (rows g);
  do rs <- mapM (fun lr => merge_joined f g how on lon ron (fst lr) (snd lr)) (join_pairs how lk rk);
  Ok (struct_of pfs rs false (fval f && fval g)).

(* crossJoin: merge_schemas(how=cross, on=[]) and utils.merge_rows over the cartesian product *)
Definition cross_join (f g : frame) : res pre :=
  let pfs := map (POld) (fields f) ++ map POld (fields g) in
  let rs := flat_map (fun l => map (fun r => (fst l ++ fst r, snd l ++ snd r)) (rows g)) (rows f) in
  Ok (struct_of pfs rs (ford f && ford g) (fval f && fval g)).

(* ---------- groupBy / agg / pivot ---------- *)
Inductive aggfn := ACount | ASum | AMin | AMax.
Record agg := mkAgg { a_fn : aggfn; a_arg : option expr (* None: count("*") = count(lit(1)) *); a_alias : option name }.

Definition aggfn_str (fn : aggfn) : name :=
  match fn with ACount => name_count | ASum => name_sum | AMin => name_min | AMax => name_max end.
Definition agg_str (a : agg) : name :=
  match a_alias a with
  | Some n => n
  | None => fmt_call (aggfn_str (a_fn a)) (match a_arg a with Some e => expr_str e | None => count_star_arg end)
  end.

Fixpoint ints_of (vs : list val) : list Z :=
  match vs with [] => [] | VInt z :: r => z :: ints_of r | _ :: r => ints_of r end.
(* ColumnStatHelper over the non-null values of a cell *)
Definition agg_value (fn : aggfn) (vs : list val) : val :=
  let zs := ints_of vs in
  match fn, zs with
  | ACount, _ => VInt (Z.of_nat (length zs))
  | _, [] => VNone
  | ASum, _ => VInt (fold_left Z.add zs 0)
  | AMin, z :: r => VInt (fold_left Z.min r z)
  | AMax, z :: r => VInt (fold_left Z.max r z)
  end.

Definition agg_arg (fs : list field) (r : row) (a : agg) : res val :=
  match a_arg a with Some e => eval fs r e | None => Ok (VInt 1) end.

Definition grp_fields (f : frame) (e : expr) : res (list pfield) := sel_fields f (SExpr e).

Fixpoint group_keys (seen : list (list val)) (ks : list (list val)) : list (list val) :=
  match ks with
  | [] => rev seen
  | k :: r => if existsb (vals_eqb k) seen then group_keys seen r else group_keys (k :: seen) r
  end.

Fixpoint insert_z (x : Z) (l : list Z) : list Z :=
  match l with [] => [x] | y :: r => if y <? x then y :: insert_z x r else x :: l end.
Fixpoint dedup_vals (seen : list val) (l : list val) : list val :=
  match l with
  | [] => rev seen
  | x :: r => if existsb (val_eqb x) seen then dedup_vals seen r else dedup_vals (x :: seen) r
  end.

(* str(pivot_value) *)
Definition pv_str (v : val) : name :=
  match v with VInt z => dec_of_Z z | VStr s => s | VNone => s2n "None" | _ => s2n "?" end.

(* every row with its group key, its pivot value and the value of every aggregate's argument *)
Record arow := mkArow { ar_key : list val; ar_pv : val; ar_args : list val }.

(* names of the statistics columns as InternalGroupedDataFrame.agg builds the SCHEMA *)
Definition stat_names_schema (pvals : option (list val)) (aggs : list agg) : list name :=
  match pvals with
  | None => map agg_str aggs
  | Some vs => if Nat.eqb (length aggs) 1 then map pv_str vs
               else flat_map (fun pv => map (fun a => pivot_name_schema (pv_str pv) (agg_str a)) aggs) vs
  end.
(* names as get_pivoted_stats / str(stat) build them for every ROW *)
Definition stat_name_row (single : bool) (cell : option val) (a : agg) : res name :=
  match cell with
  | None => Ok (agg_str a)
  | Some pv => if single then Ok (pv_str pv)                  (* stats[0].alias(str(pivot_value)) *)
               else Ok (pivot_name_row (pv_str pv) (agg_str a))
  end.
Definition pivot_cells (pvals : option (list val)) : list (option val) :=
  match pvals with None => [None] | Some vs => map Some vs end.

(* GroupedData.pivot: values given, or sorted(collect_set(pivot_col)) over the whole frame *)
Definition pivot_values (f : frame) (pivot : option (name * option (list val))) : res (option (list val)) :=
  match pivot with
  | None => Ok None
  | Some (_, Some vs) => Ok (Some vs)
  | Some (pc, None) =>
      do vs <- mapM (fun r => eval (fields f) r (ECol pc)) (rows f);
      match rows f with
      | [] => Err "IndexError"       (* select(collect_set(..)).collect()[0] on no row *)
      | _ => Ok (Some (map VInt (fold_right insert_z [] (ints_of (dedup_vals [] vs)))))
      end
  end.

(* GroupedStats.merge for one row *)
Definition agg_row (f : frame) (keys : list expr) (pivot : option (name * option (list val)))
           (pvals : option (list val)) (aggs : list agg) (r : row) : res arow :=
  do k <- mapM (eval (fields f) r) keys;
  do pv <- match pivot with
           | Some (pc, _) => eval (fields f) r (ECol pc)
           | None => Ok VNone end;
  do args <- (if match pvals with
                 | None => true
                 | Some vs => existsb (val_eqb pv) vs end
              then mapM (agg_arg (fields f) r) aggs
              else Ok (map (fun _ => VNone) aggs));
  Ok (mkArow k pv args).

(* the output Row of one group *)
Definition group_row (keys : list expr) (pvals : option (list val)) (aggs : list agg)
           (ars : list arow) (k : list val) : res row :=
  let members := filter (fun ar => vals_eqb k (ar_key ar)) ars in
  let single := Nat.eqb (length aggs) 1 in
  do stats <- mapM (fun cell =>
                let ms := match cell with
                          | None => members
                          | Some pv => filter (fun ar => val_eqb (ar_pv ar) pv) members end in
                mapM (fun ia => do nm <- stat_name_row single cell (snd ia);
                                Ok (nm, agg_value (a_fn (snd ia))
                                          (map (fun ar => nth (fst ia) (ar_args ar) VNone) ms)))
                     (combine (seq 0 (length aggs)) aggs)) (pivot_cells pvals);
  Ok (row_of_pairs (combine (map expr_str keys) k ++ concat stats)).

Definition grouped_agg (f : frame) (keys : list expr)
           (pivot : option (name * option (list val))) (aggs : list agg) : res pre :=
  match aggs with
  | [] => Err "ValueError"
  | _ =>
    do pvals <- pivot_values f pivot;
    do gfs <- mapM (grp_fields f) keys;
    do ars <- mapM (agg_row f keys pivot pvals aggs) (rows f);
    do rs <- mapM (group_row keys pvals aggs ars) (group_keys [] (map ar_key ars));
    Ok (struct_of (concat gfs ++ map PNew (stat_names_schema pvals aggs)) rs (ford f) (fval f))
  end.

(* ---------- sort / limit / distinct / sample / repartition ---------- *)
Definition sort_key (v : val) : Z * Z := match v with VNone => (0, 0) | VInt z => (1, z) | _ => (2, 0) end.
Definition key_lt (a b : Z * Z) : bool := (fst a <? fst b) || ((fst a =? fst b) && (snd a <? snd b)).
(* sorted(..., key=key, reverse=not ascending): stable in both directions *)
Fixpoint insert_row (asc : bool) (x : (Z * Z) * row) (l : list ((Z * Z) * row)) : list ((Z * Z) * row) :=
  match l with
  | [] => [x]
  | y :: r => if (if asc then key_lt (fst y) (fst x) else key_lt (fst x) (fst y))
              then y :: insert_row asc x r else x :: l
  end.
Definition sort_pass (f : frame) (rs : list row) (k : expr * bool) : res (list row) :=
  do keyed <- mapM (fun r => do v <- eval (fields f) r (fst k); Ok (sort_key v, r)) rs;
  Ok (map snd (fold_right (insert_row (snd k)) [] keyed)).
Fixpoint sort_passes (f : frame) (rs : list row) (ks : list (expr * bool)) : res (list row) :=
  match ks with
  | [] => Ok rs
  | k :: ks' => do rs' <- sort_pass f rs k; sort_passes f rs' ks'
  end.
Definition sort (f : frame) (keys : list (expr * bool)) : res pre :=
  match keys with
  | [] => Err "ValueError"
  | _ => do rs <- sort_passes f (rows f) (rev keys);
         Ok (same_schema f rs (ford f) (fval f))
  end.

Definition limit (f : frame) (n : Z) : res pre :=
  Ok (same_schema f (firstn (Z.to_nat n) (rows f)) (ford f) (fval f && ford f)).

Fixpoint distinct_rows (seen : list row) (l : list row) : list row :=
  match l with
  | [] => rev seen
  | r :: l' => if existsb (fun s => vals_eqb (snd r) (snd s)) seen
               then distinct_rows seen l' else distinct_rows (r :: seen) l'
  end.
Definition distinct (f : frame) : res pre :=
  Ok (same_schema f (distinct_rows [] (rows f)) false (fval f)).

(* dropDuplicates(subset): select(struct(subset or "*") as key, struct("*") as value), one value per key.
   The value is create_row(schema names, [row[c] for c in row.__fields__]) *)
Fixpoint dedup_keyed (seen : list (list val)) (l : list (list val * row)) : list row :=
  match l with
  | [] => []
  | (k, r) :: l' => if existsb (vals_eqb k) seen then dedup_keyed seen l'
                    else r :: dedup_keyed (k :: seen) l'
  end.
Definition drop_duplicates (f : frame) (cols : list name) : res pre :=
  do kvs <- mapM (fun r => do k <- match cols with
                                   | [] => mapM (row_get r) (fst r)
                                   | _ => mapM (fun c => eval (fields f) r (ECol c)) cols end;
                           do vs <- mapM (row_get r) (fst r);
                           Ok (k, (columns f, vs))) (rows f);
  (* which row represents a key depends on the row order: with a proper subset the content is only
     determined when the order is *)
  Ok (same_schema f (dedup_keyed [] kvs) false
                  (fval f && (ford f || match cols with [] => true | _ => false end))).

(* the sampler's decision is taken per element; any function of the element models a scripted
   sampler, the theorems quantify over all of them *)
Definition sample_with (mult : row -> nat) (f : frame) : res pre :=
  Ok (same_schema f (flat_map (fun r => repeat r (mult r)) (rows f)) (ford f) (fval f)).
Definition script_mult (wr : bool) (a m : Z) (r : row) : nat :=
  let s := fold_left Z.add (ints_of (snd r)) 0 in
  let k := if m =? 0 then a else (s + a) mod m in
  Z.to_nat (if wr then k else Z.min 1 k).

Definition repartition (f : frame) (cols : list expr) : res pre :=
  do _ <- mapM (fun r => mapM (eval (fields f) r) cols) (rows f);
  Ok (same_schema f (rows f) (match cols with [] => ford f | _ => false end) (fval f)).

(* ---------- actions ---------- *)
Definition collect (f : frame) : list row := rows f.
(* RDD.count: sum over the partitions of the number of elements *)
Definition rdd_count (parts : list (list row)) : Z := fold_left (fun a p => a + Z.of_nat (length p)) parts 0.
Definition count (f : frame) : Z := rdd_count [rows f].

(* ---------- programs: every step builds a new DataFrame from earlier ones ---------- *)
Inductive instr :=
| ICreate (by_struct : bool) (names : list name) (data : list (list val))
| IRange (start stop step : Z)
| ISelect (src : nat) (cols : list scol)
| IWithColumn (src : nat) (n : name) (e : expr)
| IDrop (src : nat) (cols : list name)
| IRename (src : nat) (old new : name)
| IToDF (src : nat) (names : list name)
| IJoin (src other : nat) (how : jointype) (on : list name)
| ICross (src other : nat)
| IUnion (src other : nat)
| IUnionByName (src other : nat)
| IAgg (src : nat) (keys : list expr) (pivot : option (name * option (list val))) (aggs : list agg)
| ISort (src : nat) (keys : list (expr * bool))
| ILimit (src : nat) (n : Z)
| IDistinct (src : nat)
| ISample (src : nat) (wr : bool) (a m : Z)
| IRepartition (src : nat) (cols : list expr)
| ICreateRows (is_row by_struct : bool) (own names : list name) (data : list (list val))
| ICreateStrict (names : list name) (strict : list bool) (data : list (list val))
| IDropDup (src : nat) (cols : list name).

Definition get (env : list frame) (i : nat) : res frame :=
  match nth_error env i with Some f => Ok f | None => Err "BadCase" end.
(* operations whose row COUNT depends on the row content need it to be determined *)
Definition need_val (f : frame) : res unit := if fval f then Ok tt else Err "Unmodelled".

Definition step (env : list frame) (i : instr) : res pre :=
  match i with
  | ICreate m names data => create m names data
  | IRange a b s => range_frame a b s
  | ISelect s cols => do f <- get env s; select f cols
  | IWithColumn s n e => do f <- get env s; with_column f n e
  | IDrop s cols => do f <- get env s; drop f cols
  | IRename s o n => do f <- get env s; rename f o n
  | IToDF s names => do f <- get env s; to_df f names
  | IJoin s o how on => do f <- get env s; do g <- get env o;
                        do _ <- need_val f; do _ <- need_val g; join f g how on
  | ICross s o => do f <- get env s; do g <- get env o; cross_join f g
  | IUnion s o => do f <- get env s; do g <- get env o; union f g
  | IUnionByName s o => do f <- get env s; do g <- get env o; union_by_name f g
  | IAgg s keys pv aggs => do f <- get env s; do _ <- need_val f; grouped_agg f keys pv aggs
  | ISort s keys => do f <- get env s; sort f keys
  | ILimit s n => do f <- get env s; limit f n
  | IDistinct s => do f <- get env s; do _ <- need_val f; distinct f
  | ISample s wr a m => do f <- get env s; do _ <- need_val f; sample_with (script_mult wr a m) f
  | IRepartition s cols => do f <- get env s; repartition f cols
  | ICreateRows r m own names data => create_rows r m own names data
  | ICreateStrict names strict data => create_strict names strict data
  | IDropDup s cols => do f <- get env s; do _ <- need_val f; drop_duplicates f cols
  end.

(* runs the program until the first step that raises; returns the frames built so far *)
Fixpoint run_prog (env : list frame) (c : N) (prog : list instr) : list frame * option string :=
  match prog with
  | [] => (env, None)
  | i :: prog' =>
      match step env i with
      | Err e => (env, Some e)
      | Ok p => let (f, c') := finish c p in run_prog (env ++ [f]) c' prog'
      end
  end.
