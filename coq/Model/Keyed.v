(* Executable model of the keyed / join / set operations of pysparkling/rdd.py (property C02):
   groupByKey, reduceByKey, foldByKey, aggregateByKey, countByKey, cogroup, join, leftOuterJoin,
   rightOuterJoin, fullOuterJoin, _leftSemiJoin, _leftAntiJoin, subtractByKey, subtract, distinct,
   intersection, cartesian, sortByKey -- as they are in /repo today (RDD.join builds on grouped
   values since fix f381172).

   Every one of these methods starts from collect()/toLocalIterator() of its inputs (the driver-side
   concatenation of the partitions in partition order), except aggregateByKey/foldByKey, countByKey
   (one dict per partition, merged on the driver) and subtract (a partition-wise filter); the model
   therefore takes flattened lists, and lists of partitions for those four.

   Python runtime taken as given and transcribed here:
     dict / defaultdict  = association list in insertion order; a lookup or update addresses the first
                           entry whose key is == to the given key, an unknown key is appended  [upsert]
     set                 = a list without duplicates (iteration order unspecified: the harness compares
                           set-ordered results after sorting)
     sorted              = stable sort (insertion sort here); reverse=True keeps stability
   Definitions only; the lemmas are in PV.Proofs.Keyed*. *)
From Coq Require Import ZArith NArith List Bool.
Require Import PV.Base.Val PV.Gen.Parallelize.
Import ListNotations.
Open Scope Z_scope.

(* Context.parallelize(x, numSlices): one partition if numSlices is None or <= 1 (regenerated guard
   [par_single]), otherwise numSlices islices of one shared iterator with the regenerated sizes [par_take] *)
Fixpoint take_seq {A} (sizes : list Z) (xs : list A) : list (list A) :=
  match sizes with
  | [] => []
  | s :: sizes' => firstn (Z.to_nat s) xs :: take_seq sizes' (skipn (Z.to_nat s) xs)
  end.
Definition parallelize {A} (xs : list A) (num : option Z) : list (list A) :=
  match num with
  | None => [xs]
  | Some n =>
      if par_single n then [xs]
      else take_seq (map (fun i => par_take (Z.of_nat i) (Z.of_nat (List.length xs)) n) (seq 0 (Z.to_nat n))) xs
  end.
(* numPartitions=None means self.getNumPartitions() *)
Definition num_or {A} (np : option Z) (parts : list (list A)) : option Z :=
  match np with Some n => Some n | None => Some (Z.of_nat (List.length parts)) end.

(* ------------------------------------------------------------------------------------------ *)
(** * Generic part: any key type with a boolean equality *)
Section Generic.
  Context {K : Type} (keqb : K -> K -> bool).

  (* k in list / k in dict.keys() *)
  Definition kmem (k : K) (ks : list K) : bool := existsb (fun k' => keqb k' k) ks.

  (* d[k] lookup; None = KeyError / `k not in d` *)
  Fixpoint dget {A} (k : K) (d : list (K * A)) : option A :=
    match d with
    | [] => None
    | (k', a) :: d' => if keqb k' k then Some a else dget k d'
    end.

  (* d[k] = f(d.get(k)): an existing entry is updated in place (keeping the stored key object and its
     position), a new key is appended *)
  Fixpoint upsert {A} (k : K) (f : option A -> A) (d : list (K * A)) : list (K * A) :=
    match d with
    | [] => [(k, f None)]
    | (k', a) :: d' => if keqb k' k then (k', f (Some a)) :: d' else (k', a) :: upsert k f d'
    end.

  (* r = defaultdict(lambda: init); for k, v in items: r[k] = step(r[k], v) *)
  Definition build {A V} (step : A -> V -> A) (init : A) (items : list (K * V)) : list (K * A) :=
    fold_left (fun d kv => upsert (fst kv) (fun o => step (match o with Some a => a | None => init end) (snd kv)) d)
              items [].

  (* dict(pairs): last value wins, position of the first insertion *)
  Definition dict_of_list {A} (items : list (K * A)) : list (K * A) :=
    fold_left (fun d kv => upsert (fst kv) (fun _ => snd kv) d) items [].

  (* what the theorems talk about *)
  Definition values {V} (k : K) (xs : list (K * V)) : list V :=
    map snd (filter (fun p => keqb (fst p) k) xs).
  (* distinct keys in order of first occurrence *)
  Fixpoint firstkeys (ks : list K) : list K :=
    match ks with
    | [] => []
    | k :: ks' => k :: filter (fun k' => negb (keqb k k')) (firstkeys ks')
    end.

  (* list(set(xs)) up to order *)
  Definition set_of (xs : list K) : list K :=
    fold_left (fun s x => if kmem x s then s else s ++ [x]) xs [].

  Section Ops.
    Context {V W : Type}.

    (* RDD.groupByKey:  r = defaultdict(list); for key, value in self.toLocalIterator(): r[key].append(value);
       parallelize(r.items(), numPartitions) *)
    Definition group_by_key {X} (xs : list (K * X)) : list (K * list X) :=
      build (fun l v => l ++ [v]) [] xs.

    (* RDD.reduceByKey: groupByKey(n).mapValues(lambda x: functools.reduce(f, x)); groups are never empty *)
    Definition reduce1 (f : V -> V -> V) (vs : list V) : option V :=
      match vs with [] => None | v :: vs' => Some (fold_left f vs' v) end.
    Definition reduce_by_key (f : V -> V -> V) (xs : list (K * V)) : list (K * option V) :=
      map (fun kv => (fst kv, reduce1 f (snd kv))) (group_by_key xs).

    (* RDD.aggregateByKey: seqFuncByKey per partition (defaultdict of deep copies of zeroValue),
       combFuncByKey over the per-partition dicts in partition order (again starting every key from a
       copy of zeroValue); result local_result.items() *)
    Definition aggregate_by_key {A} (zero : A) (seqf : A -> V -> A) (combf : A -> A -> A)
               (parts : list (list (K * V))) : list (K * A) :=
      build combf zero (concat (map (build seqf zero) parts)).
    (* RDD.foldByKey(zero, op) = aggregateByKey(zero, op, op) *)
    Definition fold_by_key (zero : V) (op : V -> V -> V) (parts : list (list (K * V))) : list (K * V) :=
      aggregate_by_key zero op op parts.

    (* RDD.countByKey: map(lambda r: r[0]).countByValue(): defaultdict(int) per partition,
       sum_counts_by_keys over the partitions *)
    Definition count_by_key (parts : list (list (K * V))) : list (K * Z) :=
      build Z.add 0 (concat (map (fun p => build (fun n (_ : V) => n + 1) 0 p) parts)).

    (* RDD.cogroup: d_self/d_other = defaultdict(list, X.groupByKey().collect());
       [(k, [list(d_self[k]), list(d_other[k])]) for k in set(d_self.keys()) | set(d_other.keys())] *)
    Definition dflt {X} (o : option (list X)) : list X := match o with Some l => l | None => [] end.
    Definition cogroup (xs : list (K * V)) (ys : list (K * W)) : list (K * (list V * list W)) :=
      let d_self := dict_of_list (group_by_key xs) in
      let d_other := dict_of_list (group_by_key ys) in
      map (fun k => (k, (dflt (dget k d_self), dflt (dget k d_other))))
          (set_of (map fst d_self ++ map fst d_other)).

    (* RDD.join (repaired): d_other = other.groupByKey().collectAsMap();
       self.groupByKey(n).flatMap(lambda kv: [(kv[0], (v_self, v_other)) for v_self in kv[1]
                                               for v_other in (d_other[kv[0]] if kv[0] in d_other else [])]) *)
    Definition join_fn (d_other : list (K * list W)) (kv : K * list V) : list (K * (V * W)) :=
      flat_map (fun v => map (fun w => (fst kv, (v, w))) (dflt (dget (fst kv) d_other))) (snd kv).
    Definition join (xs : list (K * V)) (ys : list (K * W)) : list (K * (V * W)) :=
      flat_map (join_fn (dict_of_list (group_by_key ys))) (group_by_key xs).

    (* RDD.leftOuterJoin: ... for v_other in (d_other[kv[0]] if kv[0] in d_other else [None]) *)
    Definition loj_fn (d_other : list (K * list W)) (kv : K * list V) : list (K * (V * option W)) :=
      flat_map (fun v => map (fun w => (fst kv, (v, w)))
                             (match dget (fst kv) d_other with Some ws => map Some ws | None => [None] end))
               (snd kv).
    Definition left_outer_join (xs : list (K * V)) (ys : list (K * W)) : list (K * (V * option W)) :=
      flat_map (loj_fn (dict_of_list (group_by_key ys))) (group_by_key xs).

    (* RDD.rightOuterJoin: d_self = self.groupByKey().collectAsMap(); other.groupByKey().flatMap(
         [(kv[0], (v_self, v_other)) for v_other in kv[1] for v_self in (d_self[kv[0]] if ... else [None])]) *)
    Definition roj_fn (d_self : list (K * list V)) (kv : K * list W) : list (K * (option V * W)) :=
      flat_map (fun w => map (fun v => (fst kv, (v, w)))
                             (match dget (fst kv) d_self with Some vs => map Some vs | None => [None] end))
               (snd kv).
    Definition right_outer_join (xs : list (K * V)) (ys : list (K * W)) : list (K * (option V * W)) :=
      flat_map (roj_fn (dict_of_list (group_by_key xs))) (group_by_key ys).

    (* RDD.fullOuterJoin: cogroup(other, n).flatMap([(k, (v_self, v_other))
         for v_self in (vs if vs else [None]) for v_other in (ws if ws else [None])]) *)
    Definition or_none {X} (l : list X) : list (option X) :=
      match l with [] => [None] | _ => map Some l end.
    Definition foj_fn (e : K * (list V * list W)) : list (K * (option V * option W)) :=
      flat_map (fun v => map (fun w => (fst e, (v, w))) (or_none (snd (snd e)))) (or_none (fst (snd e))).
    Definition full_outer_join (xs : list (K * V)) (ys : list (K * W)) : list (K * (option V * option W)) :=
      flat_map foj_fn (cogroup xs ys).

    (* RDD._leftSemiJoin / _leftAntiJoin: (k, (v, ())) if k in d_other / (k, (v, None)) if k not in d_other *)
    Definition semi_fn (d_other : list (K * list W)) (kv : K * list V) : list (K * V) :=
      flat_map (fun v => match dget (fst kv) d_other with Some _ => [(fst kv, v)] | None => [] end) (snd kv).
    Definition anti_fn (d_other : list (K * list W)) (kv : K * list V) : list (K * V) :=
      flat_map (fun v => match dget (fst kv) d_other with Some _ => [] | None => [(fst kv, v)] end) (snd kv).
    Definition left_semi_join (xs : list (K * V)) (ys : list (K * W)) : list (K * V) :=
      flat_map (semi_fn (dict_of_list (group_by_key ys))) (group_by_key xs).
    Definition left_anti_join (xs : list (K * V)) (ys : list (K * W)) : list (K * V) :=
      flat_map (anti_fn (dict_of_list (group_by_key ys))) (group_by_key xs).

    (* RDD.subtractByKey: cogroup(other, n).filter(val1 and not val2).flatMapValues(lambda x: x[0])
       (truthiness of a list = non-empty) *)
    Definition nonempty {X} (l : list X) : bool := match l with [] => false | _ => true end.
    Definition subk_keep (e : K * (list V * list W)) : bool :=
      nonempty (fst (snd e)) && negb (nonempty (snd (snd e))).
    Definition subk_fn (e : K * (list V * list W)) : list (K * V) := map (fun v => (fst e, v)) (fst (snd e)).
    Definition subtract_by_key (xs : list (K * V)) (ys : list (K * W)) : list (K * V) :=
      flat_map subk_fn (filter subk_keep (cogroup xs ys)).

    (* ---- the same methods with the partition structure of the resulting RDD: Context.parallelize slices
       a driver-side list, flatMap / filter / mapValues work partition-wise ---- *)
    Definition rdd_group_by_key {X} (lp : list (list (K * X))) (np : option Z) : list (list (K * list X)) :=
      parallelize (group_by_key (concat lp)) (num_or np lp).
    Definition rdd_reduce_by_key (f : V -> V -> V) (lp : list (list (K * V))) (np : option Z) :=
      map (map (fun kv : K * list V => (fst kv, reduce1 f (snd kv)))) (rdd_group_by_key lp np).
    Definition rdd_aggregate_by_key {A} (zero : A) (seqf : A -> V -> A) (combf : A -> A -> A)
               (lp : list (list (K * V))) : list (list (K * A)) := [aggregate_by_key zero seqf combf lp].
    Definition rdd_cogroup (lp : list (list (K * V))) (rp : list (list (K * W))) :=
      [cogroup (concat lp) (concat rp)].                 (* numPartitions is ignored by the code *)
    Definition rdd_join (lp : list (list (K * V))) (rp : list (list (K * W))) (np : option Z) :=
      map (flat_map (join_fn (dict_of_list (group_by_key (concat rp))))) (rdd_group_by_key lp np).
    Definition rdd_left_outer_join (lp : list (list (K * V))) (rp : list (list (K * W))) :=
      map (flat_map (loj_fn (dict_of_list (group_by_key (concat rp))))) (rdd_group_by_key lp None).
    Definition rdd_right_outer_join (lp : list (list (K * V))) (rp : list (list (K * W))) :=
      map (flat_map (roj_fn (dict_of_list (group_by_key (concat lp))))) (rdd_group_by_key rp None).
    Definition rdd_full_outer_join (lp : list (list (K * V))) (rp : list (list (K * W))) :=
      map (flat_map foj_fn) (rdd_cogroup lp rp).
    Definition rdd_left_semi_join (lp : list (list (K * V))) (rp : list (list (K * W))) :=
      map (flat_map (semi_fn (dict_of_list (group_by_key (concat rp))))) (rdd_group_by_key lp None).
    Definition rdd_left_anti_join (lp : list (list (K * V))) (rp : list (list (K * W))) :=
      map (flat_map (anti_fn (dict_of_list (group_by_key (concat rp))))) (rdd_group_by_key lp None).
    Definition rdd_subtract_by_key (lp : list (list (K * V))) (rp : list (list (K * W))) :=
      map (flat_map subk_fn) (map (filter subk_keep) (rdd_cogroup lp rp)).
  End Ops.

  (* elements compared with ==  (here K is the element type) *)
  (* RDD.subtract: list_other = other.collect(); partition-wise (e for e in x if e not in list_other) *)
  Definition subtract (parts : list (list K)) (ys : list K) : list (list K) :=
    map (filter (fun e => negb (kmem e ys))) parts.
  (* RDD.distinct: list(set(self.toLocalIterator())) *)
  Definition distinct (xs : list K) : list K := set_of xs.
  (* RDD.intersection: list(set(self) & set(other)) *)
  Definition intersection (xs ys : list K) : list K :=
    filter (fun x => kmem x (set_of ys)) (set_of xs).
  Definition rdd_subtract (lp rp : list (list K)) : list (list K) := subtract lp (concat rp).
  Definition rdd_distinct (lp : list (list K)) (np : option Z) : list (list K) :=
    parallelize (distinct (concat lp)) (num_or np lp).
  Definition rdd_intersection (lp rp : list (list K)) : list (list K) := [intersection (concat lp) (concat rp)].
End Generic.

(* RDD.cartesian: [(a, b) for a in v1 for b in v2] *)
Definition cartesian {A B} (xs : list A) (ys : list B) : list (A * B) :=
  flat_map (fun a => map (fun b => (a, b)) ys) xs.

(* sorted(xs, key=itemgetter(0), reverse=not ascending): stable; [le] is the order on keys *)
Section Sorting.
  Context {K V : Type} (le : K -> K -> bool).
  Fixpoint insert_by (x : K * V) (l : list (K * V)) : list (K * V) :=
    match l with
    | [] => [x]
    | y :: l' => if le (fst x) (fst y) then x :: l else y :: insert_by x l'
    end.
  Definition stable_sort (xs : list (K * V)) : list (K * V) := fold_right insert_by [] xs.
End Sorting.
Definition sort_by_key {K V} (le : K -> K -> bool) (ascending : bool) (xs : list (K * V)) : list (K * V) :=
  if ascending then stable_sort le xs else stable_sort (fun a b => le b a) xs.
Definition rdd_sort_by_key {K V} (le : K -> K -> bool) (ascending : bool) (lp : list (list (K * V))) (np : option Z) :=
  parallelize (sort_by_key le ascending (concat lp)) (num_or np lp).
Definition rdd_cartesian {A B} (lp : list (list A)) (rp : list (list B)) : list (list (A * B)) :=
  [cartesian (concat lp) (concat rp)].

(* ------------------------------------------------------------------------------------------ *)
(** * Python values without floats: the key / element universe of the correspondence run *)
Inductive pv : Type :=
| PNone
| PBool (b : bool)
| PInt (z : Z)
| PStr (s : list N)
| PTup (l : list pv)
| PList (l : list pv).

Fixpoint pv_of_val (v : val) : option pv :=
  let fix lst (l : list val) : option (list pv) :=
      match l with
      | [] => Some []
      | x :: l' => match pv_of_val x, lst l' with Some p, Some r => Some (p :: r) | _, _ => None end
      end in
  match v with
  | VNone => Some PNone
  | VBool b => Some (PBool b)
  | VInt z => Some (PInt z)
  | VStr s => Some (PStr s)
  | VTup l => option_map PTup (lst l)
  | VList l => option_map PList (lst l)
  | VFloat _ | VErr _ => None
  end.

Fixpoint val_of_pv (p : pv) : val :=
  match p with
  | PNone => VNone
  | PBool b => VBool b
  | PInt z => VInt z
  | PStr s => VStr s
  | PTup l => VTup (map val_of_pv l)
  | PList l => VList (map val_of_pv l)
  end.

(* == on the modelled universe (structural; the generators never mix True/1/1.0) *)
Fixpoint pv_eqb (a b : pv) {struct a} : bool :=
  let fix lst (xs ys : list pv) {struct xs} : bool :=
      match xs, ys with
      | [], [] => true
      | x :: xs', y :: ys' => pv_eqb x y && lst xs' ys'
      | _, _ => false
      end in
  match a, b with
  | PNone, PNone => true
  | PBool x, PBool y => Bool.eqb x y
  | PInt x, PInt y => Z.eqb x y
  | PStr x, PStr y => list_N_eqb x y
  | PTup x, PTup y => lst x y
  | PList x, PList y => lst x y
  | _, _ => false
  end.

(* hash(x) does not raise TypeError *)
Fixpoint hashable (p : pv) : bool :=
  match p with
  | PList _ => false
  | PTup l => forallb hashable l
  | _ => true
  end.

(* a total order used only to canonicalise hash-ordered output (Python side: the same key function);
   on ints, on strings and on tuples of ints it is Python's < *)
Definition pv_rank (p : pv) : nat :=
  match p with PNone => 0 | PBool _ => 1 | PInt _ => 2 | PStr _ => 3 | PTup _ => 4 | PList _ => 5 end.
Fixpoint lexN (a b : list N) : comparison :=
  match a, b with
  | [], [] => Eq
  | [], _ => Lt
  | _, [] => Gt
  | x :: a', y :: b' => match N.compare x y with Eq => lexN a' b' | c => c end
  end.
Fixpoint pv_cmp (a b : pv) {struct a} : comparison :=
  let fix lst (xs ys : list pv) {struct xs} : comparison :=
      match xs, ys with
      | [], [] => Eq
      | [], _ => Lt
      | _, [] => Gt
      | x :: xs', y :: ys' => match pv_cmp x y with Eq => lst xs' ys' | c => c end
      end in
  match a, b with
  | PNone, PNone => Eq
  | PBool x, PBool y => Bool.compare x y
  | PInt x, PInt y => Z.compare x y
  | PStr x, PStr y => lexN x y
  | PTup x, PTup y => lst x y
  | PList x, PList y => lst x y
  | _, _ => Nat.compare (pv_rank a) (pv_rank b)
  end.
Definition pv_leb (a b : pv) : bool := match pv_cmp a b with Gt => false | _ => true end.

(* the keys Python can order among themselves without TypeError: all ints, all strings, or all tuples of ints *)
Definition key_class (p : pv) : nat :=
  match p with
  | PInt _ => 1
  | PStr _ => 2
  | PTup l => if forallb (fun x => match x with PInt _ => true | _ => false end) l then 3 else 0
  | _ => 0
  end.
Definition sortable (ks : list pv) : bool :=
  match ks with
  | [] | [_] => true
  | k :: _ => negb (Nat.eqb (key_class k) 0) && forallb (fun k' => Nat.eqb (key_class k') (key_class k)) ks
  end.

(* ------------------------------------------------------------------------------------------ *)
(** * The function library (each member exists as a Python callable in py/c02.py) *)
(* lambda a, b: a + b on ints, lists, strings, tuples (the generators keep the operands of one type) *)
Definition py_add (a b : pv) : pv :=
  match a, b with
  | PInt x, PInt y => PInt (x + y)
  | PList x, PList y => PList (x ++ y)
  | PStr x, PStr y => PStr (x ++ y)
  | PTup x, PTup y => PTup (x ++ y)
  | _, _ => PNone
  end.
Definition py_sub (a b : pv) : pv :=
  match a, b with PInt x, PInt y => PInt (x - y) | _, _ => PNone end.
Definition py_max (a b : pv) : pv :=   (* max(a, b): b only if b > a *)
  match a, b with PInt x, PInt y => if y >? x then b else a | _, _ => PNone end.

(* reduceByKey / foldByKey operators *)
Definition bin_fn (code : Z) : option (pv -> pv -> pv) :=
  match code with
  | 0 => Some py_add
  | 1 => Some py_max
  | 2 => Some py_sub
  | 3 => Some (fun a _ => a)
  | 4 => Some (fun _ b => b)
  | 5 => Some (fun a b => PTup [a; b])
  | _ => None
  end.

(* aggregateByKey (zero, seqFunc, combFunc) triples *)
Definition agg_fn (code : Z) : option (pv * (pv -> pv -> pv) * (pv -> pv -> pv)) :=
  match code with
  | 0 => Some (PInt 0, py_add, py_add)                                   (* sum *)
  | 1 => Some (PList [], (fun a v => py_add a (PList [v])), py_add)      (* collect, pure *)
  | 2 => Some (PList [], (fun a v => py_add a (PList [v])), py_add)      (* collect, in place append / extend *)
  | 3 => Some (PInt 1, py_add, py_add)                                   (* zero not neutral *)
  | 4 => Some (PInt 0, (fun a _ => py_add a (PInt 1)), py_add)           (* count *)
  | 5 => Some (PInt 0, py_sub, py_sub)                                   (* not a homomorphism *)
  | 6 => Some (PTup [PInt 0; PInt 0],
               (fun a v => match a with PTup [s; n] => PTup [py_add s v; py_add n (PInt 1)] | _ => PNone end),
               (fun a b => match a, b with PTup [s; n], PTup [s'; n'] => PTup [py_add s s'; py_add n n'] | _, _ => PNone end))
  | 7 => Some (PTup [], (fun a v => PTup [a; v]), (fun a b => PTup [a; b]))  (* shows the exact call tree *)
  | _ => None
  end.
