(* Executable model of the RDD core of pysparkling (rdd.py, context.py, partition.py) as it is today.

   A dataset is its list of partitions, [parts := list (list val)], in partition order.
   * [parallelize xs n]       Context.parallelize: one partition if numSlices <= 1 (regenerated guard
                              [par_single]); otherwise numSlices sequential [islice]s of ONE shared iterator
                              with the regenerated counts [par_take i len n] (end - start, +1 on the last).
   * [tr] / [apply_tr]        every transformation named by property C01, transcribed from the class that
                              implements it: element-wise generators of MapPartitionsRDD (partition-wise, same
                              number of partitions), collect-and-reparallelize for union / zip / zipWithIndex /
                              sortBy / repartition, the regenerated grouping table [coalesce_plan] for coalesce.
     [apply_list]             the plain-Python-list meaning of the same transformation.
   * [act] / [run_act]        every action named by C01: Context.runJob + per-partition function + result
                              handler, in the order the lazy job generator interleaves them ([job_fold]).
     [run_list]               the plain-list meaning.
   User functions are arbitrary Gallina functions into the error monad [res] (a Python callable that
   returns or raises); exceptions are [Err "ClassName"], the first one in evaluation order wins.
   Python values are [PV.Base.Val.val] without bool/float in the data domain (1 == True == 1.0 would
   need Python's numeric tower in dict keys; generators do not produce them).

   Not modelled: laziness (an error in an element that a lazy action such as take() never reaches is
   reported by the model although the implementation would not raise; the harness observes glom() after
   every stage, which evaluates everything, so the two agree on what is observed) -- see C06;
   retries (pure functions: a retry repeats the same outcome) -- see C04; process pools -- see C03. *)
From Coq Require Import String ZArith NArith List Bool.
From Coq Require Import PrimFloat.
Require Import PV.Base.Val PV.Base.PyArith PV.Base.Num.
Require Import PV.Gen.Parallelize PV.Gen.Layout PV.Gen.StatCounter.
Import ListNotations.
Open Scope Z_scope.

(* ------------------------------------------------------------------ error monad *)
Inductive res (A : Type) : Type :=
| Ok (a : A)
| Err (e : string).
Arguments Ok {A} a.
Arguments Err {A} e.

Definition bind {A B} (r : res A) (f : A -> res B) : res B :=
  match r with Ok a => f a | Err e => Err e end.
Definition rmap {A B} (f : A -> B) (r : res A) : res B :=
  match r with Ok a => Ok (f a) | Err e => Err e end.

Notation "x <- e ;; k" := (bind e (fun x => k)) (at level 61, e at next level, right associativity).

Fixpoint mapM {A B} (f : A -> res B) (l : list A) : res (list B) :=
  match l with
  | [] => Ok []
  | x :: l' => y <- f x ;; ys <- mapM f l' ;; Ok (y :: ys)
  end.

(* functools.reduce(f, l, a) *)
Fixpoint foldM {A S} (f : S -> A -> res S) (l : list A) (a : S) : res S :=
  match l with
  | [] => Ok a
  | x :: l' => a' <- f a x ;; foldM f l' a'
  end.

Definition len {A} (l : list A) : Z := Z.of_nat (length l).

Definition parts := list (list val).

(* ------------------------------------------------------------------ Python runtime fragments *)
(* v[i] for the literal indices 0 and 1 the code uses *)
Definition py_getitem (v : val) (i : nat) : res val :=
  match v with
  | VTup l | VList l => match nth_error l i with Some x => Ok x | None => Err "IndexError" end
  | VStr s => match nth_error s i with Some c => Ok (VStr [c]) | None => Err "IndexError" end
  | _ => Err "TypeError"
  end.

(* hash(v) succeeds *)
Fixpoint hashable (v : val) : bool :=
  let fix all (l : list val) : bool :=
      match l with [] => true | x :: l' => andb (hashable x) (all l') end in
  match v with
  | VList _ => false
  | VTup l => all l
  | _ => true
  end.

(* dict as association list in insertion order *)
Definition table := list (val * Z).
Fixpoint bump (k : val) (c : Z) (t : table) : table :=
  match t with
  | [] => [(k, c)]
  | (k', c') :: t' => if val_eqb k' k then (k', c' + c) :: t' else (k', c') :: bump k c t'
  end.
Fixpoint tbl_get (k : val) (t : table) : Z :=
  match t with
  | [] => 0
  | (k', c') :: t' => if val_eqb k' k then c' else tbl_get k t'
  end.
Definition table_val (t : table) : val := VList (map (fun kc => VTup [fst kc; VInt (snd kc)]) t).

(* r = defaultdict(int); for v in x: r[v] += 1 *)
Definition count_step (t : table) (v : val) : res table :=
  if hashable v then Ok (bump v 1 t) else Err "TypeError".
Definition count_values (xs : list val) : res table := foldM count_step xs [].
(* sum_counts_by_keys: for key, count in l.items(): r[key] += count *)
Definition merge_counts (acc t : table) : table :=
  fold_left (fun a kc => bump (fst kc) (snd kc) a) t acc.

(* dict(pairs): last value wins, position of the first insertion *)
Fixpoint dict_set (k v : val) (d : list (val * val)) : list (val * val) :=
  match d with
  | [] => [(k, v)]
  | (k', v') :: d' => if val_eqb k' k then (k', v) :: d' else (k', v') :: dict_set k v d'
  end.
Definition as_pair (e : val) : res (val * val) :=
  match e with
  | VTup [k; v] | VList [k; v] => if hashable k then Ok (k, v) else Err "TypeError"
  | VTup _ | VList _ => Err "ValueError"
  | VStr [a; b] => Ok (VStr [a], VStr [b])
  | VStr _ => Err "ValueError"
  | _ => Err "TypeError"
  end.
Definition dict_of (xs : list val) : res (list (val * val)) :=
  foldM (fun d e => kv <- as_pair e ;; Ok (dict_set (fst kv) (snd kv) d)) xs [].
Definition dict_val (d : list (val * val)) : val := VList (map (fun kv => VTup [fst kv; snd kv]) d).

(* sorted(xs, key=k, reverse=not asc): all keys first, then a stable sort; reverse keeps the original
   order of equal keys.  Keys are integers. *)
Fixpoint insert_by (asc : bool) (kx : Z) (x : val) (l : list (Z * val)) : list (Z * val) :=
  match l with
  | [] => [(kx, x)]
  | (ky, y) :: l' =>
      if (if asc then kx <=? ky else ky <=? kx) then (kx, x) :: l
      else (ky, y) :: insert_by asc kx x l'
  end.
Definition sort_keyed (asc : bool) (l : list (Z * val)) : list (Z * val) :=
  fold_right (fun kx acc => insert_by asc (fst kx) (snd kx) acc) [] l.
Definition py_sorted (k : val -> res Z) (asc : bool) (xs : list val) : res (list val) :=
  ks <- mapM (fun x => z <- k x ;; Ok (z, x)) xs ;; Ok (map snd (sort_keyed asc ks)).

(* zip of two lists (stops at the shorter) *)
Fixpoint py_zip (a b : list val) : list val :=
  match a, b with
  | x :: a', y :: b' => VTup [x; y] :: py_zip a' b'
  | _, _ => []
  end.
Fixpoint enumerate_from (i : Z) (l : list val) : list val :=
  match l with
  | [] => []
  | x :: l' => VTup [x; VInt i] :: enumerate_from (i + 1) l'
  end.

(* ------------------------------------------------------------------ parallelize *)
(* itertools.islice(x, s) taken one after the other from the same iterator *)
Fixpoint take_seq (sizes : list Z) (xs : list val) : parts :=
  match sizes with
  | [] => []
  | s :: ss => firstn (Z.to_nat s) xs :: take_seq ss (skipn (Z.to_nat s) xs)
  end.
Definition par_sizes (L n : Z) : list Z := map (fun i => par_take i L n) (zrange 0 n).
Definition parallelize (xs : list val) (n : Z) : parts :=
  if par_single n then [xs] else take_seq (par_sizes (len xs) n) xs.

(* ------------------------------------------------------------------ transformations *)
Definition fn1 := val -> res val.                (* element function *)
Definition predf := val -> res bool.             (* truth value of the predicate's result *)
Definition genf := val -> res (list val).        (* function returning an iterable *)
Definition keyf := val -> res Z.                 (* sort key *)
Definition partf := list val -> res (list val).  (* function on a whole partition iterator *)
Definition op2 := val -> val -> res val.

Inductive tr : Type :=
| TMap (f : fn1)
| TFilter (p : predf)
| TFlatMap (g : genf)
| TMapValues (f : fn1)
| TFlatMapValues (g : genf)
| TKeyBy (f : fn1)
| TKeys
| TValues
| TMapPartitions (h : partf)
| TGlom
| TUnion (ys : list val) (m : Z)        (* self.union(ctx.parallelize(ys, m)) *)
| TZip (ys : list val) (m : Z)          (* self.zip(ctx.parallelize(ys, m)) *)
| TZipWithIndex
| TSortBy (k : keyf) (asc : bool) (np : option Z)
| TCoalesce (k : Z)
| TRepartition (k : Z)
| TPersist.

(* what one input element contributes to the output of an element-wise transformation,
   in the evaluation order of the generator expression in rdd.py *)
Definition elem_fn (t : tr) : option genf :=
  match t with
  | TMap f => Some (fun x => y <- f x ;; Ok [y])
  | TFilter p => Some (fun x => b <- p x ;; Ok (if b : bool then [x] else []))
  | TFlatMap g => Some g
  | TMapValues f => Some (fun e => k <- py_getitem e 0 ;; v <- py_getitem e 1 ;; w <- f v ;; Ok [VTup [k; w]])
  | TFlatMapValues g =>
      Some (fun e => v <- py_getitem e 1 ;; ws <- g v ;; k <- py_getitem e 0 ;; Ok (map (fun w => VTup [k; w]) ws))
  | TKeyBy f => Some (fun e => k <- f e ;; Ok [VTup [k; e]])
  | TKeys => Some (fun e => k <- py_getitem e 0 ;; Ok [k])
  | TValues => Some (fun e => v <- py_getitem e 1 ;; Ok [v])
  | _ => None
  end.

Definition flat_mapM (g : genf) (xs : list val) : res (list val) := rmap (@concat val) (mapM g xs).

(* new_partitions[partition_mapping[i]] += partition_i, for the partitions mapped to j *)
Fixpoint pick (j : Z) (ms : list Z) (ps : parts) : list val :=
  match ms, ps with
  | m :: ms', p :: ps' => if m =? j then p ++ pick j ms' ps' else pick j ms' ps'
  | _, _ => []
  end.
Definition coalesce (k : Z) (ps : parts) : res parts :=
  let plan := coalesce_plan k (len ps) in
  if fst plan =? 0 then Err "ZeroDivisionError"            (* current // min(k, current) *)
  else if (length (snd plan) <? length ps)%nat then Err "IndexError"   (* partition_mapping[i], k < 0 *)
  else Ok (map (fun j => pick j (snd plan) ps) (zrange 0 (fst plan))).

Definition apply_tr (t : tr) (ps : parts) : res parts :=
  match elem_fn t with
  | Some g => mapM (flat_mapM g) ps
  | None =>
      match t with
      | TMapPartitions h => mapM h ps
      | TGlom => Ok (map (fun p => [VList p]) ps)
      | TUnion ys m => Ok [concat ps ++ concat (parallelize ys m)]
      | TZip ys m => Ok [py_zip (concat ps) (concat (parallelize ys m))]
      | TZipWithIndex => Ok [enumerate_from 0 (concat ps)]
      | TSortBy k asc np =>
          s <- py_sorted k asc (concat ps) ;;
          Ok (parallelize s (match np with Some n => n | None => len ps end))
      | TCoalesce k => coalesce k ps
      | TRepartition k => Ok (parallelize (concat ps) k)
      | _ => Ok ps            (* TPersist *)
      end
  end.

(* the same transformation on a plain Python list *)
Definition apply_list (t : tr) (xs : list val) : res (list val) :=
  match elem_fn t with
  | Some g => flat_mapM g xs
  | None =>
      match t with
      | TMapPartitions h => h xs
      | TGlom => Ok [VList xs]
      | TUnion ys _ => Ok (xs ++ ys)
      | TZip ys _ => Ok (py_zip xs ys)
      | TZipWithIndex => Ok (enumerate_from 0 xs)
      | TSortBy k asc _ => py_sorted k asc xs
      | _ => Ok xs            (* coalesce, repartition, persist *)
      end
  end.

Definition apply_trs (ts : list tr) (ps : parts) : res parts := foldM (fun q t => apply_tr t q) ts ps.
Definition apply_lists (ts : list tr) (xs : list val) : res (list val) := foldM (fun q t => apply_list t q) ts xs.

(* ------------------------------------------------------------------ StatCounter (min, max, mean) *)
Section Stats.
Context {N : NumOps}.
Definition sc_state : Type := Z * F * F * F * F.   (* n, mu, m2, maxValue, minValue *)
Definition sc_step (s : sc_state) (z : Z) : sc_state :=
  let '(n, mu, m2, mx, mn) := s in sc_merge n mu m2 mx mn (fofZ z).
Definition sc_comb (a b : sc_state) : sc_state :=
  let '(n, mu, m2, mx, mn) := a in
  let '(n', mu', m2', mx', mn') := b in
  sc_mergeStats n mu m2 mx mn n' mu' m2' mx' mn'.
(* aggregate(StatCounter(), merge, mergeStats) on integer data *)
Definition sc_parts (zero : sc_state) (ps : list (list Z)) : sc_state :=
  fold_left (fun acc p => sc_comb acc (fold_left sc_step p zero)) ps zero.
Definition sc_n (s : sc_state) : Z := let '(n, _, _, _, _) := s in n.
Definition sc_mu (s : sc_state) : F := let '(_, mu, _, _, _) := s in mu.
End Stats.

Definition sc_zero_float : @sc_state FloatOps := (0, PrimFloat.zero, PrimFloat.zero, neg_infinity, infinity).

(* exact integer extremes next to the float state: Python's max(a, b) is a unless b > a *)
Definition ext_state : Type := Z * option Z.      (* n, extreme (None = the initial -inf / +inf) *)
Definition ext_pick (is_max : bool) (a b : Z) : Z :=
  if is_max then (if a <? b then b else a) else (if b <? a then b else a).
Definition ext_step (is_max : bool) (s : ext_state) (z : Z) : ext_state :=
  (fst s + 1, Some (match snd s with None => z | Some m => ext_pick is_max m z end)).
Definition ext_comb (is_max : bool) (a b : ext_state) : ext_state :=
  if fst a =? 0 then b
  else if negb (fst b =? 0) then
    (fst a + fst b,
     match snd a, snd b with
     | Some x, Some y => Some (ext_pick is_max x y)
     | Some x, None => Some x
     | None, o => o
     end)
  else a.
Definition ext_parts (is_max : bool) (ps : list (list Z)) : ext_state :=
  fold_left (fun acc p => ext_comb is_max acc (fold_left (ext_step is_max) p (0, None))) ps (0, None).

(* value - self.mu raises TypeError on anything but a number *)
Definition int_of (v : val) : res Z := match v with VInt z => Ok z | _ => Err "TypeError" end.
Definition ints_of (xs : list val) : res (list Z) := mapM int_of xs.

(* ------------------------------------------------------------------ actions *)
Inductive act : Type :=
| ACollect
| ACount
| AFirst
| ATake (n : Z)
| ASum
| AReduce (f : op2)
| AFold (z : val) (op : op2)
| AAggregate (z : val) (seq comb : op2)
| ACountByValue
| ATop (n : Z) (k : keyf)
| ATakeOrdered (n : Z) (k : keyf)
| ALookup (key : val)
| ACollectAsMap
| AToLocalIterator
| AMin
| AMax
| AMean.

(* Context.runJob with the local scheduler: the job generator computes partition i, hands the task
   result to the result handler's fold, then computes partition i+1 *)
Fixpoint job_fold {T S} (task : list val -> res T) (step : S -> T -> res S) (ps : parts) (acc : S) : res S :=
  match ps with
  | [] => Ok acc
  | p :: ps' => t <- task p ;; acc' <- step acc t ;; job_fold task step ps' acc'
  end.

(* reduce(): each task returns [] for an empty partition and [functools.reduce(f, rest, first)] otherwise *)
Definition reduce_partition (f : op2) (p : list val) : res (list val) :=
  match p with
  | [] => Ok []
  | x :: p' => r <- foldM f p' x ;; Ok [r]
  end.

Fixpoint chain_first (ps : parts) : res val :=
  match ps with
  | [] => Err "StopIteration"
  | [] :: ps' => chain_first ps'
  | (x :: _) :: _ => Ok x
  end.

(* list(islice(chain.from_iterable(l), n)) *)
Definition islice_chain (n : Z) (ps : parts) : res val :=
  if n <? 0 then Err "ValueError" else Ok (VList (firstn (Z.to_nat n) (concat ps))).

Definition sum_ints (xs : list val) : res Z := foldM (fun a v => z <- int_of v ;; Ok (a + z)) xs 0.

(* lookup(key) = filter(x[0] == key).values().collect(): the two lazy generators are chained, so each
   element is tested and, if it passes, projected before the next element is looked at *)
Definition lookup_fn (key : val) : genf :=
  fun x => k <- py_getitem x 0 ;; if val_eqb k key then (v <- py_getitem x 1 ;; Ok [v]) else Ok [].

Definition ext_result (is_max : bool) (s : ext_state) : val :=
  match snd s with
  | Some z => VInt z
  | None => VFloat (if is_max then neg_infinity else infinity)
  end.

Definition run_act (a : act) (ps : parts) : res val :=
  match a with
  | ACollect => Ok (VList (concat ps))
  | ACount => rmap VInt (job_fold (fun p => Ok (len p)) (fun s c => Ok (s + c)) ps 0)
  | AFirst => chain_first ps
  | ATake n => islice_chain n ps
  | ASum => rmap VInt (job_fold sum_ints (fun s c => Ok (s + c)) ps 0)
  | AReduce f =>
      (* the result handler concatenates the partial lists of ALL tasks in partition order; the driver then
         raises ValueError if there is none, else left-folds them *)
      partials <- mapM (reduce_partition f) ps ;;
      match concat partials with
      | [] => Err "ValueError"
      | v :: vs => foldM f vs v
      end
  | AFold z op => job_fold (fun p => foldM op p z) op ps z
  | AAggregate z seq comb => job_fold (fun p => foldM seq p z) comb ps z
  | ACountByValue => rmap table_val (job_fold count_values (fun acc t => Ok (merge_counts acc t)) ps [])
  | ATop n k => q <- apply_tr (TSortBy k false None) ps ;; islice_chain n q
  | ATakeOrdered n k => q <- apply_tr (TSortBy k true None) ps ;; islice_chain n q
  | ALookup key => q <- mapM (flat_mapM (lookup_fn key)) ps ;; Ok (VList (concat q))
  | ACollectAsMap => rmap dict_val (dict_of (concat ps))
  | AToLocalIterator => Ok (VList (concat ps))
  | AMin => zs <- mapM ints_of ps ;; Ok (ext_result false (ext_parts false zs))
  | AMax => zs <- mapM ints_of ps ;; Ok (ext_result true (ext_parts true zs))
  | AMean => zs <- mapM ints_of ps ;; Ok (VFloat (sc_mu (sc_parts sc_zero_float zs)))
  end.

(* the same action on a plain Python list *)
Definition py_slice_to (n : Z) (xs : list val) : list val :=      (* xs[:n] *)
  if n <? 0 then firstn (Z.to_nat (len xs + n)) xs else firstn (Z.to_nat n) xs.

Definition run_list (a : act) (xs : list val) : res val :=
  match a with
  | ACollect => Ok (VList xs)
  | ACount => Ok (VInt (len xs))
  | AFirst => match xs with x :: _ => Ok x | [] => Err "StopIteration" end     (* next(iter(xs)) *)
  | ATake n => Ok (VList (py_slice_to n xs))
  | ASum => rmap VInt (sum_ints xs)
  | AReduce f => match xs with x :: xs' => foldM f xs' x | [] => Err "ValueError" end
  | AFold z op => foldM op xs z
  | AAggregate z seq _ => foldM seq xs z
  | ACountByValue => rmap table_val (count_values xs)
  | ATop n k => s <- py_sorted k false xs ;; Ok (VList (py_slice_to n s))
  | ATakeOrdered n k => s <- py_sorted k true xs ;; Ok (VList (py_slice_to n s))
  | ALookup key => r <- flat_mapM (lookup_fn key) xs ;; Ok (VList r)     (* [e[1] for e in xs if e[0] == key] *)
  | ACollectAsMap => rmap dict_val (dict_of xs)
  | AToLocalIterator => Ok (VList xs)
  | AMin => zs <- ints_of xs ;;
            match zs with z :: zs' => Ok (VInt (fold_left Z.min zs' z)) | [] => Err "ValueError" end
  | AMax => zs <- ints_of xs ;;
            match zs with z :: zs' => Ok (VInt (fold_left Z.max zs' z)) | [] => Err "ValueError" end
  | AMean => zs <- ints_of xs ;;        (* sum(xs) / len(xs): correctly rounded quotient of two ints *)
             match zs with
             | [] => Err "ZeroDivisionError"
             | _ => Ok (VFloat (PrimFloat.div (float_of_Z (fold_left Z.add zs 0)) (float_of_Z (len zs))))
             end
  end.

(* ------------------------------------------------------------------ pipelines *)
Definition pipeline_rdd (ts : list tr) (a : act) (xs : list val) (n : Z) : res val :=
  ps <- apply_trs ts (parallelize xs n) ;; run_act a ps.
Definition pipeline_list (ts : list tr) (a : act) (xs : list val) : res val :=
  ys <- apply_lists ts xs ;; run_list a ys.

(* what the harness observes: glom().collect() after every stage, then the action's result *)
Definition res_val (r : res val) : val := match r with Ok v => v | Err e => VErr e end.
Fixpoint observe (ts : list tr) (a : act) (ps : parts) : list val :=
  vparts ps ::
  match ts with
  | [] => [res_val (run_act a ps)]
  | t :: ts' => match apply_tr t ps with Ok qs => observe ts' a qs | Err e => [VErr e] end
  end.

(* compact observation for dense sweeps over the slice count (input range(L)): count(), collect(),
   number of partitions, (index, size) of the non-empty partitions of glom() *)
Fixpoint nonempty_sizes (i : Z) (ps : parts) : list val :=
  match ps with
  | [] => []
  | [] :: ps' => nonempty_sizes (i + 1) ps'
  | p :: ps' => VTup [VInt i; VInt (len p)] :: nonempty_sizes (i + 1) ps'
  end.
Definition observe_sweep (L n : Z) : val :=
  let ps := parallelize (map VInt (zrange 0 L)) n in
  VTup [res_val (run_act ACount ps); res_val (run_act ACollect ps); VInt (len ps); VList (nonempty_sizes 0 ps)].
