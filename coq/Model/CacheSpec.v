(* C05 -- vocabulary of the theorem statements (definitions only): which ids a world uses, when a world
   is well formed, what a key stands for, which datasets are upstream of a persisted one, the
   bookkeeping invariant of the timed manager. *)
From Coq Require Import ZArith List Bool.
Require Import PV.Model.Cache.
Import ListNotations.
Open Scope Z_scope.

Section Spec.
Variable A : Type.

Definition pipe_ids (P : pipeline A) : list Z := p_src P :: map fst (p_nodes P).
Definition world_ids (w : world A) : list Z := concat (map pipe_ids (w_pipes w)).

(* every dataset belongs to an existing context whose manager exists (nm managers) *)
Definition wf_world (w : world A) (nm : nat) : Prop :=
  Forall (fun P => exists cx, nth_error (w_ctxs w) (p_ctx P) = Some cx /\ (c_mgr cx < nm)%nat) (w_pipes w).

(* the world was built by constructing the datasets one after the other, in any contexts, with the
   process-wide id counter starting anywhere *)
Definition built (w : world A) : Prop :=
  exists c specs, w_pipes w = fst (alloc_all c specs).

(* what key k stands for: the contents of partition (snd k) of the persisted dataset with id (fst k) *)
Definition wspec (w : world A) (k : key) (d : list A) : Prop :=
  exists P j idx src,
    In P (w_pipes w) /\ nth_error (p_nodes P) j = Some (fst k, SPersist) /\
    snd k = Z.of_nat idx /\ nth_error (p_parts P) idx = Some src /\
    d = plain_rev (Z.of_nat idx) (rev_prefix j (p_nodes P)) src.

(* every entry of every manager holds the contents its key stands for *)
Definition st_ok (w : world A) (st : state A) : Prop :=
  Forall (fun m => forall k d t, In (k, (d, t)) (m_entries m) -> wspec w k d) (s_mgrs st).

Definition init_state (timeouts : list (option Z)) : state A := St 0 (map (empty_mgr A) timeouts).

(* ids of the datasets strictly upstream of node j (1-based position j in the node list = index j-1) *)
Definition upstream_ids (P : pipeline A) (j : nat) : list Z := map fst (firstn (j - 1) (p_nodes P)).

Definition has_key (k : key) (m : mgr A) : Prop := In k (map fst (m_entries m)).

(* no stamp of key k in _time_added is at or below the threshold of time [now] *)
Definition stable (now : Z) (k : key) (m : mgr A) : Prop :=
  match m_timeout m with
  | None => True
  | Some to => forall t, In (k, t) (m_times m) -> t > now - to
  end.

(* _time_added is sorted by time, bounded by the clock, has a stamp (k, added) for every entry and no
   stamp without its entry; cache_obj is a dictionary (one entry per key) *)
Fixpoint sorted_times (l : list (key * Z)) : Prop :=
  match l with
  | [] => True
  | (_, t) :: l' => (forall kt, In kt l' -> t <= snd kt) /\ sorted_times l'
  end.
Definition timed_inv (now : Z) (m : mgr A) : Prop :=
  sorted_times (m_times m) /\
  (forall kt, In kt (m_times m) -> snd kt <= now) /\
  (forall k d t, In (k, (d, t)) (m_entries m) -> In (k, t) (m_times m)) /\
  (forall k t, In (k, t) (m_times m) -> exists d, In (k, (d, t)) (m_entries m)) /\
  NoDup (map fst (m_entries m)).

Definition user_calls_of (ids : list Z) (i : Z) (ev : list (event A)) : list (event A) :=
  filter (fun e => existsb (Z.eqb (ev_rid e)) ids && (ev_part e =? i)) ev.

End Spec.
Arguments pipe_ids {A}. Arguments world_ids {A}. Arguments wf_world {A}. Arguments built {A}.
Arguments wspec {A}. Arguments st_ok {A}. Arguments upstream_ids {A}. Arguments has_key {A}.
Arguments stable {A}. Arguments timed_inv {A}. Arguments user_calls_of {A}.
