(* Executable model of the partition-layout code of pysparkling (property C07):
     Context.parallelize / Context._parallelize_partitions        (context.py)
     RDD.coalesce, RDD.repartition, RDD.partitionBy, RDD.zipWithUniqueId,
     RDD.mapPartitionsWithIndex, RDD.glom, RDD.toLocalIterator, _hash   (rdd.py)
     strhash, portable_hash                                        (utils.py)
   The arithmetic (slice counts, the coalesce plan with its partition_mapping table, the unique-id
   formula, the hash mask, the partition index, the string and tuple hash steps and constants) is
   NOT written here: it is regenerated from the source into PV.Gen.Parallelize and PV.Gen.Layout on
   every run.  This file adds the control flow around those kernels (one shared iterator consumed by
   successive islice calls, the scatter loops, enumerate, the isinstance dispatch of portable_hash)
   and CPython's hash() of ints and floats.  Definitions only; the lemmas are in PV.Proofs.Layout.

   An RDD is the list of its Partition objects: (Partition.index, Partition._x). *)
From Coq Require Import String.
From Coq Require Import ZArith NArith List Bool.
From Coq Require Import PrimFloat FloatOps SpecFloat.
Require Import PV.Base.Val PV.Base.PyArith PV.Gen.Parallelize PV.Gen.Layout.
Import ListNotations.
Open Scope Z_scope.

Inductive res (A : Type) : Type := Ok (a : A) | Err (e : string).
Arguments Ok {A} a.
Arguments Err {A} e.

Notation parts := (list (list val)) (only parsing).
Notation rdd := (list (Z * list val)) (only parsing).

(* enumerate(l, start=i) *)
Fixpoint enum_from {A : Type} (i : Z) (l : list A) : list (Z * A) :=
  match l with
  | [] => []
  | x :: l' => (i, x) :: enum_from (i + 1) l'
  end.

(* Context._parallelize_partitions: RDD(Partition(p_data, i) for i, p_data in enumerate(partitions)) *)
Definition mk_rdd (ps : parts) : rdd := enum_from 0 ps.

Definition glom (r : rdd) : parts := map snd r.                       (* glom().collect() *)
Definition num_partitions (r : rdd) : Z := Z.of_nat (length r).      (* getNumPartitions() *)
Definition local_iter (r : rdd) : list val := concat (glom r).        (* toLocalIterator() *)
Definition indices (r : rdd) : list Z := map fst r.                   (* split.index / tc.partition_id of each task *)

(* ------------------------------------------------------------------ parallelize *)

(* `for i in range(numSlices): yield islice(x, <par_take i>)` over ONE shared iterator x;
   Partition.__init__ turns each islice into a list before the next one is produced. *)
Fixpoint par_slices {A : Type} (xs : list A) (len n : Z) (idx : list Z) : list (list A) :=
  match idx with
  | [] => []
  | i :: idx' =>
      let k := Z.to_nat (par_take i len n) in
      firstn k xs :: par_slices (skipn k xs) len n idx'
  end.

Definition parallelize (xs : list val) (numSlices : option Z) : rdd :=
  match numSlices with
  | None => [(0, xs)]
  | Some n =>
      if par_single n then [(0, xs)]
      else mk_rdd (par_slices xs (Z.of_nat (length xs)) n (zrange 0 n))
  end.

(* the same walk for x = range(N), without materialising the elements: (first element, count) *)
Fixpoint range_slices (pos len n : Z) (idx : list Z) : list (Z * Z) :=
  match idx with
  | [] => []
  | i :: idx' =>
      let c := Z.min (Z.max 0 (par_take i len n)) (len - pos) in
      (pos, c) :: range_slices (pos + c) len n idx'
  end.

(* closed form of slice i of parallelize(range(N), n) (see Proofs.Layout.range_probe_correct) *)
Definition slice_start (len n i : Z) : Z := i * len / n.
Definition range_probe (len n i : Z) : Z * Z :=
  (slice_start len n i, slice_start len n (i + 1) - slice_start len n i).

(* ------------------------------------------------------------------ coalesce *)

(* l[t] with Python's index rules; None = IndexError *)
Definition py_idx (len : nat) (t : Z) : option nat :=
  if (0 <=? t) && (t <? Z.of_nat len) then Some (Z.to_nat t)
  else if (t <? 0) && (- Z.of_nat len <=? t) then Some (Z.to_nat (t + Z.of_nat len))
  else None.

(* l[j] += p   /   l[j].append(x) *)
Fixpoint extend_at (l : parts) (j : nat) (p : list val) : parts :=
  match l, j with
  | [], _ => []
  | b :: l', O => (b ++ p) :: l'
  | b :: l', S j' => b :: extend_at l' j' p
  end.

(* for partition_index, partition in enumerate(glom().collect()):
       new_partitions[partition_mapping[partition_index]] += partition *)
Fixpoint scatter (new : parts) (mapping : list Z) (ps : parts) : res parts :=
  match ps with
  | [] => Ok new
  | p :: ps' =>
      match mapping with
      | [] => Err "IndexError"
      | t :: mapping' =>
          match py_idx (length new) t with
          | None => Err "IndexError"
          | Some j => scatter (extend_at new j p) mapping' ps'
          end
      end
  end.

Definition coalesce (r : rdd) (numPartitions : Z) : res rdd :=
  let cur := num_partitions r in
  if Z.min numPartitions cur =? 0 then Err "ZeroDivisionError"
  else
    let '(new_n, mapping) := coalesce_plan numPartitions cur in
    match scatter (repeat [] (Z.to_nat new_n)) mapping (glom r) with
    | Ok ps => Ok (mk_rdd ps)
    | Err e => Err e
    end.

(* coalesce(m, shuffle=True) = repartition(m) = parallelize(self.toLocalIterator(), m) *)
Definition repartition (r : rdd) (numPartitions : Z) : rdd :=
  parallelize (local_iter r) (Some numPartitions).

(* ------------------------------------------------------------------ hashing *)

Definition hash_modulus : Z := 2305843009213693951.   (* sys.hash_info.modulus = 2^61 - 1 *)
Definition sys_maxsize : Z := 9223372036854775807.    (* sys.maxsize = 2^63 - 1 *)

Definition fix_minus_one (h : Z) : Z := if h =? -1 then -2 else h.

(* CPython hash(int): sign * (|z| mod (2^61-1)), -1 replaced by -2 *)
Definition py_hash_int (z : Z) : Z :=
  fix_minus_one (Z.sgn z * (Z.abs z mod hash_modulus)).

(* CPython hash(float) for non-NaN floats: the reduction of m * 2^e modulo 2^61-1 (2^61 = 1, so
   2^e = 2^(e mod 61)), signed; +-inf -> +-314159 *)
Definition py_hash_float (f : float) : Z :=
  match Prim2SF f with
  | S754_zero _ => 0
  | S754_infinity s => if s then -314159 else 314159
  | S754_nan => 0
  | S754_finite s m e =>
      let a := ((Zpos m mod hash_modulus) * (2 ^ (e mod 61))) mod hash_modulus in
      fix_minus_one (if s then - a else a)
  end.

Fixpoint strhash_loop (x : Z) (s : list N) : Z :=
  match s with
  | [] => x
  | c :: s' => strhash_loop (strhash_step x (Z.of_N c)) s'
  end.

Definition strhash (s : list N) : Z :=
  match s with
  | [] => 0
  | c :: s' => strhash_fin (strhash_loop (strhash_init (Z.of_N c)) s') (Z.of_nat (length s))
  end.

Section PortableHash.
  (* hash() of an object outside the portable key domain (encoded VErr tag): whatever the running
     interpreter answers -- for str/bytes-based objects this depends on PYTHONHASHSEED *)
  Variable runtime_hash : string -> Z.

  Fixpoint portable_hash (v : val) : Z :=
    match v with
    | VNone => 0
    | VList l | VTup l =>
        tuplehash_fin
          (fold_left (fun h x => tuplehash_step sys_maxsize h (portable_hash x)) l tuplehash_init)
          (Z.of_nat (length l))
    | VStr s => strhash s
    | VBool b => if b then 1 else 0          (* hash(True) = 1 *)
    | VInt z => py_hash_int z
    | VFloat f => py_hash_float f
    | VErr tag => runtime_hash tag
    end.

  Definition rdd_hash (v : val) : Z := rdd_hash_mask (portable_hash v).    (* rdd._hash *)
End PortableHash.

(* the interpreter-dependent part is never reached for portable keys; Run uses this instance *)
Definition no_runtime_hash (_ : string) : Z := 0.

(* ------------------------------------------------------------------ partitionBy *)

(* key_value[0] *)
Definition key_of (kv : val) : res val :=
  match kv with
  | VTup (k :: _) | VList (k :: _) => Ok k
  | VStr (c :: _) => Ok (VStr [c])
  | VTup [] | VList [] | VStr [] => Err "IndexError"
  | _ => Err "TypeError"
  end.

(* for key_value in toLocalIterator():
       idx = partitionFunc(key_value[0]) % numPartitions; new_partitions[idx].append(key_value) *)
Fixpoint pb_scatter (f : val -> Z) (n : Z) (new : parts) (kvs : list val) : res parts :=
  match kvs with
  | [] => Ok new
  | kv :: kvs' =>
      match key_of kv with
      | Err e => Err e
      | Ok k =>
          if n =? 0 then Err "ZeroDivisionError"
          else match py_idx (length new) (partition_index (f k) n) with
               | None => Err "IndexError"
               | Some j => pb_scatter f n (extend_at new j [kv]) kvs'
               end
      end
  end.

Definition partitionBy (f : val -> Z) (r : rdd) (numPartitions : Z) : res rdd :=
  match pb_scatter f numPartitions (repeat [] (Z.to_nat numPartitions)) (local_iter r) with
  | Ok ps => Ok (mk_rdd ps)
  | Err e => Err e
  end.

(* ------------------------------------------------------------------ MapPartitionsRDD users *)

(* mapPartitionsWithIndex(f): MapPartitionsRDD keeps prev.partitions(); f gets split.index *)
Definition map_partitions_with_index (f : Z -> list val -> list val) (r : rdd) : rdd :=
  map (fun ip => (fst ip, f (fst ip) (snd ip))) r.

(* zipWithUniqueId: ((xx, e * num_p + tc.partition_id) for e, xx in enumerate(x)) *)
Definition zip_uid_part (num_p i : Z) (p : list val) : list val :=
  map (fun ex => VTup [snd ex; VInt (unique_id (fst ex) num_p i)]) (enum_from 0 p).

Definition zip_with_unique_id (r : rdd) : rdd :=
  map (fun ip => (fst ip, zip_uid_part (num_partitions r) (fst ip) (snd ip))) r.

(* ------------------------------------------------------------------ pipelines *)

Inductive source :=
| SPar (xs : list val) (n : option Z)      (* Context.parallelize(xs, n) *)
| SParts (ps : parts).                     (* Context._parallelize_partitions(ps) *)

Inductive op :=
| OCoalesce (m : Z)
| ORepartition (m : Z)
| OPartitionBy (n : Z) (f : val -> Z)
| OZipUid
| OTagIndex        (* mapPartitionsWithIndex(lambda i, it: ((i, x) for x in it)) *)
| OMap (g : val -> val)              (* map / keyBy / mapValues: element-wise, lazy *)
| OFlatMap (g : val -> list val)     (* flatMap *)
| OPersist                           (* persist(): same partitions, same contents *)
| OZipIndex                          (* zipWithIndex() *)
| OFault (fi : Z).  (* a stage whose function raises once in the task of partition fi; the task is
                       retried (see run_task below) and the retried attempt yields the same elements *)

Definition tag_index (i : Z) (p : list val) : list val := map (fun x => VTup [VInt i; x]) p.

(* zipWithIndex: parallelize((d, i) for i, d in enumerate(self.toLocalIterator())) -- one partition *)
Definition zip_with_index (r : rdd) : rdd :=
  parallelize (map (fun ix => VTup [snd ix; VInt (fst ix)]) (enum_from 0 (local_iter r))) None.

Definition run_source (s : source) : rdd :=
  match s with
  | SPar xs n => parallelize xs n
  | SParts ps => mk_rdd ps
  end.

Definition run_op (o : op) (r : rdd) : res rdd :=
  match o with
  | OCoalesce m => coalesce r m
  | ORepartition m => Ok (repartition r m)
  | OPartitionBy n f => partitionBy f r n
  | OZipUid => Ok (zip_with_unique_id r)
  | OTagIndex => Ok (map_partitions_with_index tag_index r)
  | OMap g => Ok (map_partitions_with_index (fun _ p => map g p) r)
  | OFlatMap g => Ok (map_partitions_with_index (fun _ p => flat_map g p) r)
  | OPersist => Ok r
  | OZipIndex => Ok (zip_with_index r)
  | OFault _ => Ok r
  end.

Fixpoint run_ops (ops : list op) (r : rdd) : res rdd :=
  match ops with
  | [] => Ok r
  | o :: ops' => match run_op o r with Ok r' => run_ops ops' r' | Err e => Err e end
  end.

Definition run_pipeline (s : source) (ops : list op) : res rdd := run_ops ops (run_source s).

(* ------------------------------------------------------------------ tasks, attempts, retries *)

(* context._run_task: attempt_number += 1; try func(tc, rdd.compute(partition, tc)); on an
   exception raise it when attempt_number == max_retries, otherwise run the task again with the
   SAME task context and the SAME partition (so the same split.index / tc.partition_id).
   [plan] says which attempts fail (true = the stage function raises during this attempt);
   [f] is what the lineage computes from (index, contents).  Result and the index every attempt saw. *)
Fixpoint run_task (attempts_left : nat) (plan : list bool) (f : Z -> list val -> list val)
         (ip : Z * list val) : res (list val) * list Z :=
  match attempts_left with
  | O => (Err "RuntimeError", [])
  | S k =>
      match plan with
      | true :: plan' =>
          match k with
          | O => (Err "RuntimeError", [fst ip])
          | S _ => let rl := run_task k plan' f ip in (fst rl, fst ip :: snd rl)
          end
      | _ => (Ok (f (fst ip) (snd ip)), [fst ip])
      end
  end.

Definition max_retries : nat := 3.    (* Context(max_retries=3) *)

(* Context._runJob_local: the tasks one after the other; the first task that gives up ends the job *)
Fixpoint run_job (plans : Z -> list bool) (f : Z -> list val -> list val) (r : rdd) : res parts * list Z :=
  match r with
  | [] => (Ok [], [])
  | ip :: r' =>
      let t := run_task max_retries (plans (fst ip)) f ip in
      match fst t with
      | Err e => (Err e, snd t)
      | Ok p =>
          let j := run_job plans f r' in
          (match fst j with Ok ps => Ok (p :: ps) | Err e => Err e end, snd t ++ snd j)
      end
  end.

Fixpoint fails_before (plan : list bool) : nat :=
  match plan with true :: plan' => S (fails_before plan') | _ => O end.
