Base/Num.vo Base/Num.glob Base/Num.v.beautified Base/Num.required_vo: Base/Num.v 
Base/Num.vio: Base/Num.v 
Base/Num.vos Base/Num.vok Base/Num.required_vos: Base/Num.v 
Base/NumR.vo Base/NumR.glob Base/NumR.v.beautified Base/NumR.required_vo: Base/NumR.v Base/Num.vo
Base/NumR.vio: Base/NumR.v Base/Num.vio
Base/NumR.vos Base/NumR.vok Base/NumR.required_vos: Base/NumR.v Base/Num.vos
Base/PyArith.vo Base/PyArith.glob Base/PyArith.v.beautified Base/PyArith.required_vo: Base/PyArith.v 
Base/PyArith.vio: Base/PyArith.v 
Base/PyArith.vos Base/PyArith.vok Base/PyArith.required_vos: Base/PyArith.v 
Base/Val.vo Base/Val.glob Base/Val.v.beautified Base/Val.required_vo: Base/Val.v 
Base/Val.vio: Base/Val.v 
Base/Val.vos Base/Val.vok Base/Val.required_vos: Base/Val.v 
Gen/Casts.vo Gen/Casts.glob Gen/Casts.v.beautified Gen/Casts.required_vo: Gen/Casts.v Base/PyArith.vo
Gen/Casts.vio: Gen/Casts.v Base/PyArith.vio
Gen/Casts.vos Gen/Casts.vok Gen/Casts.required_vos: Gen/Casts.v Base/PyArith.vos
Gen/Layout.vo Gen/Layout.glob Gen/Layout.v.beautified Gen/Layout.required_vo: Gen/Layout.v Base/PyArith.vo
Gen/Layout.vio: Gen/Layout.v Base/PyArith.vio
Gen/Layout.vos Gen/Layout.vok Gen/Layout.required_vos: Gen/Layout.v Base/PyArith.vos
Gen/Parallelize.vo Gen/Parallelize.glob Gen/Parallelize.v.beautified Gen/Parallelize.required_vo: Gen/Parallelize.v Base/PyArith.vo
Gen/Parallelize.vio: Gen/Parallelize.v Base/PyArith.vio
Gen/Parallelize.vos Gen/Parallelize.vok Gen/Parallelize.required_vos: Gen/Parallelize.v Base/PyArith.vos
Gen/StatCounter.vo Gen/StatCounter.glob Gen/StatCounter.v.beautified Gen/StatCounter.required_vo: Gen/StatCounter.v Base/PyArith.vo Base/Num.vo
Gen/StatCounter.vio: Gen/StatCounter.v Base/PyArith.vio Base/Num.vio
Gen/StatCounter.vos Gen/StatCounter.vok Gen/StatCounter.required_vos: Gen/StatCounter.v Base/PyArith.vos Base/Num.vos
Model/Cast.vo Model/Cast.glob Model/Cast.v.beautified Model/Cast.required_vo: Model/Cast.v Base/Val.vo Gen/Casts.vo
Model/Cast.vio: Model/Cast.v Base/Val.vio Gen/Casts.vio
Model/Cast.vos Model/Cast.vok Model/Cast.required_vos: Model/Cast.v Base/Val.vos Gen/Casts.vos
Proofs/Cast.vo Proofs/Cast.glob Proofs/Cast.v.beautified Proofs/Cast.required_vo: Proofs/Cast.v Base/Val.vo Gen/Casts.vo Model/Cast.vo
Proofs/Cast.vio: Proofs/Cast.v Base/Val.vio Gen/Casts.vio Model/Cast.vio
Proofs/Cast.vos Proofs/Cast.vok Proofs/Cast.required_vos: Proofs/Cast.v Base/Val.vos Gen/Casts.vos Model/Cast.vos
Properties/C18.vo Properties/C18.glob Properties/C18.v.beautified Properties/C18.required_vo: Properties/C18.v Base/Val.vo Gen/Casts.vo Model/Cast.vo Proofs/Cast.vo
Properties/C18.vio: Properties/C18.v Base/Val.vio Gen/Casts.vio Model/Cast.vio Proofs/Cast.vio
Properties/C18.vos Properties/C18.vok Properties/C18.required_vos: Properties/C18.v Base/Val.vos Gen/Casts.vos Model/Cast.vos Proofs/Cast.vos
Run/C18_run.vo Run/C18_run.glob Run/C18_run.v.beautified Run/C18_run.required_vo: Run/C18_run.v Base/Val.vo Model/Cast.vo
Run/C18_run.vio: Run/C18_run.v Base/Val.vio Model/Cast.vio
Run/C18_run.vos Run/C18_run.vok Run/C18_run.required_vos: Run/C18_run.v Base/Val.vos Model/Cast.vos
