Base/Num.vo Base/Num.glob Base/Num.v.beautified Base/Num.required_vo: Base/Num.v 
Base/Num.vio: Base/Num.v 
Base/Num.vos Base/Num.vok Base/Num.required_vos: Base/Num.v 
Base/NumR.vo Base/NumR.glob Base/NumR.v.beautified Base/NumR.required_vo: Base/NumR.v Base/Num.vo
Base/NumR.vio: Base/NumR.v Base/Num.vio
Base/NumR.vos Base/NumR.vok Base/NumR.required_vos: Base/NumR.v Base/Num.vos
Base/NumSqrt.vo Base/NumSqrt.glob Base/NumSqrt.v.beautified Base/NumSqrt.required_vo: Base/NumSqrt.v Base/Num.vo
Base/NumSqrt.vio: Base/NumSqrt.v Base/Num.vio
Base/NumSqrt.vos Base/NumSqrt.vok Base/NumSqrt.required_vos: Base/NumSqrt.v Base/Num.vos
Base/NumSqrtR.vo Base/NumSqrtR.glob Base/NumSqrtR.v.beautified Base/NumSqrtR.required_vo: Base/NumSqrtR.v Base/Num.vo Base/NumR.vo Base/NumSqrt.vo
Base/NumSqrtR.vio: Base/NumSqrtR.v Base/Num.vio Base/NumR.vio Base/NumSqrt.vio
Base/NumSqrtR.vos Base/NumSqrtR.vok Base/NumSqrtR.required_vos: Base/NumSqrtR.v Base/Num.vos Base/NumR.vos Base/NumSqrt.vos
Base/PyArith.vo Base/PyArith.glob Base/PyArith.v.beautified Base/PyArith.required_vo: Base/PyArith.v 
Base/PyArith.vio: Base/PyArith.v 
Base/PyArith.vos Base/PyArith.vok Base/PyArith.required_vos: Base/PyArith.v 
Base/Val.vo Base/Val.glob Base/Val.v.beautified Base/Val.required_vo: Base/Val.v 
Base/Val.vio: Base/Val.v 
Base/Val.vos Base/Val.vok Base/Val.required_vos: Base/Val.v 
Gen/Casts.vo Gen/Casts.glob Gen/Casts.v.beautified Gen/Casts.required_vo: Gen/Casts.v Base/PyArith.vo
Gen/Casts.vio: Gen/Casts.v Base/PyArith.vio
Gen/Casts.vos Gen/Casts.vok Gen/Casts.required_vos: Gen/Casts.v Base/PyArith.vos
Gen/Covariance.vo Gen/Covariance.glob Gen/Covariance.v.beautified Gen/Covariance.required_vo: Gen/Covariance.v Base/PyArith.vo Base/Num.vo Base/NumSqrt.vo
Gen/Covariance.vio: Gen/Covariance.v Base/PyArith.vio Base/Num.vio Base/NumSqrt.vio
Gen/Covariance.vos Gen/Covariance.vok Gen/Covariance.required_vos: Gen/Covariance.v Base/PyArith.vos Base/Num.vos Base/NumSqrt.vos
Gen/Joins.vo Gen/Joins.glob Gen/Joins.v.beautified Gen/Joins.required_vo: Gen/Joins.v 
Gen/Joins.vio: Gen/Joins.v 
Gen/Joins.vos Gen/Joins.vok Gen/Joins.required_vos: Gen/Joins.v 
Gen/Layout.vo Gen/Layout.glob Gen/Layout.v.beautified Gen/Layout.required_vo: Gen/Layout.v Base/PyArith.vo
Gen/Layout.vio: Gen/Layout.v Base/PyArith.vio
Gen/Layout.vos Gen/Layout.vok Gen/Layout.required_vos: Gen/Layout.v Base/PyArith.vos
Gen/Parallelize.vo Gen/Parallelize.glob Gen/Parallelize.v.beautified Gen/Parallelize.required_vo: Gen/Parallelize.v Base/PyArith.vo
Gen/Parallelize.vio: Gen/Parallelize.v Base/PyArith.vio
Gen/Parallelize.vos Gen/Parallelize.vok Gen/Parallelize.required_vos: Gen/Parallelize.v Base/PyArith.vos
Gen/StatCounter.vo Gen/StatCounter.glob Gen/StatCounter.v.beautified Gen/StatCounter.required_vo: Gen/StatCounter.v Base/PyArith.vo Base/Num.vo
Gen/StatCounter.vio: Gen/StatCounter.v Base/PyArith.vio Base/Num.vio
Gen/StatCounter.vos Gen/StatCounter.vok Gen/StatCounter.required_vos: Gen/StatCounter.v Base/PyArith.vos Base/Num.vos
Gen/TypeTables.vo Gen/TypeTables.glob Gen/TypeTables.v.beautified Gen/TypeTables.required_vo: Gen/TypeTables.v 
Gen/TypeTables.vio: Gen/TypeTables.v 
Gen/TypeTables.vos Gen/TypeTables.vok Gen/TypeTables.required_vos: Gen/TypeTables.v 
Gen/Window.vo Gen/Window.glob Gen/Window.v.beautified Gen/Window.required_vo: Gen/Window.v Base/PyArith.vo
Gen/Window.vio: Gen/Window.v Base/PyArith.vio
Gen/Window.vos Gen/Window.vok Gen/Window.required_vos: Gen/Window.v Base/PyArith.vos
Model/Cast.vo Model/Cast.glob Model/Cast.v.beautified Model/Cast.required_vo: Model/Cast.v Base/Val.vo Gen/Casts.vo
Model/Cast.vio: Model/Cast.v Base/Val.vio Gen/Casts.vio
Model/Cast.vos Model/Cast.vok Model/Cast.required_vos: Model/Cast.v Base/Val.vos Gen/Casts.vos
Model/Keyed.vo Model/Keyed.glob Model/Keyed.v.beautified Model/Keyed.required_vo: Model/Keyed.v Base/Val.vo Gen/Parallelize.vo
Model/Keyed.vio: Model/Keyed.v Base/Val.vio Gen/Parallelize.vio
Model/Keyed.vos Model/Keyed.vok Model/Keyed.required_vos: Model/Keyed.v Base/Val.vos Gen/Parallelize.vos
Model/Layout.vo Model/Layout.glob Model/Layout.v.beautified Model/Layout.required_vo: Model/Layout.v Base/Val.vo Base/PyArith.vo Gen/Parallelize.vo Gen/Layout.vo
Model/Layout.vio: Model/Layout.v Base/Val.vio Base/PyArith.vio Gen/Parallelize.vio Gen/Layout.vio
Model/Layout.vos Model/Layout.vok Model/Layout.required_vos: Model/Layout.v Base/Val.vos Base/PyArith.vos Gen/Parallelize.vos Gen/Layout.vos
Model/Stats.vo Model/Stats.glob Model/Stats.v.beautified Model/Stats.required_vo: Model/Stats.v Base/Val.vo Base/Num.vo Base/NumSqrt.vo Gen/StatCounter.vo Gen/Covariance.vo
Model/Stats.vio: Model/Stats.v Base/Val.vio Base/Num.vio Base/NumSqrt.vio Gen/StatCounter.vio Gen/Covariance.vio
Model/Stats.vos Model/Stats.vok Model/Stats.required_vos: Model/Stats.v Base/Val.vos Base/Num.vos Base/NumSqrt.vos Gen/StatCounter.vos Gen/Covariance.vos
Proofs/Cast.vo Proofs/Cast.glob Proofs/Cast.v.beautified Proofs/Cast.required_vo: Proofs/Cast.v Base/Val.vo Gen/Casts.vo Model/Cast.vo
Proofs/Cast.vio: Proofs/Cast.v Base/Val.vio Gen/Casts.vio Model/Cast.vio
Proofs/Cast.vos Proofs/Cast.vok Proofs/Cast.required_vos: Proofs/Cast.v Base/Val.vos Gen/Casts.vos Model/Cast.vos
Proofs/CastStrings.vo Proofs/CastStrings.glob Proofs/CastStrings.v.beautified Proofs/CastStrings.required_vo: Proofs/CastStrings.v Base/Val.vo Gen/Casts.vo Model/Cast.vo Proofs/Cast.vo
Proofs/CastStrings.vio: Proofs/CastStrings.v Base/Val.vio Gen/Casts.vio Model/Cast.vio Proofs/Cast.vio
Proofs/CastStrings.vos Proofs/CastStrings.vok Proofs/CastStrings.required_vos: Proofs/CastStrings.v Base/Val.vos Gen/Casts.vos Model/Cast.vos Proofs/Cast.vos
Properties/C18.vo Properties/C18.glob Properties/C18.v.beautified Properties/C18.required_vo: Properties/C18.v Base/Val.vo Gen/Casts.vo Model/Cast.vo Proofs/Cast.vo Proofs/CastStrings.vo
Properties/C18.vio: Properties/C18.v Base/Val.vio Gen/Casts.vio Model/Cast.vio Proofs/Cast.vio Proofs/CastStrings.vio
Properties/C18.vos Properties/C18.vok Properties/C18.required_vos: Properties/C18.v Base/Val.vos Gen/Casts.vos Model/Cast.vos Proofs/Cast.vos Proofs/CastStrings.vos
Run/C07_run.vo Run/C07_run.glob Run/C07_run.v.beautified Run/C07_run.required_vo: Run/C07_run.v Base/Val.vo Base/PyArith.vo Gen/Parallelize.vo Gen/Layout.vo Model/Layout.vo
Run/C07_run.vio: Run/C07_run.v Base/Val.vio Base/PyArith.vio Gen/Parallelize.vio Gen/Layout.vio Model/Layout.vio
Run/C07_run.vos Run/C07_run.vok Run/C07_run.required_vos: Run/C07_run.v Base/Val.vos Base/PyArith.vos Gen/Parallelize.vos Gen/Layout.vos Model/Layout.vos
Run/C17_run.vo Run/C17_run.glob Run/C17_run.v.beautified Run/C17_run.required_vo: Run/C17_run.v Base/Val.vo Base/Num.vo Base/NumSqrt.vo Model/Stats.vo
Run/C17_run.vio: Run/C17_run.v Base/Val.vio Base/Num.vio Base/NumSqrt.vio Model/Stats.vio
Run/C17_run.vos Run/C17_run.vok Run/C17_run.required_vos: Run/C17_run.v Base/Val.vos Base/Num.vos Base/NumSqrt.vos Model/Stats.vos
Run/C18_run.vo Run/C18_run.glob Run/C18_run.v.beautified Run/C18_run.required_vo: Run/C18_run.v Base/Val.vo Model/Cast.vo
Run/C18_run.vio: Run/C18_run.v Base/Val.vio Model/Cast.vio
Run/C18_run.vos Run/C18_run.vok Run/C18_run.required_vos: Run/C18_run.v Base/Val.vos Model/Cast.vos
