"""Kernels for C10: the `already stepped at this time` guards of the four _step methods modelled by
coq/Model/DStream.v and the branch structure of QueueStream.get (-> coq/Gen/DStreamStep.v)."""
import ast

from genlib import HEADER_Z, Tr, Unsupported, find_function, only, tree

DSTREAM = 'pysparkling/streaming/dstream.py'
QUEUE = 'pysparkling/streaming/queuestream.py'
CLASSES = ['DStream', 'TransformedDStream', 'TransformedWithDStream', 'CogroupedDStream']


def _body(f):
    return [s for s in f.body if not (isinstance(s, ast.Expr) and isinstance(s.value, ast.Constant))]


def _guard(cls):
    def k():
        f = find_function(tree(DSTREAM), f'{cls}._step')
        if [a.arg for a in f.args.args] != ['self', 'time_']:
            raise Unsupported('_step does not take (self, time_)')
        first = _body(f)[0]
        if not (isinstance(first, ast.If) and not first.orelse and len(first.body) == 1
                and isinstance(first.body[0], ast.Return) and first.body[0].value is None):
            raise Unsupported('first statement of _step is not `if <guard>: return`')
        names = {n.id for n in ast.walk(first.test) if isinstance(n, ast.Name)}
        attrs = {n.attr for n in ast.walk(first.test) if isinstance(n, ast.Attribute)}
        if not names <= {'self', 'time_'} or not attrs <= {'_current_time'}:
            raise Unsupported('guard mentions something else than time_ and self._current_time')
        t = Tr()
        c, ty = t.expr(first.test)
        if ty != 'B':
            raise Unsupported('guard is not a comparison')
        return f'Definition step_guard_{cls} (time_ self__current_time : Z) : bool :=\n  {c}.\n'
    return k


def k_queue_get():
    f = find_function(tree(QUEUE), 'QueueStream.get')
    body = _body(f)
    if len(body) != 4:
        raise Unsupported('QueueStream.get does not consist of 4 statements')
    a, if1, if2, ret = body
    if not (isinstance(a, ast.Assign) and getattr(a.targets[0], 'id', None) == 'q_size'
            and isinstance(a.value, ast.Call) and isinstance(a.value.func, ast.Attribute)
            and a.value.func.attr == 'qsize'):
        raise Unsupported('first statement is not q_size = self.queue.qsize()')

    def ret_of(s, what):
        if not (isinstance(s, ast.If) and not s.orelse and len(s.body) == 1 and isinstance(s.body[0], ast.Return)):
            raise Unsupported(f'{what} is not `if <test>: return <value>`')
        return s.test, s.body[0].value
    t1, v1 = ret_of(if1, 'second statement')
    t2, v2 = ret_of(if2, 'third statement')
    if not (isinstance(v1, ast.Attribute) and v1.attr == 'default'):
        raise Unsupported('empty-queue branch does not return self.default')
    if not (isinstance(v2, ast.Call) and isinstance(v2.func, ast.Attribute) and v2.func.attr == 'get_nowait'):
        raise Unsupported('oneAtATime branch does not return self.queue.get_nowait()')
    if not (isinstance(ret, ast.Return) and isinstance(ret.value, ast.ListComp) and len(ret.value.generators) == 2):
        raise Unsupported('last statement is not the two-level comprehension over all queued batches')
    g1, g2 = ret.value.generators
    if not (isinstance(g1.iter, ast.Call) and getattr(g1.iter.func, 'id', None) == 'range'
            and getattr(g1.iter.args[0], 'id', None) == 'q_size'
            and isinstance(g2.iter, ast.Call) and getattr(g2.iter.func, 'attr', None) == 'get_nowait'
            and getattr(ret.value.elt, 'id', None) == getattr(g2.target, 'id', 0)):
        raise Unsupported('comprehension is not [e for _ in range(q_size) for e in self.queue.get_nowait()]')
    t = Tr(types={'self_oneAtATime': 'B'})
    c1, ty1 = t.expr(t1)
    c2, ty2 = t.expr(t2)
    if ty1 != 'B' or ty2 != 'B':
        raise Unsupported('branch tests are not boolean')
    return ('(* 0: return self.default; 1: return one queued batch; 2: all queued batches concatenated *)\n'
            'Definition queue_get_branch (q_size : Z) (self_oneAtATime : bool) : Z :=\n'
            f'  if {c1} then 0 else if {c2} then 1 else 2.\n')


FILES = [
    ('DStreamStep.v', f'{DSTREAM}, {QUEUE}', HEADER_Z,
     [(f'step_guard_{c}', _guard(c)) for c in CLASSES] + [('queue_get_branch', k_queue_get)]),
]
