"""Kernels for C01/C07 (parallelize, layout, hashing), C18 (casts) and C17 (StatCounter)."""
import ast

from genlib import (HEADER_F, HEADER_Z, Subst, Tr, Unsupported, assigns_to, find_function, only, tree)



def k_parallelize():
    f = find_function(tree('pysparkling/context.py'), 'Context.parallelize.partitioned')
    loop = only([s for s in f.body if isinstance(s, ast.For)], 'for loop in partitioned()')
    if not (isinstance(loop.target, ast.Name) and loop.target.id == 'i'
            and isinstance(loop.iter, ast.Call) and getattr(loop.iter.func, 'id', None) == 'range'
            and len(loop.iter.args) == 1 and getattr(loop.iter.args[0], 'id', None) == 'numSlices'):
        raise Unsupported('loop header is not `for i in range(numSlices)`')
    body = list(loop.body)
    last = body[-1]
    if not (isinstance(last, ast.Expr) and isinstance(last.value, ast.Yield)):
        raise Unsupported('loop body does not end with a yield')
    y = last.value.value
    if not (isinstance(y, ast.Call) and isinstance(y.func, ast.Attribute) and y.func.attr == 'islice'
            and len(y.args) == 2 and getattr(y.args[0], 'id', None) == 'x'):
        raise Unsupported('yield is not itertools.islice(x, <count>)')
    body[-1] = ast.Return(value=y.args[1])
    t = Tr()
    return t.function('par_take', [('i', 'Z'), ('len_x', 'Z'), ('numSlices', 'Z')], body, 'ERROR', ret_type='Z')


def k_parallelize_guard():
    f = find_function(tree('pysparkling/context.py'), 'Context.parallelize')
    first = [s for s in f.body if not (isinstance(s, ast.Expr) and isinstance(s.value, ast.Constant))][0]
    if not (isinstance(first, ast.If) and isinstance(first.test, ast.BoolOp) and isinstance(first.test.op, ast.Or)
            and len(first.test.values) == 2):
        raise Unsupported('first statement is not `if numSlices is None or <cond>`')
    isnone, cond = first.test.values
    if not (isinstance(isnone, ast.Compare) and isinstance(isnone.ops[0], ast.Is)):
        raise Unsupported('first disjunct is not `numSlices is None`')
    t = Tr()
    c, ty = t.expr(cond)
    return f'Definition par_single (numSlices : Z) : bool :=\n  {c}.\n'


def k_coalesce():
    f = find_function(tree('pysparkling/rdd.py'), 'RDD.coalesce')
    names = ['new_num_partitions', 'small_group_size', 'big_group_size',
             'number_of_big_groups', 'number_of_small_groups', 'partition_mapping']
    stmts = assigns_to(f.body, names)
    t = Tr()
    res = '(new_num_partitions, partition_mapping)'
    return t.function('coalesce_plan', [('numPartitions', 'Z'), ('current_num_partitions', 'Z')], stmts, res)


def k_unique_id():
    f = find_function(tree('pysparkling/rdd.py'), 'RDD.zipWithUniqueId')
    gens = [n for n in ast.walk(f) if isinstance(n, ast.GeneratorExp)]
    g = only(gens, 'generator expression in zipWithUniqueId')
    if not (isinstance(g.elt, ast.Tuple) and len(g.elt.elts) == 2):
        raise Unsupported('generator element is not a pair')
    comp = only(g.generators, 'comprehension clause')
    if not (isinstance(comp.iter, ast.Call) and getattr(comp.iter.func, 'id', None) == 'enumerate'
            and isinstance(comp.target, ast.Tuple) and [getattr(e, 'id', None) for e in comp.target.elts] == ['e', 'xx']
            and getattr(g.elt.elts[0], 'id', None) == 'xx'):
        raise Unsupported('not `(xx, <id>) for e, xx in enumerate(x)`')
    t = Tr()
    return t.function('unique_id', [('e', 'Z'), ('num_p', 'Z'), ('tc_partition_id', 'Z')],
                      [ast.Return(value=g.elt.elts[1])], 'ERROR', ret_type='Z')


def k_hash_mask():
    f = find_function(tree('pysparkling/rdd.py'), '_hash')
    ret = only([s for s in f.body if isinstance(s, ast.Return)], 'return in _hash')
    e = Subst({'portable_hash': 'h'}).visit(ret.value)
    return Tr().function('rdd_hash_mask', [('h', 'Z')], [ast.Return(value=e)], 'ERROR', ret_type='Z')


def k_partition_index():
    f = find_function(tree('pysparkling/rdd.py'), 'RDD.partitionBy')
    loop = only([s for s in f.body if isinstance(s, ast.For)], 'for loop in partitionBy')
    a = only([s for s in loop.body if isinstance(s, ast.Assign) and getattr(s.targets[0], 'id', None) == 'idx'],
             'assignment to idx')
    e = Subst({'partitionFunc': 'fk'}).visit(a.value)
    return Tr().function('partition_index', [('fk', 'Z'), ('numPartitions', 'Z')], [ast.Return(value=e)],
                         'ERROR', ret_type='Z')


def k_strhash():
    f = find_function(tree('pysparkling/utils.py'), 'strhash')
    init = only([s for s in f.body if isinstance(s, ast.Assign) and getattr(s.targets[0], 'id', None) == 'x'
                 and isinstance(s.value, ast.BinOp) and isinstance(s.value.op, ast.LShift)], 'initial x')
    loop = only([s for s in f.body if isinstance(s, ast.For)], 'for loop in strhash')
    fin = [s for s in f.body if isinstance(s, ast.Assign) and getattr(s.targets[0], 'id', None) == 'x'
           and s is not init]
    fin = only(fin, 'final assignment to x')
    out = ''

    class Ord(ast.NodeTransformer):
        def visit_Call(self, node):
            self.generic_visit(node)
            if getattr(node.func, 'id', None) == 'ord':
                return ast.Name(id='c', ctx=ast.Load())
            if getattr(node.func, 'id', None) == 'len':
                return ast.Name(id='len_string', ctx=ast.Load())
            return node
    out += Tr().function('strhash_init', [('c', 'Z')], [ast.Return(value=Ord().visit(init.value))], 'ERROR', ret_type='Z')
    out += '\n' + Tr().function('strhash_step', [('x', 'Z'), ('c', 'Z')],
                                [Ord().visit(s) for s in loop.body], 'x')
    out += '\n' + Tr().function('strhash_fin', [('x', 'Z'), ('len_string', 'Z')],
                                [ast.Return(value=Ord().visit(fin.value))], 'ERROR', ret_type='Z')
    return out


def k_tuplehash():
    f = find_function(tree('pysparkling/utils.py'), 'portable_hash')
    branch = only([s for s in f.body if isinstance(s, ast.If) and isinstance(s.test, ast.Call)
                   and getattr(s.test.func, 'id', None) == 'isinstance'
                   and getattr(s.test.args[1], 'id', None) == 'tuple'], 'isinstance(x, tuple) branch')
    init = only([s for s in branch.body if isinstance(s, ast.Assign) and isinstance(s.value, ast.Constant)], 'initial h')
    loop = only([s for s in branch.body if isinstance(s, ast.For)], 'for loop over the tuple')
    after = branch.body[branch.body.index(loop) + 1:]
    if not isinstance(after[-1], ast.Return):
        raise Unsupported('tuple branch does not end with return')

    class Sub(ast.NodeTransformer):
        def visit_Call(self, node):
            self.generic_visit(node)
            fn = getattr(node.func, 'id', None)
            if fn == 'portable_hash':
                return ast.Name(id='hi', ctx=ast.Load())
            if fn == 'len':
                return ast.Name(id='len_x', ctx=ast.Load())
            return node
    out = Tr().function('tuplehash_init', [], [ast.Return(value=init.value)], 'ERROR', ret_type='Z')
    out += '\n' + Tr().function('tuplehash_step', [('sys_maxsize', 'Z'), ('h', 'Z'), ('hi', 'Z')],
                                [Sub().visit(s) for s in loop.body], 'h')
    out += '\n' + Tr().function('tuplehash_fin', [('h', 'Z'), ('len_x', 'Z')],
                                [Sub().visit(s) for s in after], 'ERROR', ret_type='Z')
    return out


def k_cast_bounded():
    f = find_function(tree('pysparkling/sql/casts.py'), '_cast_to_bounded_type')
    size = assigns_to(f.body, ['size'])

    def branch(cls_names):
        for s in f.body:
            if isinstance(s, ast.If) and isinstance(s.test, ast.Call) and getattr(s.test.func, 'id', None) == 'isinstance':
                arg = s.test.args[1]
                names = [getattr(e, 'id', None) for e in arg.elts] if isinstance(arg, ast.Tuple) else [getattr(arg, 'id', None)]
                if names == cls_names:
                    return s
        raise Unsupported(f'no isinstance branch for {cls_names}')
    num = branch(['NumericType', 'BooleanType'])
    ret = only([s for s in num.body if isinstance(s, ast.Return)], 'return in numeric branch')
    pre = [s for s in num.body if s is not ret]
    if not (len(pre) == 1 and isinstance(pre[0], ast.Assign) and getattr(pre[0].targets[0], 'id', None) == 'value'
            and isinstance(pre[0].value, ast.Call) and getattr(pre[0].value.func, 'id', None) == 'int'):
        raise Unsupported('numeric branch is not `value = int(value); return ...`')
    out = Tr().function('cast_wrap', [('min_value', 'Z'), ('max_value', 'Z'), ('value', 'Z')],
                        size + [ret], 'ERROR', ret_type='Z')
    st = branch(['StringType'])
    ret = only([s for s in st.body if isinstance(s, ast.Return)], 'return in string branch')
    if not (isinstance(ret.value, ast.IfExp) and isinstance(ret.value.orelse, ast.Constant)
            and ret.value.orelse.value is None and getattr(ret.value.body, 'id', None) == 'casted_value'):
        raise Unsupported('string branch is not `return casted_value if <range test> else None`')
    c, _ = Tr().expr(ret.value.test)
    out += ('\nDefinition cast_in_range (min_value : Z) (max_value : Z) (casted_value : Z) : bool :=\n'
            f'  {c}.\n')
    return out


def k_cast_widths():
    out = ''
    for fn, nm in (('cast_to_byte', 'byte'), ('cast_to_short', 'short'), ('cast_to_int', 'int'), ('cast_to_long', 'long')):
        f = find_function(tree('pysparkling/sql/casts.py'), fn)
        a = only([s for s in f.body if isinstance(s, ast.Assign) and isinstance(s.targets[0], ast.Tuple)
                  and [getattr(e, 'id', None) for e in s.targets[0].elts] == ['min_value', 'max_value']],
                 f'min/max assignment in {fn}')
        lo, _ = Tr().expr(a.value.elts[0])
        hi, _ = Tr().expr(a.value.elts[1])
        out += f'Definition {nm}_min : Z := {lo}.\nDefinition {nm}_max : Z := {hi}.\n'
    return out


F_TYPES = {'self_mu': 'F', 'self_m2': 'F', 'self_maxValue': 'F', 'self_minValue': 'F',
           'other_mu': 'F', 'other_m2': 'F', 'other_maxValue': 'F', 'other_minValue': 'F',
           'value': 'F', 'delta': 'F'}
SC_STATE = [('self_n', 'Z'), ('self_mu', 'F'), ('self_m2', 'F'), ('self_maxValue', 'F'), ('self_minValue', 'F')]
SC_OTHER = [('other_n', 'Z'), ('other_mu', 'F'), ('other_m2', 'F'), ('other_maxValue', 'F'), ('other_minValue', 'F')]
SC_RES = '(self_n, self_mu, self_m2, self_maxValue, self_minValue)'


def k_statcounter():
    cls = 'StatCounter'
    f = find_function(tree('pysparkling/stat_counter.py'), f'{cls}.merge')
    body = [s for s in f.body if not isinstance(s, ast.Return)]
    out = Tr(types=F_TYPES).function('sc_merge', SC_STATE + [('value', 'F')], body, SC_RES)
    f = find_function(tree('pysparkling/stat_counter.py'), f'{cls}.mergeStats')
    body = list(f.body)
    first = body[0]
    if not (isinstance(first, ast.If) and isinstance(first.test, ast.Compare) and isinstance(first.test.ops[0], ast.Is)):
        raise Unsupported('mergeStats does not start with the `other is self` test')
    body = [s for s in body[1:] if not isinstance(s, ast.Return)]
    out += '\n' + Tr(types=F_TYPES).function('sc_mergeStats', SC_STATE + SC_OTHER, body, SC_RES)
    return out


FILES = [
    ('Parallelize.v', 'pysparkling/context.py', HEADER_Z, [('par_take', k_parallelize), ('par_single', k_parallelize_guard)]),
    ('Layout.v', 'pysparkling/rdd.py, pysparkling/utils.py', HEADER_Z,
     [('coalesce_plan', k_coalesce), ('unique_id', k_unique_id), ('rdd_hash_mask', k_hash_mask),
      ('partition_index', k_partition_index), ('strhash', k_strhash), ('tuplehash', k_tuplehash)]),
    ('Casts.v', 'pysparkling/sql/casts.py', HEADER_Z, [('cast_bounded', k_cast_bounded), ('cast_widths', k_cast_widths)]),
    ('StatCounter.v', 'pysparkling/stat_counter.py', HEADER_F, [('statcounter', k_statcounter)]),
]


