"""Kernels for C04: the retry decision of `_run_task`, the lock protocol of `Context.runJob`
(refusal test, acquire, release in a `finally`), the lock test of `RDD.__init__`.

Everything is located by function name and statement shape and fails closed: if the release of
the job lock is no longer the `finally` part of the `try` that encloses the whole job, or the
refusal test moved inside that `try`, no Gallina is emitted."""
import ast

from genlib import HEADER_Z, Tr, Unsupported, find_function, only, tree

CTX = 'pysparkling/context.py'
RDD = 'pysparkling/rdd.py'


def _no_doc(body):
    return [s for s in body if not (isinstance(s, ast.Expr) and isinstance(s.value, ast.Constant))]


def _is_attr(node, obj, attr):
    return (isinstance(node, ast.Attribute) and isinstance(node.value, ast.Name)
            and node.value.id == obj and node.attr == attr)


def _raises(stmt, exc_name):
    """`raise <exc_name>` or `raise <exc_name>(...)`."""
    if not isinstance(stmt, ast.Raise) or stmt.exc is None:
        return False
    e = stmt.exc.func if isinstance(stmt.exc, ast.Call) else stmt.exc
    return isinstance(e, ast.Name) and e.id == exc_name


def _not_logging(stmts):
    return [s for s in stmts if not (isinstance(s, ast.Expr) and isinstance(s.value, ast.Call)
                                     and isinstance(s.value.func, ast.Attribute)
                                     and isinstance(s.value.func.value, ast.Name) and s.value.func.value.id == 'log')]


def k_run_task():
    f = find_function(tree(CTX), '_run_task')
    if [a.arg for a in f.args.args] != ['task_context', 'rdd', 'func', 'partition']:
        raise Unsupported('_run_task signature changed')
    body = _not_logging(_no_doc(f.body))
    # 1. task_context.attempt_number += <expr>
    inc = body[0]
    if not (isinstance(inc, ast.AugAssign) and _is_attr(inc.target, 'task_context', 'attempt_number')):
        raise Unsupported('_run_task does not start with the attempt counter update')
    rename = {'task_context_attempt_number': 'attempt_number', 'task_context_max_retries': 'max_retries',
              'task_context_catch_exceptions': 'catch_exceptions'}
    t = Tr(rename=rename)
    out = t.function('attempt_next', [('attempt_number', 'Z')], [inc], 'attempt_number')
    # 2. try: return func(task_context, rdd.compute(partition, task_context))  except Exception as e: ...
    tr = body[1]
    if not (isinstance(tr, ast.Try) and not tr.finalbody and not tr.orelse and len(tr.handlers) == 1):
        raise Unsupported('_run_task: second statement is not a try with exactly one handler')
    tb = _not_logging(tr.body)
    if not (len(tb) == 1 and isinstance(tb[0], ast.Return) and isinstance(tb[0].value, ast.Call)
            and getattr(tb[0].value.func, 'id', None) == 'func' and len(tb[0].value.args) == 2
            and isinstance(tb[0].value.args[1], ast.Call) and _is_attr(tb[0].value.args[1].func, 'rdd', 'compute')):
        raise Unsupported('_run_task: try body is not `return func(task_context, rdd.compute(...))`')
    h = tr.handlers[0]
    if not (isinstance(h.type, ast.Name) and h.type.id == 'Exception' and h.name):
        raise Unsupported('_run_task: handler is not `except Exception as <name>`')
    hb = _not_logging(h.body)
    if not (len(hb) == 1 and isinstance(hb[0], ast.If) and not hb[0].orelse):
        raise Unsupported('_run_task: handler is not a single `if <attempts used up>:`')
    stop = hb[0]
    names = {n.attr for n in ast.walk(stop.test) if isinstance(n, ast.Attribute)}
    if names != {'attempt_number', 'max_retries'}:
        raise Unsupported(f'_run_task: the stop test mentions {sorted(names)}')
    c, ty = Tr(rename=rename).expr(stop.test)
    if ty != 'B':
        raise Unsupported('stop test is not boolean')
    out += ('\nDefinition retry_stop (attempt_number : Z) (max_retries : Z) : bool :=\n'
            f'  {c}.\n')
    sb = _not_logging(stop.body)
    if not (len(sb) == 1 and isinstance(sb[0], ast.If) and not sb[0].orelse and len(sb[0].body) == 1
            and isinstance(sb[0].body[0], ast.Raise) and isinstance(sb[0].body[0].exc, ast.Name)
            and sb[0].body[0].exc.id == h.name and sb[0].body[0].cause is None):
        raise Unsupported('_run_task: the stop branch is not `if <...>: raise <the caught exception>`')
    c, ty = Tr(rename=rename, types={'catch_exceptions': 'B'}).expr(sb[0].test)
    out += ('\nDefinition retry_reraise (catch_exceptions : bool) : bool :=\n'
            f'  {c}.\n')
    # 3. optional wait, then the recursive call with the same arguments
    rest = body[2:]
    if len(rest) == 2:
        w = rest[0]
        if not (isinstance(w, ast.If) and _is_attr(w.test, 'task_context', 'retry_wait') and not w.orelse):
            raise Unsupported('_run_task: unexpected statement between the handler and the retry')
        rest = rest[1:]
    if not (len(rest) == 1 and isinstance(rest[0], ast.Return) and isinstance(rest[0].value, ast.Call)
            and getattr(rest[0].value.func, 'id', None) == '_run_task'
            and [getattr(a, 'id', None) for a in rest[0].value.args] == ['task_context', 'rdd', 'func', 'partition']):
        raise Unsupported('_run_task does not end with `return _run_task(task_context, rdd, func, partition)`')
    return out


def _const_bool_assign(stmt, obj, attr):
    if not (isinstance(stmt, ast.Assign) and len(stmt.targets) == 1 and _is_attr(stmt.targets[0], obj, attr)
            and isinstance(stmt.value, ast.Constant) and isinstance(stmt.value.value, bool)):
        raise Unsupported(f'expected `{obj}.{attr} = <True|False>`, found {ast.dump(stmt)[:80]}')
    return 'true' if stmt.value.value else 'false'


def k_runjob_lock():
    f = find_function(tree(CTX), 'Context.runJob')
    body = _no_doc(f.body)
    idx = [i for i, s in enumerate(body) if isinstance(s, ast.If) and len(s.body) == 1
           and _raises(s.body[0], 'ContextIsLockedException')]
    i = only(idx, 'top-level `if ...: raise ContextIsLockedException` in runJob')
    test = body[i]
    if test.orelse:
        raise Unsupported('refusal test has an else branch')
    names = {(n.value.id, n.attr) for n in ast.walk(test.test) if isinstance(n, ast.Attribute) and isinstance(n.value, ast.Name)}
    if names != {('self', 'locked')}:
        raise Unsupported(f'refusal test reads {sorted(names)}')
    c, ty = Tr(types={'self_locked': 'B'}).expr(test.test)
    out = f'Definition job_refused (self_locked : bool) : bool :=\n  {c}.\n'
    # nothing that touches the lock or runs the job before the test
    for s in body[:i]:
        for n in ast.walk(s):
            if isinstance(n, ast.Attribute) and n.attr in ('locked', '_runJob_local', '_runJob_distributed'):
                raise Unsupported('runJob touches the lock or starts the job before the refusal test')
    if len(body) < i + 4:
        raise Unsupported('runJob: expected acquire, try/finally, return after the refusal test')
    out += f'\nDefinition lock_on_entry : bool :=\n  {_const_bool_assign(body[i + 1], "self", "locked")}.\n'
    tr = body[i + 2]
    if not (isinstance(tr, ast.Try) and not tr.handlers and not tr.orelse and len(tr.finalbody) == 1):
        raise Unsupported('runJob: the statement after the acquire is not `try: ... finally: <one statement>`')
    rel = _const_bool_assign(tr.finalbody[0], 'self', 'locked')
    # the whole job (tasks and result handler) runs inside the try
    inside = {n.attr for s in tr.body for n in ast.walk(s) if isinstance(n, ast.Attribute)}
    called = {n.func.id for s in tr.body for n in ast.walk(s) if isinstance(n, ast.Call) and isinstance(n.func, ast.Name)}
    if not ({'_runJob_local', '_runJob_distributed'} <= inside and 'resultHandler' in called):
        raise Unsupported('runJob: task execution or the result handler is outside the try/finally')
    for s in tr.body:
        for n in ast.walk(s):
            if isinstance(n, ast.Attribute) and n.attr == 'locked':
                raise Unsupported('runJob: the lock is touched inside the try body')
    for s in body[i + 3:]:
        if not isinstance(s, ast.Return):
            raise Unsupported('runJob: statements other than `return` after the try/finally')
    out += ('\n(* the release is the `finally` part: it runs on the normal and on the exceptional exit *)\n'
            f'Definition lock_after_ok : bool :=\n  {rel}.\n'
            f'\nDefinition lock_after_error : bool :=\n  {rel}.\n')
    return out


def k_rdd_init():
    f = find_function(tree(RDD), 'RDD.__init__')
    if [a.arg for a in f.args.args] != ['self', 'partitions', 'ctx']:
        raise Unsupported('RDD.__init__ signature changed')
    body = _no_doc(f.body)
    first = body[0]
    if not (isinstance(first, ast.If) and not first.orelse and len(first.body) == 1
            and _raises(first.body[0], 'ContextIsLockedException')):
        raise Unsupported('RDD.__init__ does not start with `if <locked>: raise ContextIsLockedException`')
    names = {(n.value.id, n.attr) for n in ast.walk(first.test) if isinstance(n, ast.Attribute) and isinstance(n.value, ast.Name)}
    if names != {('ctx', 'locked')}:
        raise Unsupported(f'RDD.__init__ lock test reads {sorted(names)}')
    c, ty = Tr(types={'ctx_locked': 'B'}).expr(first.test)
    return f'Definition rdd_init_refused (ctx_locked : bool) : bool :=\n  {c}.\n'


def _checked_subclasses():
    """Every dataset class derived from RDD that has its own __init__ starts it with RDD.__init__(self, ...)
    (or super().__init__(...)), i.e. goes through the lock test."""
    names = []
    for cls in tree(RDD).body:
        if not (isinstance(cls, ast.ClassDef) and any(getattr(b, 'id', None) == 'RDD' for b in cls.bases)):
            continue
        init = [s for s in cls.body if isinstance(s, ast.FunctionDef) and s.name == '__init__']
        if not init:
            names.append(cls.name)
            continue
        first = _no_doc(init[0].body)[0]
        call = first.value if isinstance(first, ast.Expr) and isinstance(first.value, ast.Call) else None
        ok = False
        if call is not None and isinstance(call.func, ast.Attribute) and call.func.attr == '__init__':
            tgt = call.func.value
            if isinstance(tgt, ast.Name) and tgt.id == 'RDD' and call.args and getattr(call.args[0], 'id', None) == 'self':
                ok = True
            if isinstance(tgt, ast.Call) and getattr(tgt.func, 'id', None) == 'super':
                ok = True
        if not ok:
            raise Unsupported(f'{cls.name}.__init__ does not start with RDD.__init__(self, ...): no lock test for that dataset class')
        names.append(cls.name)
    if not names:
        raise Unsupported('no dataset classes derived from RDD found')
    return names


_k_rdd_init_base = k_rdd_init


def k_rdd_init():  # noqa: F811
    out = _k_rdd_init_base()
    names = _checked_subclasses()
    return out + f'(* dataset classes whose constructor goes through RDD.__init__: {", ".join(names)} *)\n'


def k_tolocaliterator():
    f = find_function(tree(RDD), 'RDD.toLocalIterator')
    body = _no_doc(f.body)
    if not (len(body) == 1 and isinstance(body[0], ast.Return) and isinstance(body[0].value, ast.Call)
            and isinstance(body[0].value.func, ast.Attribute) and body[0].value.func.attr == 'runJob'):
        raise Unsupported('toLocalIterator is not a single `return self.context.runJob(...)`')
    call = body[0].value
    kws = {k.arg: k.value for k in call.keywords}
    if set(kws) != {'resultHandler'} or len(call.args) != 2 or getattr(call.args[0], 'id', None) != 'self':
        raise Unsupported(f'toLocalIterator: runJob called with keywords {sorted(kws)} / {len(call.args)} positional arguments')
    fn = call.args[1]
    if not (isinstance(fn, ast.Lambda) and len(fn.args.args) == 2 and isinstance(fn.body, ast.Call)
            and getattr(fn.body.func, 'id', None) == 'list' and len(fn.body.args) == 1
            and getattr(fn.body.args[0], 'id', None) == fn.args.args[1].arg):
        raise Unsupported('toLocalIterator: the task function is not `lambda tc, i: list(i)` (partitions are no longer '
                          'evaluated inside the task)')
    h = kws['resultHandler']
    if not (isinstance(h, ast.Lambda) and len(h.args.args) == 1):
        raise Unsupported('toLocalIterator: resultHandler is not a one-argument lambda')
    if isinstance(h.body, ast.GeneratorExp):
        deferred = 'true'
    elif isinstance(h.body, ast.Call) and getattr(h.body.func, 'id', None) in ('iter', 'list') and len(h.body.args) == 1 \
            and isinstance(h.body.args[0], (ast.ListComp, ast.Call)):
        deferred = 'false'
    else:
        raise Unsupported('toLocalIterator: resultHandler is neither a generator expression nor iter([...])')
    return ('(* toLocalIterator: the task function materialises its partition (list(i)); the result handler returns\n'
            '   a generator over the task results, i.e. the tasks run after runJob has returned: *)\n'
            f'Definition tli_deferred : bool :=\n  {deferred}.\n')


FILES = [
    ('Retry.v', 'pysparkling/context.py (_run_task, Context.runJob), pysparkling/rdd.py (RDD.__init__)', HEADER_Z,
     [('run_task_kernel', k_run_task), ('runjob_lock_kernel', k_runjob_lock), ('rdd_init_kernel', k_rdd_init),
      ('tolocaliterator_kernel', k_tolocaliterator)]),
]
