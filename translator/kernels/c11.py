"""Kernels for C11 (windowed / stateful streams), regenerated from pysparkling/streaming/dstream.py.

From WindowedDStream._step (located by class/method name and statement shape, never by line):
  win_guard         the test of the leading `if time_ <= self._current_time: return`
  win_trim_cond     the test of `while len(self._window) > self._window_duration: self._window.pop(0)`
  win_counter_next  the right-hand side of `self._slide_counter = (self._slide_counter + 1) % self._slide_duration`
  win_skip          the test of the `if self._slide_counter != 0: return` that follows it
  win_step_order    a constant list recording the ORDER of the effects of the method body
                    (0 guard, 1 set _current_time, 2 step parent, 3 append, 4 trim, 5 counter, 6 skip test, 7 union);
                    the model is written for [0;1;2;3;4;5;6;7] and the proofs check the regenerated value.
From StatefulDStream._step / TransformedDStream._step:
  st_guard / tr_guard   the guard tests.
Times are Python floats in the implementation; the virtual clock only produces integral values, and the
guard only compares, so they are modelled as Z (validated by the correspondence run).
Fail closed: every shape test raises Unsupported.
"""
import ast

from genlib import HEADER_Z, Tr, Unsupported, find_function, only, tree

SRC = 'pysparkling/streaming/dstream.py'


def _is_self_attr(node, attr):
    return (isinstance(node, ast.Attribute) and isinstance(node.value, ast.Name) and node.value.id == 'self'
            and node.attr == attr)


def _body(f):
    """Statements of a function without the docstring."""
    return [s for s in f.body if not (isinstance(s, ast.Expr) and isinstance(s.value, ast.Constant))]


def _names(e):
    """Variable names (after the translator's flattening of self.x to self_x) an expression mentions."""
    out = set()
    for n in ast.walk(e):
        if isinstance(n, ast.Attribute) and isinstance(n.value, ast.Name):
            out.add(f'{n.value.id}_{n.attr}')
        elif isinstance(n, ast.Name) and not any(isinstance(p, ast.Attribute) and p.value is n for p in ast.walk(e)):
            out.add(n.id)
    return out


def _only_mentions(e, allowed, what):
    extra = _names(e) - set(allowed)
    if extra:
        raise Unsupported(f'{what} mentions {sorted(extra)}; expected only {sorted(allowed)}')


def _guard_of(qual):
    f = find_function(tree(SRC), qual)
    if [a.arg for a in f.args.args] != ['self', 'time_']:
        raise Unsupported(f'{qual}: parameters are not (self, time_)')
    first = _body(f)[0]
    if not (isinstance(first, ast.If) and not first.orelse and len(first.body) == 1
            and isinstance(first.body[0], ast.Return) and first.body[0].value is None):
        raise Unsupported(f'{qual}: first statement is not `if <guard>: return`')
    t = first.test
    if not (isinstance(t, ast.Compare) and len(t.ops) == 1 and isinstance(t.left, ast.Name) and t.left.id == 'time_'
            and _is_self_attr(t.comparators[0], '_current_time')):
        raise Unsupported(f'{qual}: guard is not a comparison of time_ with self._current_time')
    return f, first


def _guard_def(name, qual):
    _, first = _guard_of(qual)
    c, ty = Tr().expr(first.test)
    if ty != 'B':
        raise Unsupported('guard is not boolean')
    return f'Definition {name} (time_ : Z) (self__current_time : Z) : bool :=\n  {c}.\n'


def k_win_guard():
    return _guard_def('win_guard', 'WindowedDStream._step')


def k_st_guard():
    return _guard_def('st_guard', 'StatefulDStream._step')


def k_tr_guard():
    return _guard_def('tr_guard', 'TransformedDStream._step')


def k_src_guard():
    return _guard_def('src_guard', 'DStream._step')


class _Len(ast.NodeTransformer):
    """len(self._window) -> the variable len_window."""

    def visit_Call(self, node):
        self.generic_visit(node)
        if (isinstance(node.func, ast.Name) and node.func.id == 'len' and len(node.args) == 1
                and _is_self_attr(node.args[0], '_window')):
            return ast.Name(id='len_window', ctx=ast.Load())
        return node


def _classify(s):
    """Which effect of WindowedDStream._step a top-level statement is (None = unknown)."""
    if isinstance(s, ast.Assign) and len(s.targets) == 1:
        if _is_self_attr(s.targets[0], '_current_time') and isinstance(s.value, ast.Name) and s.value.id == 'time_':
            return 1
        if _is_self_attr(s.targets[0], '_slide_counter'):
            return 5
        if _is_self_attr(s.targets[0], '_current_rdd'):
            v = s.value
            if (isinstance(v, ast.Call) and isinstance(v.func, ast.Attribute) and v.func.attr == 'union'
                    and len(v.args) == 1 and _is_self_attr(v.args[0], '_window') and not v.keywords):
                return 7
            return None
    if isinstance(s, ast.Expr) and isinstance(s.value, ast.Call) and isinstance(s.value.func, ast.Attribute):
        c = s.value
        if (c.func.attr == '_step' and _is_self_attr(c.func.value, '_prev') and len(c.args) == 1
                and isinstance(c.args[0], ast.Name) and c.args[0].id == 'time_'):
            return 2
        if (c.func.attr == 'append' and _is_self_attr(c.func.value, '_window') and len(c.args) == 1
                and isinstance(c.args[0], ast.Attribute) and c.args[0].attr == '_current_rdd'
                and _is_self_attr(c.args[0].value, '_prev')):
            return 3
    if isinstance(s, ast.While):
        return 4
    if isinstance(s, ast.If):
        return 6
    return None


def k_window():
    f, first = _guard_of('WindowedDStream._step')
    body = _body(f)
    order = [0]
    for s in body[1:]:
        c = _classify(s)
        if c is None:
            raise Unsupported(f'WindowedDStream._step: unexpected statement {ast.dump(s)[:90]}')
        order.append(c)
    if sorted(order) != list(range(8)):
        raise Unsupported(f'WindowedDStream._step: effects found {order}, expected each of 0..7 once')
    # trimming loop
    loop = only([s for s in body if isinstance(s, ast.While)], 'while loop in WindowedDStream._step')
    if loop.orelse or len(loop.body) != 1:
        raise Unsupported('trimming loop body is not a single statement')
    pop = loop.body[0]
    if not (isinstance(pop, ast.Expr) and isinstance(pop.value, ast.Call) and isinstance(pop.value.func, ast.Attribute)
            and pop.value.func.attr == 'pop' and _is_self_attr(pop.value.func.value, '_window')
            and len(pop.value.args) == 1 and isinstance(pop.value.args[0], ast.Constant)
            and pop.value.args[0].value == 0):
        raise Unsupported('trimming loop body is not `self._window.pop(0)`')
    test = _Len().visit(loop.test)
    _only_mentions(test, ['len_window', 'self__window_duration'], 'trimming condition')
    cond, ty = Tr().expr(test)
    if ty != 'B':
        raise Unsupported('trimming condition is not boolean')
    out = ('Definition win_trim_cond (len_window : Z) (self__window_duration : Z) : bool :=\n'
           f'  {cond}.\n')
    # slide counter
    a = only([s for s in body if _classify(s) == 5], 'assignment to self._slide_counter')
    _only_mentions(a.value, ['self__slide_counter', 'self__slide_duration'], 'slide counter update')
    out += '\n' + Tr().function('win_counter_next', [('self__slide_counter', 'Z'), ('self__slide_duration', 'Z')],
                                [ast.Return(value=a.value)], 'ERROR', ret_type='Z')
    # skip test
    sk = only([s for s in body[1:] if isinstance(s, ast.If)], 'if statement after the guard')
    if not (not sk.orelse and len(sk.body) == 1 and isinstance(sk.body[0], ast.Return) and sk.body[0].value is None):
        raise Unsupported('slide test is not `if <cond>: return`')
    _only_mentions(sk.test, ['self__slide_counter'], 'slide test')
    c, ty = Tr().expr(sk.test)
    if ty != 'B':
        raise Unsupported('slide test is not boolean')
    out += f'\nDefinition win_skip (self__slide_counter : Z) : bool :=\n  {c}.\n'
    out += '\nDefinition win_step_order : list Z := [' + '; '.join(str(c) for c in order) + '].\n'
    return out


def k_window_init():
    """Initial values assigned in WindowedDStream.__init__ and DStream.__init__."""
    f = find_function(tree(SRC), 'WindowedDStream.__init__')
    a = only([s for s in f.body if isinstance(s, ast.Assign) and _is_self_attr(s.targets[0], '_slide_counter')],
             'initial _slide_counter')
    c, ty = Tr().expr(a.value)
    if ty != 'Z':
        raise Unsupported('initial slide counter is not an int')
    w = only([s for s in f.body if isinstance(s, ast.Assign) and _is_self_attr(s.targets[0], '_window')],
             'initial _window')
    if not (isinstance(w.value, ast.List) and not w.value.elts):
        raise Unsupported('initial window is not []')
    g = find_function(tree(SRC), 'DStream.__init__')
    t = only([s for s in g.body if isinstance(s, ast.Assign) and _is_self_attr(s.targets[0], '_current_time')],
             'initial _current_time')
    if not (isinstance(t.value, ast.Constant) and isinstance(t.value.value, (int, float)) and t.value.value == 0):
        raise Unsupported('initial _current_time is not 0')
    r = only([s for s in g.body if isinstance(s, ast.Assign) and _is_self_attr(s.targets[0], '_current_rdd')],
             'initial _current_rdd')
    if not (isinstance(r.value, ast.Constant) and r.value.value is None):
        raise Unsupported('initial _current_rdd is not None')
    return (f'Definition win_counter_init : Z := {c}.\n'
            f'Definition dstream_time_init : Z := {int(t.value.value)}.\n')


def _is_call_stmt(s, obj_attr, meth):
    return (isinstance(s, ast.Expr) and isinstance(s.value, ast.Call) and isinstance(s.value.func, ast.Attribute)
            and s.value.func.attr == meth and _is_self_attr(s.value.func.value, obj_attr))


def _is_prev_rdd(e):
    return isinstance(e, ast.Attribute) and e.attr == '_current_rdd' and _is_self_attr(e.value, '_prev')


def k_other_orders():
    """Order of the effects of TransformedDStream._step and StatefulDStream._step, as constants the proofs check.
    Transformed: 0 guard, 1 step parent, 2 set _current_time, 3 `if self._prev._current_rdd is None: return`,
                 4 _current_rdd = self._func(time_, parent rdd).
    Stateful:    0 guard, 1 step parent, 2 set _current_time, 3 combined = parent rdd .cogroup(self._state_rdd),
                 4 self._state_rdd = combined.mapValues(self.convert_fn), 5 self._current_rdd = self._state_rdd;
    and convert_fn takes the LAST element of the state list, None when it is empty."""
    def time_set(s):
        return (isinstance(s, ast.Assign) and len(s.targets) == 1 and _is_self_attr(s.targets[0], '_current_time')
                and isinstance(s.value, ast.Name) and s.value.id == 'time_')

    def parent_step(s):
        return (_is_call_stmt(s, '_prev', '_step') and len(s.value.args) == 1
                and isinstance(s.value.args[0], ast.Name) and s.value.args[0].id == 'time_')

    # Transformed
    f, _ = _guard_of('TransformedDStream._step')
    order = [0]
    for st in _body(f)[1:]:
        if parent_step(st):
            order.append(1)
        elif time_set(st):
            order.append(2)
        elif (isinstance(st, ast.If) and not st.orelse and len(st.body) == 1 and isinstance(st.body[0], ast.Return)
              and st.body[0].value is None and isinstance(st.test, ast.Compare) and len(st.test.ops) == 1
              and isinstance(st.test.ops[0], ast.Is) and _is_prev_rdd(st.test.left)
              and isinstance(st.test.comparators[0], ast.Constant) and st.test.comparators[0].value is None):
            order.append(3)
        elif (isinstance(st, ast.Assign) and len(st.targets) == 1 and _is_self_attr(st.targets[0], '_current_rdd')
              and isinstance(st.value, ast.Call) and _is_self_attr(st.value.func, '_func') and len(st.value.args) == 2
              and isinstance(st.value.args[0], ast.Name) and st.value.args[0].id == 'time_'
              and _is_prev_rdd(st.value.args[1]) and not st.value.keywords):
            order.append(4)
        else:
            raise Unsupported(f'TransformedDStream._step: unexpected statement {ast.dump(st)[:90]}')
    if sorted(order) != [0, 1, 2, 3, 4]:
        raise Unsupported(f'TransformedDStream._step: effects found {order}')
    out = 'Definition tr_step_order : list Z := [' + '; '.join(map(str, order)) + '].\n'
    # Stateful
    f, _ = _guard_of('StatefulDStream._step')
    order = [0]
    for st in _body(f)[1:]:
        if parent_step(st):
            order.append(1)
        elif time_set(st):
            order.append(2)
        elif (isinstance(st, ast.Assign) and len(st.targets) == 1 and isinstance(st.targets[0], ast.Name)
              and st.targets[0].id == 'combined' and isinstance(st.value, ast.Call)
              and isinstance(st.value.func, ast.Attribute) and st.value.func.attr == 'cogroup'
              and _is_prev_rdd(st.value.func.value) and len(st.value.args) == 1
              and _is_self_attr(st.value.args[0], '_state_rdd') and not st.value.keywords):
            order.append(3)
        elif (isinstance(st, ast.Assign) and len(st.targets) == 1 and _is_self_attr(st.targets[0], '_state_rdd')
              and isinstance(st.value, ast.Call) and isinstance(st.value.func, ast.Attribute)
              and st.value.func.attr == 'mapValues' and isinstance(st.value.func.value, ast.Name)
              and st.value.func.value.id == 'combined' and len(st.value.args) == 1
              and _is_self_attr(st.value.args[0], 'convert_fn')):
            order.append(4)
        elif (isinstance(st, ast.Assign) and len(st.targets) == 1 and _is_self_attr(st.targets[0], '_current_rdd')
              and _is_self_attr(st.value, '_state_rdd')):
            order.append(5)
        else:
            raise Unsupported(f'StatefulDStream._step: unexpected statement {ast.dump(st)[:90]}')
    if sorted(order) != [0, 1, 2, 3, 4, 5]:
        raise Unsupported(f'StatefulDStream._step: effects found {order}')
    out += 'Definition st_step_order : list Z := [' + '; '.join(map(str, order)) + '].\n'
    # convert_fn: `input_values, state_list = joined; state = state_list[-1] if state_list else None;
    #              return self._func(input_values, state)`
    c = find_function(tree(SRC), 'StatefulDStream.convert_fn')
    body = _body(c)
    ok = (len(body) == 3
          and isinstance(body[0], ast.Assign) and isinstance(body[0].targets[0], ast.Tuple)
          and [getattr(e, 'id', None) for e in body[0].targets[0].elts] == ['input_values', 'state_list']
          and isinstance(body[0].value, ast.Name) and body[0].value.id == 'joined'
          and isinstance(body[1], ast.Assign) and getattr(body[1].targets[0], 'id', None) == 'state'
          and isinstance(body[1].value, ast.IfExp)
          and isinstance(body[1].value.test, ast.Name) and body[1].value.test.id == 'state_list'
          and isinstance(body[1].value.orelse, ast.Constant) and body[1].value.orelse.value is None
          and isinstance(body[1].value.body, ast.Subscript)
          and isinstance(body[1].value.body.value, ast.Name) and body[1].value.body.value.id == 'state_list'
          and isinstance(body[1].value.body.slice, ast.UnaryOp) and isinstance(body[1].value.body.slice.op, ast.USub)
          and isinstance(body[1].value.body.slice.operand, ast.Constant)
          and isinstance(body[2], ast.Return) and isinstance(body[2].value, ast.Call)
          and _is_self_attr(body[2].value.func, '_func')
          and [getattr(a, 'id', None) for a in body[2].value.args] == ['input_values', 'state'])
    if not ok:
        raise Unsupported('StatefulDStream.convert_fn is not `state = state_list[-k] if state_list else None; '
                          'return self._func(input_values, state)`')
    idx = body[1].value.body.slice.operand.value
    out += f'(* convert_fn passes state_list[-{idx}] (None when the list is empty) *)\n'
    out += f'Definition st_state_index_from_end : Z := {int(idx)}.\n'
    return out


def k_tw_guard():
    return _guard_def('tw_guard', 'TransformedWithDStream._step')


def k_tw_order():
    """TransformedWithDStream._step: 0 guard, 1 step parent, 2 step the other parent, 3 set _current_time,
    4 _current_rdd = self._func(time_, parent rdd, other parent rdd)."""
    f, _ = _guard_of('TransformedWithDStream._step')
    order = [0]
    for st in _body(f)[1:]:
        if (_is_call_stmt(st, '_prev', '_step') and len(st.value.args) == 1
                and isinstance(st.value.args[0], ast.Name) and st.value.args[0].id == 'time_'):
            order.append(1)
        elif (_is_call_stmt(st, '_other_prev', '_step') and len(st.value.args) == 1
              and isinstance(st.value.args[0], ast.Name) and st.value.args[0].id == 'time_'):
            order.append(2)
        elif (isinstance(st, ast.Assign) and len(st.targets) == 1 and _is_self_attr(st.targets[0], '_current_time')
              and isinstance(st.value, ast.Name) and st.value.id == 'time_'):
            order.append(3)
        elif (isinstance(st, ast.Assign) and len(st.targets) == 1 and _is_self_attr(st.targets[0], '_current_rdd')
              and isinstance(st.value, ast.Call) and _is_self_attr(st.value.func, '_func') and len(st.value.args) == 3
              and isinstance(st.value.args[0], ast.Name) and st.value.args[0].id == 'time_'
              and _is_prev_rdd(st.value.args[1])
              and isinstance(st.value.args[2], ast.Attribute) and st.value.args[2].attr == '_current_rdd'
              and _is_self_attr(st.value.args[2].value, '_other_prev') and not st.value.keywords):
            order.append(4)
        else:
            raise Unsupported(f'TransformedWithDStream._step: unexpected statement {ast.dump(st)[:90]}')
    if sorted(order) != [0, 1, 2, 3, 4]:
        raise Unsupported(f'TransformedWithDStream._step: effects found {order}')
    return 'Definition tw_step_order : list Z := [' + '; '.join(map(str, order)) + '].\n'


FILES = [
    ('Window.v', SRC, HEADER_Z, [('window_step', k_window), ('window_init', k_window_init),
                                 ('win_guard', k_win_guard), ('st_guard', k_st_guard),
                                 ('tr_guard', k_tr_guard), ('src_guard', k_src_guard),
                                 ('other_orders', k_other_orders), ('tw_guard', k_tw_guard), ('tw_order', k_tw_order)]),
]
