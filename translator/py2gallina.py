"""Fail-closed translator from a tiny subset of Python (as found in /repo) to Gallina.

It translates *selected statements* of a function: straight-line integer / float arithmetic with
`if`, simple and augmented assignment and `return`.  Anything outside the subset raises
Unsupported, which the caller reports as KERNEL-FAIL (a broken proof obligation) -- never a
silent skip.

Types: 'Z' (Python int), 'F' (Python float; emitted against the abstract operations of
PV.Base.Num so that the same kernel is instantiated with R for the theorems and with PrimFloat
for execution), 'B' (bool).  Names not listed in the typing table are Z.
Attribute access `self.x` / `other.x` is flattened to the variable `self_x` / `other_x`.
"""
import ast


class Unsupported(Exception):
    pass


def find_function(tree, qualname):
    """Locate a (possibly nested) function/method by dotted name, e.g. 'Context.parallelize.partitioned'."""
    parts = qualname.split('.')
    nodes = [tree]
    for part in parts:
        found = []
        for n in nodes:
            for ch in ast.walk(n) if isinstance(n, ast.Module) and False else _children_defs(n):
                if ch.name == part:
                    found.append(ch)
        if len(found) != 1:
            raise Unsupported(f'{qualname}: expected exactly one definition of {part!r}, found {len(found)}')
        nodes = found
    return nodes[0]


def _children_defs(node):
    out = []
    for ch in ast.iter_child_nodes(node):
        if isinstance(ch, (ast.FunctionDef, ast.ClassDef)):
            out.append(ch)
        elif isinstance(ch, (ast.If, ast.For, ast.While, ast.With, ast.Try)):
            out.extend(_children_defs(ch))
    return out


class Tr:
    def __init__(self, types=None, rename=None, calls=None):
        self.types = dict(types or {})       # variable -> 'Z' | 'F' | 'B'
        self.rename = dict(rename or {})     # python name -> coq name
        self.calls = dict(calls or {})       # python function name -> (coq name, arg types, result type)

    # ---------- names
    def name_of(self, node):
        if isinstance(node, ast.Name):
            n = node.id
        elif isinstance(node, ast.Attribute) and isinstance(node.value, ast.Name):
            n = f'{node.value.id}_{node.attr}'
        else:
            raise Unsupported(f'unsupported target/name: {ast.dump(node)[:80]}')
        n = self.rename.get(n, n)
        if n in ('end', 'in', 'fix', 'let', 'match', 'with', 'as', 'at', 'fun', 'if', 'then', 'else', 'return', 'Type', 'Set', 'Prop'):
            n += '_'
        return n

    def type_of_name(self, n):
        return self.types.get(n, 'Z')

    # ---------- expressions: returns (text, type)
    def coerce(self, text, ty, want):
        if ty == want:
            return text
        if ty == 'Z' and want == 'F':
            return f'(fofZ {text})'
        if ty == 'B' and want == 'Z':
            return f'(if {text} then 1 else 0)'
        raise Unsupported(f'cannot coerce {ty} to {want}: {text}')

    def expr(self, e):
        if isinstance(e, ast.Constant):
            if isinstance(e.value, bool):
                return ('true' if e.value else 'false'), 'B'
            if isinstance(e.value, int):
                return (f'({e.value})' if e.value < 0 else str(e.value)), 'Z'
            if isinstance(e.value, float):
                if e.value == int(e.value) and abs(e.value) < 2 ** 53:
                    return f'(fofZ {int(e.value)})', 'F'
                raise Unsupported(f'non-integral float constant {e.value}')
            raise Unsupported(f'constant {e.value!r}')
        if isinstance(e, (ast.Name, ast.Attribute)):
            n = self.name_of(e)
            return n, self.type_of_name(n)
        if isinstance(e, ast.UnaryOp):
            t, ty = self.expr(e.operand)
            if isinstance(e.op, ast.USub):
                return (f'(- {t})' if ty == 'Z' else f'(fopp {t})'), ty
            if isinstance(e.op, ast.Not):
                return f'(negb {self.coerce_b(t, ty)})', 'B'
            raise Unsupported(f'unary {type(e.op).__name__}')
        if isinstance(e, ast.BinOp):
            return self.binop(e)
        if isinstance(e, ast.Compare):
            return self.compare(e)
        if isinstance(e, ast.BoolOp):
            parts = [self.coerce_b(*self.expr(v)) for v in e.values]
            op = ' && ' if isinstance(e.op, ast.And) else ' || '
            return '(' + op.join(parts) + ')', 'B'
        if isinstance(e, ast.IfExp):
            c = self.coerce_b(*self.expr(e.test))
            a, ta = self.expr(e.body)
            b, tb = self.expr(e.orelse)
            ty = 'F' if 'F' in (ta, tb) else ta
            return f'(if {c} then {self.coerce(a, ta, ty)} else {self.coerce(b, tb, ty)})', ty
        if isinstance(e, ast.Call):
            return self.call(e)
        if isinstance(e, ast.ListComp):
            return self.listcomp(e)
        raise Unsupported(f'expression {type(e).__name__}: {ast.dump(e)[:80]}')

    def range_of(self, it):
        if not (isinstance(it, ast.Call) and isinstance(it.func, ast.Name) and it.func.id == 'range'
                and not it.keywords and len(it.args) in (1, 2)):
            raise Unsupported('comprehension over something else than range(a[, b])')
        args = [self.coerce(*self.expr(a), 'Z') for a in it.args]
        lo, hi = ('0', args[0]) if len(args) == 1 else args
        return f'(zrange {lo} {hi})'

    def listcomp(self, e):
        # [elt for v1 in range(..) for v2 in range(..)]  ->  flat_map (fun v1 => map (fun v2 => elt) ..) ..
        gens = e.generators
        if not 1 <= len(gens) <= 2 or any(g.ifs or g.is_async for g in gens):
            raise Unsupported('comprehension shape')
        vs = []
        for g in gens:
            if not isinstance(g.target, ast.Name):
                raise Unsupported('comprehension target')
            vs.append('u_' if g.target.id == '_' else self.name_of(g.target))
        rngs = []
        for g in gens:
            rngs.append(self.range_of(g.iter))
        elt, ty = self.expr(e.elt)
        elt = self.coerce(elt, ty, 'Z')
        if len(gens) == 1:
            return f'(map (fun {vs[0]} => {elt}) {rngs[0]})', 'L'
        return f'(flat_map (fun {vs[0]} => map (fun {vs[1]} => {elt}) {rngs[1]}) {rngs[0]})', 'L'

    def coerce_b(self, t, ty):
        if ty == 'B':
            return t
        if ty == 'Z':
            return f'(negb ({t} =? 0))'
        raise Unsupported(f'truthiness of {ty}')

    def binop(self, e):
        a, ta = self.expr(e.left)
        b, tb = self.expr(e.right)
        op = type(e.op).__name__
        if ta == 'L' and tb == 'L' and op == 'Add':
            return f'({a} ++ {b})', 'L'
        if op == 'Div':
            # true division always yields a float
            return f'(fdiv {self.coerce(a, ta, "F")} {self.coerce(b, tb, "F")})', 'F'
        if 'F' in (ta, tb):
            fa, fb = self.coerce(a, ta, 'F'), self.coerce(b, tb, 'F')
            table = {'Add': 'fadd', 'Sub': 'fsub', 'Mult': 'fmul'}
            if op not in table:
                raise Unsupported(f'float operator {op}')
            return f'({table[op]} {fa} {fb})', 'F'
        a, b = self.coerce(a, ta, 'Z'), self.coerce(b, tb, 'Z')
        table = {'Add': '+', 'Sub': '-', 'Mult': '*', 'FloorDiv': '/', 'Mod': 'mod'}
        if op in table:
            return f'({a} {table[op]} {b})', 'Z'
        fn = {'Pow': 'Z.pow', 'BitAnd': 'Z.land', 'BitOr': 'Z.lor', 'BitXor': 'Z.lxor',
              'LShift': 'Z.shiftl', 'RShift': 'Z.shiftr'}
        if op in fn:
            return f'({fn[op]} {a} {b})', 'Z'
        raise Unsupported(f'operator {op}')

    def compare(self, e):
        if len(e.ops) != 1:
            # chained comparison a <= b <= c
            parts = []
            left = e.left
            for op, right in zip(e.ops, e.comparators):
                parts.append(self.compare(ast.Compare(left=left, ops=[op], comparators=[right]))[0])
                left = right
            return '(' + ' && '.join(parts) + ')', 'B'
        a, ta = self.expr(e.left)
        b, tb = self.expr(e.comparators[0])
        op = type(e.ops[0]).__name__
        if 'F' in (ta, tb):
            fa, fb = self.coerce(a, ta, 'F'), self.coerce(b, tb, 'F')
            table = {'Lt': ('fltb', False), 'Gt': ('fltb', True), 'LtE': ('fleb', False), 'GtE': ('fleb', True),
                     'Eq': ('feqb', False)}
            if op not in table:
                raise Unsupported(f'float comparison {op}')
            fn, swap = table[op]
            return (f'({fn} {fb} {fa})' if swap else f'({fn} {fa} {fb})'), 'B'
        if ta == 'B' or tb == 'B':
            raise Unsupported('comparison of booleans')
        table = {'Lt': '{a} <? {b}', 'Gt': '{b} <? {a}', 'LtE': '{a} <=? {b}', 'GtE': '{b} <=? {a}',
                 'Eq': '{a} =? {b}', 'NotEq': 'negb ({a} =? {b})'}
        if op not in table:
            raise Unsupported(f'comparison {op}')
        return '(' + table[op].format(a=a, b=b) + ')', 'B'

    def call(self, e):
        if e.keywords:
            raise Unsupported('keyword arguments')
        if not isinstance(e.func, ast.Name):
            raise Unsupported(f'call of {ast.dump(e.func)[:60]}')
        f = e.func.id
        # int(a / b) on integers: truncation of the exact quotient
        if f == 'int' and len(e.args) == 1:
            arg = e.args[0]
            if isinstance(arg, ast.BinOp) and isinstance(arg.op, ast.Div):
                a, ta = self.expr(arg.left)
                b, tb = self.expr(arg.right)
                if ta == 'Z' and tb == 'Z':
                    return f'(int_truediv {a} {b})', 'Z'
            t, ty = self.expr(arg)
            if ty == 'Z':
                return t, 'Z'
            if ty == 'B':
                return self.coerce(t, 'B', 'Z'), 'Z'
            if ty == 'F':
                return f'(ftrunc {t})', 'Z'
        if f == 'float' and len(e.args) == 1:
            t, ty = self.expr(e.args[0])
            return self.coerce(t, ty, 'F'), 'F'
        if f in ('min', 'max', 'minimum', 'maximum') and len(e.args) == 2:
            a, ta = self.expr(e.args[0])
            b, tb = self.expr(e.args[1])
            base = 'min' if f.startswith('min') else 'max'
            if 'F' in (ta, tb):
                return f'(f{base} {self.coerce(a, ta, "F")} {self.coerce(b, tb, "F")})', 'F'
            return f'(Z.{base} {a} {b})', 'Z'
        if f == 'abs' and len(e.args) == 1:
            t, ty = self.expr(e.args[0])
            if ty == 'Z':
                return f'(Z.abs {t})', 'Z'
        if f in self.calls:
            cname, argtys, rty = self.calls[f]
            if len(argtys) != len(e.args):
                raise Unsupported(f'arity of {f}')
            args = [self.coerce(*self.expr(a), want) for a, want in zip(e.args, argtys)]
            return '(' + ' '.join([cname] + args) + ')', rty
        raise Unsupported(f'call of {f}')

    # ---------- statements
    def assigned(self, stmts):
        out = []
        for s in stmts:
            if isinstance(s, ast.Assign):
                for t in s.targets:
                    n = self.name_of(t)
                    if n not in out:
                        out.append(n)
            elif isinstance(s, ast.AugAssign):
                n = self.name_of(s.target)
                if n not in out:
                    out.append(n)
            elif isinstance(s, ast.If):
                for n in self.assigned(s.body) + self.assigned(s.orelse):
                    if n not in out:
                        out.append(n)
            elif isinstance(s, (ast.Return, ast.Pass, ast.Expr)):
                pass
            else:
                raise Unsupported(f'statement {type(s).__name__}')
        return out

    def has_return(self, stmts):
        for s in stmts:
            if isinstance(s, ast.Return):
                return True
            if isinstance(s, ast.If) and (self.has_return(s.body) or self.has_return(s.orelse)):
                return True
        return False

    def block(self, stmts, k, ind='  ', scope=frozenset()):
        """Translate statements; `k` is the Gallina text of what follows (the result expression);
        `scope` is the set of variables bound so far."""
        if not stmts:
            return ind + k
        s, rest = stmts[0], stmts[1:]
        if isinstance(s, ast.Pass) or (isinstance(s, ast.Expr) and isinstance(s.value, ast.Constant)):
            return self.block(rest, k, ind, scope)
        if isinstance(s, ast.Assign):
            if len(s.targets) != 1:
                raise Unsupported('multiple assignment targets')
            n = self.name_of(s.targets[0])
            t, ty = self.expr(s.value)
            want = self.types.get(n)
            if want is None:
                self.types[n] = ty
                want = ty
            return f'{ind}let {n} := {self.coerce(t, ty, want)} in\n' + self.block(rest, k, ind, scope | {n})
        if isinstance(s, ast.AugAssign):
            tgt = s.target
            load = ast.Name(id=tgt.id, ctx=ast.Load()) if isinstance(tgt, ast.Name) else \
                ast.Attribute(value=tgt.value, attr=tgt.attr, ctx=ast.Load())
            return self.block([ast.Assign(targets=[tgt], value=ast.BinOp(left=load, op=s.op, right=s.value))] + rest,
                              k, ind, scope)
        if isinstance(s, ast.Return):
            if s.value is None:
                raise Unsupported('bare return')
            if self.ret_override is not None:
                return ind + self.ret_override
            t, ty = self.expr(s.value)
            return ind + self.coerce(t, ty, self.ret_type) if self.ret_type else ind + t
        if isinstance(s, ast.If):
            c = self.coerce_b(*self.expr(s.test))
            if self.has_return(s.body) or self.has_return(s.orelse):
                saved = dict(self.types)
                a = self.block(s.body + rest, k, ind + '  ', scope)
                self.types = dict(saved)
                b = self.block(s.orelse + rest, k, ind + '  ', scope)
                return f'{ind}if {c} then\n{a}\n{ind}else\n{b}'
            in_a, in_b = self.assigned(s.body), self.assigned(s.orelse)
            # variables that survive the conditional: bound before it, or assigned on both paths;
            # a variable assigned on one path only is local to that path
            vs = [v for v in self.assigned(s.body + s.orelse) if v in scope or (v in in_a and v in in_b)]
            if not vs:
                return self.block(rest, k, ind, scope)
            for v in vs:
                if v not in self.types:
                    raise Unsupported(f'{v} assigned only inside a conditional and not typed')
            tup = vs[0] if len(vs) == 1 else '(' + ', '.join(vs) + ')'
            pat = vs[0] if len(vs) == 1 else "'(" + ', '.join(vs) + ')'
            a = self.block(s.body, tup, ind + '    ', scope)
            b = self.block(s.orelse, tup, ind + '    ', scope)
            return (f'{ind}let {pat} :=\n{ind}  if {c} then\n{a}\n{ind}  else\n{b} in\n'
                    + self.block(rest, k, ind, scope | set(vs)))
        raise Unsupported(f'statement {type(s).__name__}')

    def function(self, name, params, stmts, result, ret_type=None, ret_override=None):
        """params: list of (name, type); result: Gallina text used when the statements fall through."""
        self.ret_type = ret_type
        self.ret_override = ret_override
        for n, ty in params:
            self.types[n] = ty
        coq_ty = {'Z': 'Z', 'F': 'F', 'B': 'bool', 'L': 'list Z'}
        ps = ' '.join(f'({n} : {coq_ty[ty]})' for n, ty in params)
        body = self.block(list(stmts), result, '  ', frozenset(n for n, _ in params))
        return f'Definition {name} {ps} :=\n{body}.\n'
