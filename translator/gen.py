#!/usr/bin/env python3
"""Regenerate coq/Gen/*.v from /repo's current source (fail closed).

Kernel definitions live in translator/kernels/*.py; each module defines
  FILES = [(gen_file_name, source_description, header, [(kernel_name, function), ...]), ...]
Every kernel is located by function name and statement shape, never by line number.  A kernel
that cannot be located uniquely or that uses syntax outside the translator's subset prints
  KERNEL-FAIL <gen file> <kernel>: <reason>
and the process exits 1; the previously generated file is then left in place (stale), so that
the model still builds and the correspondence check shows where behaviour changed.
Files are only rewritten when their content changes (to keep make incremental).
"""
import glob
import importlib
import os
import sys

HERE = os.path.dirname(os.path.abspath(__file__))
sys.path.insert(0, HERE)
sys.path.insert(0, os.path.join(HERE, 'kernels'))
import genlib  # noqa: E402
from py2gallina import Unsupported  # noqa: E402

OUT = os.path.join(os.path.dirname(HERE), 'coq', 'Gen')


def all_files():
    files = []
    for path in sorted(glob.glob(os.path.join(HERE, 'kernels', '*.py'))):
        name = os.path.basename(path)[:-3]
        if name.startswith('_'):
            continue
        try:
            mod = importlib.import_module(name)
            files.extend(mod.FILES)
        except Exception as e:  # pylint: disable=broad-except
            print(f'KERNEL-FAIL {name}.py module: {type(e).__name__}: {e}')
    return files


def main():
    os.makedirs(OUT, exist_ok=True)
    failed = 0
    seen = set()
    for fname, src, header, kernels in all_files():
        text = header.format(src=src)
        ok = True
        for kname, fn in kernels:
            try:
                text += fn() + '\n'
            except (Unsupported, SyntaxError, OSError, AttributeError, IndexError, KeyError, TypeError) as e:
                print(f'KERNEL-FAIL {fname} {kname}: {type(e).__name__}: {e}')
                ok = False
                failed += 1
        if header is genlib.HEADER_F:
            text += 'End Kernels.\n'
        if not ok:
            continue
        path = os.path.join(OUT, fname)
        old = open(path).read() if os.path.exists(path) else None
        if old != text:
            with open(path, 'w') as f:
                f.write(text)
            print(f'regenerated {fname}')
    return 1 if failed else 0


if __name__ == '__main__':
    sys.exit(main())
